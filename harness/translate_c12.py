"""Python-`ast` -> Lean translation of the glue code around the schema codec (property C12).

`gen_codecfns()` parses the files of `envshim.REPO` (honours `METADOR_REPO`) and returns the text of
`lean/MetadorModel/Gen/CodecFns.lean`; `harness/props/c12.py::translate` writes it on every `./check C12` run.
The hand-written bridge modules (re-checked by `lake build` on every run) prove each generated function equal to
the hand-written model function of `lean/MetadorModel/Model/CodecParsers.lean`, and `Bridge/CodecFns.lean`
transfers the C12 facts (`Props/C12.lean`, `Proofs/CodecParsers.lean`) to the generated functions:

    Bridge/CodecFnsBase.lean    schema/base.py      gen_mod_def_dump_args gen_json gen_json_dict gen_yaml gen_bytes gen_str
                                                    gen_parse_file gen_parse_raw gen_config gen_metaclass_BaseModelPlus
    Bridge/CodecFnsEnc.lean     schema/encoder.py   gen_json_encoder gen_add_json_encoder gen_dynamize_encoder gen_mixin_init
                                (+ decorators of schema/types.py)   gen_registry
    Bridge/CodecFnsCore.lean    schema/core.py      gen_key_constflds gen_override_consts(_pre) gen_schema_extra gen_magic_init
    Bridge/CodecFnsMeta.lean    metaclass chain     gen_class_init_DynEncoderModelMetaclass / _SchemaMagic / _SchemaMetaclass,
                                                    gen_metaclass_MetadataSchema
    Bridge/CodecFnsParser.lean  schema/parser.py, schema/types.py   gen_baseparser_attrs gen_baseparser_parse gen_run_parser gen_get_parser
                                                    gen_get_validators gen_modify_schema gen_duration_parse gen_string_parse gen_pint_parse
                                                    gen_parser_classes gen_opq_validators gen_validate_opq
    Bridge/CodecFnsNum.lean     schema/common/__init__.py           gen_num_cfg gen_num_parse
    Bridge/CodecFns.lean        transfer            gen_encoder_reaches_all_classes gen_declared_metaclasses gen_roundtrip_json/_bytes/_yaml
                                                    gen_json_dict_constants gen_override_consts_decode gen_env_norm gen_env_crash gen_num_own_output

Translated (source lines of the pinned tree; everything is found by name, not by line number)
---------------------------------------------------------------------------------------------
    schema/base.py      l. 12-18  `_mod_def_dump_args`; l. 29-48 `BaseModelPlus.Config` (all attributes, as a name-sorted table);
                        l. 21 `metaclass=` of `BaseModelPlus`; l. 58-60 `json`, 62-67 `json_dict`, 69-74 `yaml`, 77-78 `parse_file`,
                        81-85 `parse_raw` (try / except ValidationError), 87-92 `__bytes__`, 94-95 `__str__`
    schema/core.py      l. 52 `KEY_SCHEMA_CONSTFLDS`; l. 71-90 `SchemaBase.Config.schema_extra` (whole body incl. the loop);
                        l. 101-108 `SchemaBase.override_consts` with the `pre=` flag of its decorator; l. 177-195 `SchemaMagic.__init__`
                        (the `super().__init__` call, `__constants__ = {}`, the loop over `bases`); the `class` headers of `SchemaMagic`,
                        `SchemaMetaclass`, `MetadataSchema` (bases, `metaclass=`)
    schema/encoder.py   l. 44-59 `json_encoder` (nested `reg_encoder`), 62-64 `add_json_encoder`, 70-82 `_dynamize_encoder` (nested
                        `wrapped_encoder`: try / except TypeError / walrus / re-raise), 91-93 `DynJsonEncoderMetaMixin.__init__`, the `class`
                        headers of `DynJsonEncoderMetaMixin`, `DynEncoderModelMetaclass`
    plugin/metaclass.py the `class` header of `PluginMetaclassMixin` and the fact that it defines no `__init__` / `__call__`
    schema/parser.py    l. 12-13 `BaseParser.schema_info / strict`, 16-38 `BaseParser.parse`, 41-49 `run_parser`, 52-62 `get_parser`,
                        82-102 `ParserMixin.__get_validators__` (generator with its cache, nested `wrapper_func`), 105-108 `__modify_schema__`
    schema/types.py     l. 57-76 `Duration` (decorator, bases, `Parser.schema_info`, `Parser.parse`), 82-95 `StringParser.parse`,
                        98-113 `PintParser.parse` (both `except` clauses), 116-125 `PintUnit`, 128-147 `PintQuantity` (decorator, bases,
                        inner `Parser`: base chain, `schema_info`, inherited `strict` / `parse`)
    schema/common/__init__.py   l. 56-62 class attributes of `NumValue.Parser`, 64-98 `NumValue.Parser.parse` (whole cascade), 104-106 `Pixels.Parser`

How: *structurally*, statement by statement, into terms of type `M τ = Except PyErr τ` (a Python exception is `Except.error`).
    if / elif / else        `if c then … else …`; a branch that always returns / raises takes no continuation, the statements after the
                            `if` continue in the other branch; if both branches fall through, the variables assigned in them are joined
                            (`let x := if c then a else x`, or `match (if c then … : M (A × B)) with | .ok (a, b) => …` when a branch can raise);
                            a variable bound on some paths only becomes an `Option` and reading it is `getBound` (UnboundLocalError) —
                            `arr` in `NumValue.Parser.parse`; branches that return on some paths only duplicate the continuation
    x = e                   `let x := e` (a call that can raise: `match e with | .error ex => .error ex | .ok x => …`); Python evaluation order
    a if c else b           as the if-statement (branches may raise)
    and / or / not          on truth values `&&`, `||`, `!` with the short circuit kept when an operand can raise; in value position the
                            value-returning meaning `x or y = if truthy x then x else y` (truthiness by type: None, False, 0, 0.0, "", [], {}
                            falsy; instances by `Lib.instTruthy`; classes and functions truthy); `Optional[class] or class` = `optOr`
    `if x := e:`            `match e with | some x => … | none => …` for optional classes / functions, `let x := e; if truthy x` otherwise
    `if x is None:`         on an optional-typed name: `match x with | none => … | some x => …` (narrowing); `is not`, `not in`, `!=` = negations
    try / except            the try block must always return; `match body with | .ok r => .ok r | .error ex1 => if catches [names] ex1 then
                            handler else …` in source order; `raise` / `raise e` re-raise; ValidationError ⊂ ValueError; `except Exception` all
    raise X(msg)            `.error PyErr.x`; message expressions (f-strings over names, attributes, `type()`, `str()`, `repr()`, constant
                            subscripts) must be free of other calls and are dropped
    for k, v in d.items()   `forItems (fun state k v => body) d state`, for b in bases `forEachM …`; state = the variables re-bound in the body
    yield e                 appended to the list of yielded values, returned with the (cached) class
    d[k] = v, d[k1][k2] = v, d.update(e), d.update(**e)   re-binding of the dict (`setKey`, `dictSet2` — KeyError / TypeError —, `dictUpdate`);
                            a function that updates a dict parameter in place returns its final value
    nested def              only the three closures of the source: `reg_encoder`, `wrapped_encoder` (translated with the outer parameter as
                            an extra argument) and `wrapper_func` (recognised by its exact shape, = `PFunc.wrapper parser`)

Value dictionary (fixed; Lean side `lean/MetadorModel/Py/CodecPy.lean` and the types of `Model/Codec.lean`, `Model/CodecParsers.lean`)
    str ↦ Str (List Char); dict / **kwargs ↦ Dict = List (Str × Json) with `lookup` / `setKey` / `hasKey` of Model/Codec; plain data ↦ Json
    a schema instance `self` ↦ PyVal; a schema class `cls` (parse_raw / parse_file) ↦ Ty; `super().json(*args, **kw)` ↦ `pydJson L leaf self kw`
        (pydantic's json with the class's `__json_encoder__` = `leaf`; `*args` is empty: pydantic takes keywords only);
        `super().parse_raw(dat, **kw)` ↦ `pydParseRaw` (json.loads failure = ValidationError; validation = `decode (envOf L)`);
        `parse_yaml_raw_as / parse_yaml_file_as` ↦ `parseYamlRawAs / parseYamlFileAs`; `to_yaml_str(self)` ↦ `toYamlStr L (self.json())`;
        `json.loads` ↦ `jsonLoads`; `s.encode(encoding="utf-8")` (also positional / default) ↦ `utf8` (bytes travel as chars); `a + "\n"` ↦ `++`
    any object given to a parser ↦ Obj (`.json` plain data | `.inst k text` Duration / PintUnit / PintQuantity instance | `.td secs` result of
        isodate.parse_duration | `.qv` instance of tcls / tcls.__base__ | `.tuple`); isinstance(x, str|bool|int|float|dict) ↦ isStr … (bool is an
        int); isinstance(x, tcls / target) ↦ `Obj.isInst`; isinstance(x, tcls.__base__) ↦ `isBase`; (a, b) ↦ `Obj.tuple`; len ↦ `pyLen`;
        x[0] ↦ `pyIndex`; x.strip() / x.split(maxsplit=1) ↦ `pyStrip` / `pySplit1` (ASCII white space); x.value / unitText / unitCode ↦ `attr…`
    isodate.parse_duration ↦ `parseDurationObj`; d.total_seconds() ↦ `totalSeconds`; tcls(seconds=x) ↦ `mkDuration`; tcls(v) ↦ `constructObj`
        (pint); parse_obj_as(Number, x) / parse_obj_as(Tuple[Number, str], x) / tcls.__base__.validate(x) ↦ `L.parseNumber / parseNumStr /
        baseValidate`; tcls.construct(value=a, unitText=b) ↦ `numConstruct`; cls.require_unit / infer_unit / allowed_units ↦ fields of NumCfg
    a Parser class ↦ ParserCls (isBaseParser, strict, parse, schemaInfo: found by following the bases inside the module up to BaseParser);
        a class using ParserMixin ↦ PCls (ownParser = `cls.__dict__.get("Parser")`, cache = `cls.__dict__.get("__parser_func__")`, isModel);
        NoParserDefined ↦ `PFunc.noParser`; `cls.validate` ↦ `Validator.modelValidate`
    `_reg_json_encoders` ↦ a Registry threaded through `json_encoder` (state) and read by `_dynamize_encoder`; `@json_encoder(f) class C` ↦ an entry
        of `registrations` (f: `isodate.duration_isoformat` ↦ EncFn.durationIsoformat, `str` ↦ EncFn.str; C ↦ ClsDesc, not a model / dataclass when
        its bases are ParserMixin, isodate.Duration, Unit, Quantity); `registry` = the decorators run in source order on the empty registry
    metaclass `__init__(self, name, bases, dct)` ↦ `MetaInit` on ClsSt (jsonEncoder, constants); `super().__init__(name, bases, dct)` ↦ the next
        `__init__` along the MRO (C3 linearisation computed by the translator from the class headers; ModelMetaclass, ABCMeta, type define none
        that matters); staticmethod(f) ↦ f; getattr(b, "__constants__", {}) ↦ b.constants; assert and the attributes `__types_checked__`,
        `__overrides__`, `__annotations__` of `SchemaMagic.__init__` are left out
    UndefVersion._unwrap(m) ↦ `SchemaCls.unwrapOpt`; `m is MetadataSchema` ↦ m.isMetadataSchema; add_missing_field_descriptions(schema, m) ↦
        `L.addDescriptions`; Extra.allow ↦ "allow"
Anything else raises `TranslateError` naming what was not understood: the function is left out of Gen/CodecFns.lean (comment `NOT TRANSLATED`),
the obligation `translate:C12` is undischarged and the bridge modules that mention the function do not build; the other functions are written.

NOT translated (tied by the correspondence run / oracle of `harness/props/c12.py` only)
    pydantic itself (validation = `Model/Codec.decode`, `BaseModel.json` = `encodeVia`), json / ruamel.yaml / isodate / pint (fields of `Lib`, their
    laws are hypotheses `TextLaws`, `NumLaws`, `Valid`); `BaseModelPlus.dict`; `SchemaMagic.__new__`, `PluginMetaclassMixin.__new__`; the decorators
    of `schema/decorators.py` (`add_const_fields` …, C13); `PintQuantity.__new__`; `SIValueParser`; `QuantitativeValue` validation; the call sites
    (that pydantic calls `__get_validators__`, the root validator and `__json_encoder__` as the dictionary says).

Mutation tests (scratch worktree of /repo, `METADOR_REPO=/tmp/tr-c12`, 2026-09-30)
    Behaviour-changing edits — all 30 leave `build:MetadorModel.Bridge.CodecFns<File>` and the theorems of that file undischarged (run through
    translation + `lake build` of the bridge modules; * = also through the whole `./check C12 --tier quick`, exit 1):
      base.py    `exclude_none` forced to False * (no failing input: the replay names gen_mod_def_dump_args with the open goal
                 `truthyJ false = truthyJ true`); `"by_alias" in kwargs`; `except Exception` in parse_raw; YAML before JSON; `__bytes__` without
                 the newline; `min_anystr_length = 0`
      core.py    constants added only when missing; `@root_validator` without `pre=True`; schema_extra stores `True` instead of the value;
                 `SchemaMagic.__init__` without `super().__init__` (F4 reverted) * (oracle: 701 hits); the loop over `bases` removed
      encoder.py `except ValueError` in the wrapped encoder; registry before the default encoder; wrap only `if not bases` (NOT TRANSLATED);
                 duplicate-encoder check removed; `@json_encoder(str)` on Duration
      parser.py  `not cls.strict`; `cls.validate` for non-models; the NoParserDefined guard removed; `getattr(cls, "Parser", None)` (NOT TRANSLATED)
      types.py   the `except Exception` clause removed (F27 reverted); the empty-string test removed; Duration instances passed through;
                 `raise RuntimeError` for `raise TypeError` in StringParser
      common     the bool test removed (F20 reverted); `arr = (v.value, unit or "")` (F29 reverted) * (oracle: 59 hits); unitCode before unitText;
                 `or` for `and` in the allowed-units test; `len(arr) == 2`; `infer_unit = "pixel"` for Pixels
    Seeded changes (whole check, all exit 1 with failing inputs from the oracle): C12-s1 (json cache: `json` NOT TRANSLATED), C12-s2 (PyYAML
      fallback: `parse_raw` NOT TRANSLATED), C12-s3 (override_consts shortcut: NOT TRANSLATED, `consts.keys() <= values.keys()`), C12-s4 and C12-t2
      (other encoder functions: registrations NOT TRANSLATED), C12-t3 (`to_yaml_str(self, indent=2)`: `yaml` NOT TRANSLATED) — in each case
      `translate:C12` and the bridge theorems of the affected file are undischarged (obligations 49–61 of 83–85). C12-t1 changes
      `schema/decorators.py`, which is not translated (81/81 obligations; caught by the oracle only).
    Behaviour-preserving edits — all stay green (K2, K3, K10 also through the whole check: PASS 81/81): renamed locals and parameters, comments
      and docstrings; the two ifs of `_mod_def_dump_args`, the two refusals of `reg_encoder` and ignorable statements of `SchemaMagic.__init__`
      reordered; `a if c else b` <-> if-statement (Duration.Parser, NumValue.Parser); `isinstance(v, (A, B))` <-> `isinstance(v, A) or
      isinstance(v, B)`; `not (a or b)` for `not a and not b`; inlined / extra locals (`return tcls(v)`, `text = self.json(**kwargs)`, `consts =
      cls.__constants__`, `kwargs = _mod_def_dump_args(kwargs)`, try result in a local); walrus unrolled into assignment + test, also with
      `is None`; `except (ValueError, TypeError)` split into two clauses; `schema.update(x)` for `schema.update(**x)`; the str / dict blocks of
      `NumValue.Parser.parse` swapped and chained by `elif`; `get_parser` with early `return None`; StringParser as if / elif / else;
      `if enc is None: raise e else: return enc(obj)`.
    Known to break the tie although harmless: any construct outside the dictionary (a helper function, comprehension instead of the loops,
      `dict | dict`, `match`, a message built by a call other than type / str / repr, `assert` elsewhere, other spellings of the same library
      call such as `isodate.isoduration.parse_duration`) -> `TranslateError`; a different but equivalent exception class for a refusal
      (e.g. `ValueError` for `TypeError` where pydantic treats both alike) changes the generated term and the exact-equality bridge.
"""
import ast
import copy
import os

from . import envshim  # noqa: F401
from .translate import TranslateError

BASE = "src/metador_core/schema/base.py"
CORE = "src/metador_core/schema/core.py"
ENCODER = "src/metador_core/schema/encoder.py"
PARSER = "src/metador_core/schema/parser.py"
TYPES = "src/metador_core/schema/types.py"
COMMON = "src/metador_core/schema/common/__init__.py"
PLUGMETA = "src/metador_core/plugin/metaclass.py"

HEADER = """import MetadorModel.Py.CodecPy
/-! GENERATED on every run by harness/translate_c12.py from
    src/metador_core/schema/{base,core,encoder,parser,types}.py and schema/common/__init__.py.
    Do not edit. Value dictionary: Py/CodecPy.lean, data types: Model/Codec.lean, Model/CodecParsers.lean. -/
set_option linter.unusedVariables false
namespace MetadorModel.Gen.CodecFns
open MetadorModel.Codec MetadorModel.CodecParsers MetadorModel.CodecPy
"""
FOOTER = "\nend MetadorModel.Gen.CodecFns\n"

# translator type -> Lean type
LEAN_TY = {
    "obj": "Obj", "bool": "Bool", "nat": "Nat", "dict": "Dict", "str": "Str", "json": "Json", "pyval": "PyVal",
    "ty": "Ty", "tcls": "TCls", "strlist": "List Str", "optstr": "Option Str", "registry": "Registry",
    "clsdesc": "ClsDesc", "encfn": "EncFn", "encleaf": "EncLeaf", "optenc": "Option EncFn", "pcls": "PCls",
    "parsercls": "ParserCls", "optparser": "Option ParserCls", "pfunc": "PFunc", "optpfunc": "Option PFunc",
    "schemacls": "SchemaCls", "optschemacls": "Option SchemaCls", "clsst": "ClsSt", "clsstlist": "List ClsSt",
    "numcfg": "NumCfg", "validator": "Validator", "validators": "List Validator", "unit": "Unit",
}
OPT_OF = {"optenc": "encfn", "optparser": "parsercls", "optpfunc": "pfunc", "optschemacls": "schemacls", "optstr": "str"}
OPT_FOR = {v: k for k, v in OPT_OF.items()}
EXC = {"ValueError": "valueError", "TypeError": "typeError", "RuntimeError": "runtimeError",
       "ValidationError": "validationError", "AttributeError": "attributeError", "KeyError": "keyError",
       "IndexError": "indexError"}
EXC_NAMES = {"ValidationError", "ValueError", "TypeError", "RuntimeError", "AttributeError", "KeyError", "IndexError", "Exception"}
RESERVED = {"at", "from", "fun", "end", "do", "then", "else", "if", "let", "have", "show", "match", "with", "in", "open",
            "def", "theorem", "by", "where", "instance", "structure", "class", "namespace", "section", "import", "return",
            "for", "mut", "try", "catch", "finally", "unless", "type", "L", "reg", "leaf", "ex", "super_init", "ys", "M",
            "some", "none", "true", "false", "pure", "fun", "e"}


def _d(e):
    try:
        return ast.unparse(e).replace("\n", " ")[:90]
    except Exception:  # noqa: BLE001
        return ast.dump(e)[:90]


def _bad(what, node=None):
    where = " (line %d)" % node.lineno if node is not None and hasattr(node, "lineno") else ""
    raise TranslateError(what + where)


def chars(s):
    """Python str constant -> Lean `Str` (List Char) literal"""
    out = []
    for c in s:
        if c == "\n":
            out.append("'\\n'")
        elif c == "'":
            out.append("'\\''")
        elif c == "\\":
            out.append("'\\\\'")
        elif 32 <= ord(c) < 127:
            out.append("'%s'" % c)
        else:
            _bad("string constant %r outside printable ASCII" % s)
    return "([%s] : Str)" % ", ".join(out)


def lean_string(s):
    if not all(32 <= ord(c) < 127 and c not in '"\\' for c in s):
        _bad("string constant %r outside the printable ASCII subset" % s)
    return '"%s"' % s


def lname(py):
    return py + "_" if py in RESERVED else py


def _src(rel):
    path = os.path.join(envshim.REPO, rel)
    try:
        return ast.parse(open(path).read(), filename=path)
    except (OSError, SyntaxError) as e:
        raise TranslateError("cannot parse %s: %s" % (rel, e))


def strip_doc(body):
    """drop docstrings and other bare string statements"""
    return [s for s in body if not (isinstance(s, ast.Expr) and isinstance(s.value, ast.Constant) and isinstance(s.value.value, str))]


def find_path(tree, path):
    """('A', 'B', 'f') -> the FunctionDef f inside class B inside class A (module level first)"""
    node = tree
    for i, nm in enumerate(path):
        want_fn = i == len(path) - 1
        hits = [n for n in node.body if isinstance(n, (ast.ClassDef, ast.FunctionDef, ast.AsyncFunctionDef)) and n.name == nm]
        if len(hits) != 1:
            _bad("%d definitions of %s" % (len(hits), ".".join(path[: i + 1])))
        node = hits[0]
        if isinstance(node, ast.AsyncFunctionDef):
            _bad("%s is async" % nm)
    return node


def find_cls(tree, path):
    node = tree
    for i, nm in enumerate(path):
        hits = [n for n in node.body if isinstance(n, ast.ClassDef) and n.name == nm]
        if len(hits) != 1:
            _bad("%d definitions of class %s" % (len(hits), ".".join(path[: i + 1])))
        node = hits[0]
    return node


# ============================================================================= IR of terms of type `M τ`
class Ok:
    def __init__(self, val):
        self.val = val


class Err:
    def __init__(self, e):
        self.e = e


class Raw:
    """an expression of type M τ (a call)"""

    def __init__(self, text):
        self.text = text


class Let:
    def __init__(self, pat, expr, body):
        self.pat, self.expr, self.body = pat, expr, body


class BindN:
    def __init__(self, pat, ty, m, body):
        self.pat, self.ty, self.m, self.body = pat, ty, m, body


class IfT:
    def __init__(self, c, a, b):
        self.c, self.a, self.b = c, a, b


class MatchOpt:
    def __init__(self, scrut, var, some_body, none_body):
        self.scrut, self.var, self.some_body, self.none_body = scrut, var, some_body, none_body


class TryT:
    """match body with | .ok r => .ok r | .error ex => handlers…"""

    def __init__(self, body, ty, errvar, handler):
        self.body, self.ty, self.errvar, self.handler = body, ty, errvar, handler


class Hole:
    def __init__(self, env):
        self.env = env
        self.fill = None


def as_pure(t):
    """the value of a term that cannot raise, as a Lean expression (None if it can)"""
    if isinstance(t, Ok):
        return t.val
    if isinstance(t, Let):
        b = as_pure(t.body)
        if b is None or "\n" in b or "\n" in t.expr:
            return None
        if b == t.pat:
            return t.expr
        return "(let %s := %s; %s)" % (t.pat, t.expr, b)
    if isinstance(t, IfT):
        a, b = as_pure(t.a), as_pure(t.b)
        if a is None or b is None:
            return None
        return "(if %s then %s else %s)" % (t.c, a, b)
    return None


def Bind(pat, ty, m, body):
    if isinstance(m, Err):
        return m
    if isinstance(m, Let):
        return Let(m.pat, m.expr, Bind(pat, ty, m.body, body))
    v = as_pure(m)
    if v is not None:
        return Let(pat, v, body)
    if isinstance(body, Ok) and body.val == pat:
        return m
    return BindN(pat, ty, m, body)


def fill_holes(t):
    if isinstance(t, Hole):
        return fill_holes(t.fill)
    if isinstance(t, Let):
        return Let(t.pat, t.expr, fill_holes(t.body))
    if isinstance(t, BindN):
        return Bind(t.pat, t.ty, fill_holes(t.m), fill_holes(t.body))
    if isinstance(t, IfT):
        return IfT(t.c, fill_holes(t.a), fill_holes(t.b))
    if isinstance(t, MatchOpt):
        return MatchOpt(t.scrut, t.var, fill_holes(t.some_body), fill_holes(t.none_body))
    if isinstance(t, TryT):
        return TryT(fill_holes(t.body), t.ty, t.errvar, fill_holes(t.handler))
    return t


def is_pure_ok(t):
    return isinstance(t, Ok)


def render(t, ind):
    p = "  " * ind
    if isinstance(t, Ok):
        return "%sExcept.ok %s" % (p, t.val)
    if isinstance(t, Err):
        return "%sExcept.error %s" % (p, t.e)
    if isinstance(t, Raw):
        return "%s%s" % (p, t.text)
    if isinstance(t, Let):
        return "%slet %s := %s\n%s" % (p, t.pat, t.expr, render(t.body, ind))
    if isinstance(t, BindN):
        return "%smatch (%s : M (%s)) with\n%s| .error ex => Except.error ex\n%s| .ok %s =>\n%s" % (
            p, render(t.m, ind + 2).strip(), t.ty, p, p, t.pat, render(t.body, ind + 1))
    if isinstance(t, IfT):
        return "%sif %s then (\n%s) else (\n%s)" % (p, t.c, render(t.a, ind + 2), render(t.b, ind + 2))
    if isinstance(t, MatchOpt):
        return "%smatch %s with\n%s| some %s => (\n%s)\n%s| none => (\n%s)" % (
            p, t.scrut, p, t.var, render(t.some_body, ind + 2), p, render(t.none_body, ind + 2))
    if isinstance(t, TryT):
        return "%smatch (%s : M (%s)) with\n%s| .ok r => Except.ok r\n%s| .error %s => (\n%s)" % (
            p, render(t.body, ind + 2).strip(), t.ty, p, p, t.errvar, render(t.handler, ind + 2))
    raise TranslateError("internal: unfilled hole / unknown IR node %r" % (t,))


# ============================================================================= pattern dictionary
class Pat:
    """one dictionary entry: Python expression pattern (metavariables `_x`) -> Lean template.
    types: metavariable -> translator type; raises: the Lean template has type `M <ty>`;
    state: the Lean term returns (reg, value) and the registry is re-bound"""

    def __init__(self, src, ty, tpl, types=None, raises=False, state=False):
        self.src, self.ty, self.tpl, self.types, self.raises, self.state = src, ty, tpl, types or {}, raises, state
        self.node = ast.parse(src, mode="eval").body


def is_meta(n):
    """metavariables of patterns: `_` + one letter"""
    return isinstance(n, ast.Name) and len(n.id) == 2 and n.id[0] == "_" and n.id[1].isalpha()


def match(p, n, b):
    """structural match of pattern AST p against AST n; metavariables bind sub-expressions"""
    if is_meta(p):
        if p.id in b:
            return ast.dump(b[p.id]) == ast.dump(n)
        b[p.id] = n
        return True
    if type(p) is not type(n):
        return False
    if isinstance(p, ast.Call):
        if not match(p.func, n.func, b) or len(p.args) != len(n.args) or len(p.keywords) != len(n.keywords):
            return False
        if not all(match(x, y, b) for x, y in zip(p.args, n.args)):
            return False
        pk = {k.arg: k.value for k in p.keywords}
        nk = {k.arg: k.value for k in n.keywords}
        if set(pk) != set(nk) or len(pk) != len(p.keywords) or len(nk) != len(n.keywords):
            return False
        return all(match(pk[k], nk[k], b) for k in pk)
    for f in p._fields:
        if f in ("ctx", "kind", "type_comment"):
            continue
        x, y = getattr(p, f, None), getattr(n, f, None)
        if isinstance(x, list):
            if not isinstance(y, list) or len(x) != len(y):
                return False
            for u, v in zip(x, y):
                if isinstance(u, ast.AST):
                    if not isinstance(v, ast.AST) or not match(u, v, b):
                        return False
                elif u != v:
                    return False
        elif isinstance(x, ast.AST):
            if not isinstance(y, ast.AST) or not match(x, y, b):
                return False
        elif x != y:
            return False
    return True


class Var:
    def __init__(self, lean, ty, maybe=False):
        self.lean, self.ty, self.maybe = lean, ty, maybe


class Rename(ast.NodeTransformer):
    def __init__(self, m):
        self.m = m

    def visit_Name(self, n):
        if n.id in self.m:
            return ast.copy_location(ast.Name(id=self.m[n.id], ctx=n.ctx), n)
        return n

    def visit_arg(self, n):
        if n.arg in self.m:
            n.arg = self.m[n.arg]
        return n


class StorePat:
    """assignment / call statement that updates a (Python-mutable) object: re-binds `pyvar`"""

    def __init__(self, src, pyvar, tpl, types=None, raises=False):
        self.src, self.pyvar, self.tpl, self.types, self.raises = src, pyvar, tpl, types or {}, raises
        self.node = ast.parse(src, mode="exec").body[0]


def terminates(stmts):
    stmts = strip_doc(stmts)
    if not stmts:
        return False
    s = stmts[-1]
    if isinstance(s, (ast.Return, ast.Raise)):
        return True
    if isinstance(s, ast.If):
        return bool(s.orelse) and terminates(s.body) and terminates(s.orelse)
    if isinstance(s, ast.Try):
        return not s.finalbody and not s.orelse and terminates(s.body) and all(terminates(h.body) for h in s.handlers)
    return False


def has_exit(stmts):
    for s in stmts:
        stack = [s]
        while stack:
            n = stack.pop()
            if isinstance(n, (ast.Return, ast.Raise)):
                return True
            if isinstance(n, (ast.FunctionDef, ast.Lambda, ast.ClassDef)):
                continue
            stack.extend(ast.iter_child_nodes(n))
    return False


SPECIAL_LEAN = {"$reg": "reg", "$ys": "ys"}


class Fn:
    """translator of one function body.
    params: [(python canonical name, type)] — the actual parameter names are renamed to the canonical ones
    result: translator type of the returned value (None: the function returns nothing that is used)
    ret_state: env names returned along with (before) the value"""

    def __init__(self, name, pats, result, ret_state=(), stores=(), ignore_attrs=(), allow_assert=False,
                 nested=None, consts=None):
        self.name, self.pats, self.result, self.ret_state = name, list(pats), result, list(ret_state)
        self.stores, self.ignore_attrs, self.allow_assert = list(stores), set(ignore_attrs), allow_assert
        self.nested = nested or {}
        self.consts = consts or {}
        self.n = 0
        self.nex = 0
        self.pending = []
        self.cur_exc = None

    # ------------------------------------------------------------------ helpers
    def tmp(self):
        self.n += 1
        return "t%d" % self.n

    def take(self):
        p, self.pending = self.pending, []
        return p

    @staticmethod
    def wrap(pend, body):
        for pat, ty, m in reversed(pend):
            body = Bind(pat, ty, m, body)
        return body

    def result_lean(self):
        parts = [LEAN_TY[self._state_ty(n)] for n in self.ret_state]
        if self.result is not None:
            parts.append(LEAN_TY[self.result])
        if not parts:
            return "Unit"
        return parts[0] if len(parts) == 1 else "(" + " × ".join(parts) + ")"

    def _state_ty(self, n):
        return self.state_types[n]

    def ret(self, text, ty, env, node):
        parts = []
        for n in self.ret_state:
            v = env.get(n)
            if v is None or v.maybe:
                _bad("%s: returned state `%s` is not bound" % (self.name, n), node)
            parts.append(v.lean)
        if self.result is not None:
            parts.append(self.coerce(text, ty, self.result, node))
        elif ty not in ("none",):
            _bad("%s: returns a value (`%s`) where none is expected" % (self.name, _d(node) if node is not None else text), node)
        if not parts:
            return Ok("()")
        return Ok(parts[0] if len(parts) == 1 else "(" + ", ".join(parts) + ")")

    def coerce(self, text, ty, want, node):
        if ty == want:
            return text
        if ty == "none":
            if want == "obj":
                return "(Obj.json Json.null)"
            if want == "json":
                return "Json.null"
            if want in OPT_OF:
                return "none"
        if ty in OPT_FOR and OPT_FOR[ty] == want:
            return "(some %s)" % text
        if ty == "optstr" and want == "obj":
            return "(objOfOptStr %s)" % text
        if ty == "str" and want == "obj":
            return "(Obj.json (Json.str %s))" % text
        if ty == "str" and want == "json":
            return "(Json.str %s)" % text
        if ty == "bool" and want == "json":
            return "(Json.bool %s)" % text
        if ty == "bool" and want == "obj":
            return "(Obj.json (Json.bool %s))" % text
        if ty == "int" and want == "json":
            return "(Json.int %s)" % text
        if ty == "int" and want == "nat" and not text.startswith("-"):
            return text
        if ty == "dict" and want == "json":
            return "(Json.obj %s)" % text
        if ty == "emptydict" and want == "dict":
            return "([] : Dict)"
        if ty == "emptydict" and want == "json":
            return "(Json.obj [])"
        if ty == "json" and want == "obj":
            return "(Obj.json %s)" % text
        if ty == "pfunc" and want == "validator":
            return "(Validator.ofPFunc %s)" % text
        _bad("%s: a %s is used where a %s is expected: `%s`" % (self.name, ty, want, _d(node) if node is not None else text), node)

    def truth(self, text, ty, node):
        if ty == "bool":
            return text
        if ty == "obj":
            return "(Obj.truthy L %s)" % text
        if ty == "json":
            return "(truthyJ %s)" % text
        if ty in ("dict", "strlist", "str"):
            return "(!(%s).isEmpty)" % text
        if ty == "emptydict" or ty == "none":
            return "false"
        if ty == "nat":
            return "(%s != 0)" % text
        if ty in OPT_OF:
            return "(%s).isSome" % text
        if ty in ("parsercls", "pfunc", "schemacls", "encfn", "encleaf", "pcls"):
            return "true"   # classes and functions are truthy
        _bad("%s: truth value of a %s: `%s`" % (self.name, ty, _d(node)), node)

    def cond(self, e, env):
        """truth value of an expression in a boolean context (`if`, `not`, operands of and / or there)"""
        if isinstance(e, ast.UnaryOp) and isinstance(e.op, ast.Not):
            return "(!%s)" % self.cond(e.operand, env)
        if isinstance(e, ast.BoolOp):
            is_or = isinstance(e.op, ast.Or)
            c0 = self.cond(e.values[0], env)
            rest = e.values[1] if len(e.values) == 2 else ast.BoolOp(op=e.op, values=e.values[1:])
            saved, self.pending = self.pending, []
            try:
                cr = self.cond(rest, env)
                mine = self.pending
            finally:
                self.pending = saved
            if not mine:
                return ("(%s || %s)" if is_or else "(%s && %s)") % (c0, cr)
            ir = self.wrap(mine, Ok(cr))
            t = self.tmp()
            self.pending.append((t, "Bool", IfT(c0, Ok("true"), ir) if is_or else IfT(c0, ir, Ok("false"))))
            return t
        t, ty = self.expr(e, env)
        return self.truth(t, ty, e)

    def mexpr(self, e, env):
        """evaluate in a scope of its own -> (IR of type M ty, ty, text if pure)"""
        saved, self.pending = self.pending, []
        try:
            t, ty = self.expr(e, env)
            mine = self.pending
        finally:
            self.pending = saved
        return self.wrap(mine, Ok(t)), ty, (t if not mine else None)

    # ------------------------------------------------------------------ expressions
    def try_pats(self, e, env):
        for p in self.pats:
            b = {}
            if not match(p.node, e, b):
                continue
            k = len(self.pending)
            n0 = self.n
            try:
                vals = {}
                for mv, node in b.items():
                    want = p.types.get(mv)
                    if want is None:
                        _bad("internal: pattern `%s` has no type for %s" % (p.src, mv))
                    t, ty = self.expr(node, env)
                    vals[mv] = self.coerce(t, ty, want, node)
            except TranslateError:
                del self.pending[k:]
                self.n = n0
                continue
            text = p.tpl.format(**vals)
            if p.state:
                t = self.tmp()
                self.pending.append(("(reg, %s)" % t, "(Registry × %s)" % LEAN_TY[p.ty], Raw(text)))
                return t, p.ty
            if p.raises:
                t = self.tmp()
                self.pending.append((t, LEAN_TY[p.ty], Raw(text)))
                return t, p.ty
            return text, p.ty
        return None

    def expr(self, e, env):
        r = self.try_pats(e, env)
        if r is not None:
            return r
        if isinstance(e, ast.Name):
            if e.id in self.consts:
                return self.consts[e.id]
            v = env.get(e.id)
            if v is None:
                _bad("%s: unknown name `%s`" % (self.name, e.id), e)
            if v.ty == "msg":
                _bad("%s: message text `%s` used as a value" % (self.name, e.id), e)
            if v.maybe:
                t = self.tmp()
                self.pending.append((t, LEAN_TY[v.ty], Raw("getBound %s" % v.lean)))
                return t, v.ty
            return v.lean, v.ty
        if isinstance(e, ast.Constant):
            if e.value is None:
                return "none", "none"
            if e.value is True:
                return "true", "bool"
            if e.value is False:
                return "false", "bool"
            if isinstance(e.value, str):
                return chars(e.value), "str"
            if isinstance(e.value, int):
                return ("(%d)" % e.value if e.value < 0 else "%d" % e.value), "int"
            _bad("%s: constant %r" % (self.name, e.value), e)
        if isinstance(e, ast.Dict) and not e.keys:
            return "[]", "emptydict"
        if isinstance(e, ast.Tuple):
            parts = []
            for x in e.elts:
                t, ty = self.expr(x, env)
                parts.append(self.coerce(t, ty, "obj", x))
            return "(Obj.tuple [%s])" % ", ".join(parts), "obj"
        if isinstance(e, ast.UnaryOp) and isinstance(e.op, ast.Not):
            return self.cond(e, env), "bool"
        if isinstance(e, ast.BoolOp):
            return self.boolop(e.values, isinstance(e.op, ast.Or), env, e)
        if isinstance(e, ast.Compare):
            return self.compare(e, env)
        if isinstance(e, ast.IfExp):
            c = self.cond(e.test, env)
            (ia, ya, ta), (ib, yb, tb) = self.mexpr(e.body, env), self.mexpr(e.orelse, env)
            if ta is not None and tb is not None:
                ta, tb, ty = self.unify((ta, ya), (tb, yb), e)
                return "(if %s then %s else %s)" % (c, ta, tb), ty
            ty = self.unify_ir(ya, yb, e)
            ia, ib = self.coerce_ir(ia, ya, ty, e), self.coerce_ir(ib, yb, ty, e)
            t = self.tmp()
            self.pending.append((t, LEAN_TY[ty], IfT(c, ia, ib)))
            return t, ty
        if isinstance(e, ast.BinOp) and isinstance(e.op, ast.Add):
            (a, ya), (b, yb) = self.expr(e.left, env), self.expr(e.right, env)
            if ya == "str" and yb == "str":
                return "(%s ++ %s)" % (a, b), "str"
            _bad("%s: `+` on %s and %s: `%s`" % (self.name, ya, yb, _d(e)), e)
        if isinstance(e, ast.Subscript) and isinstance(e.slice, ast.Constant) and isinstance(e.slice.value, int) and e.slice.value >= 0:
            t, ty = self.expr(e.value, env)
            if ty == "obj":
                r = self.tmp()
                self.pending.append((r, "Obj", Raw("pyIndex %s %d" % (t, e.slice.value))))
                return r, "obj"
            _bad("%s: subscript of a %s: `%s`" % (self.name, ty, _d(e)), e)
        if isinstance(e, ast.Call) and isinstance(e.func, ast.Name) and e.func.id == "isinstance" and len(e.args) == 2 and not e.keywords:
            return self.isinstance(e, env)
        if isinstance(e, ast.Call) and isinstance(e.func, ast.Name) and e.func.id == "len" and len(e.args) == 1 and not e.keywords:
            t, ty = self.expr(e.args[0], env)
            if ty == "obj":
                r = self.tmp()
                self.pending.append((r, "Nat", Raw("pyLen %s" % t)))
                return r, "nat"
            if ty in ("dict", "strlist", "str"):
                return "(%s).length" % t, "nat"
            _bad("%s: len of a %s" % (self.name, ty), e)
        _bad("%s: `%s` is not in the dictionary" % (self.name, _d(e)), e)

    def unify(self, a, b, node):
        (ta, ya), (tb, yb) = a, b
        ty = self.unify_ir(ya, yb, node)
        return self.coerce(ta, ya, ty, node), self.coerce(tb, yb, ty, node), ty

    def unify_ir(self, ya, yb, node):
        if ya == yb:
            return ya
        for x, y in ((ya, yb), (yb, ya)):
            if x in OPT_OF and OPT_OF[x] == y:
                return x
            if x == "none" and y in OPT_OF:
                return y
            if x == "none" and y in OPT_FOR:
                return OPT_FOR[y]
            if x == "obj" and y in ("none", "optstr", "str", "json", "bool"):
                return "obj"
            if x == "json" and y in ("none", "str", "bool", "int", "dict", "emptydict"):
                return "json"
            if x == "dict" and y == "emptydict":
                return "dict"
        _bad("%s: operands of different kinds (%s, %s): `%s`" % (self.name, ya, yb, _d(node)), node)

    def coerce_ir(self, ir, ty, want, node):
        if ty == want:
            return ir
        if isinstance(ir, Ok):
            return Ok(self.coerce(ir.val, ty, want, node))
        if isinstance(ir, Let):
            return Let(ir.pat, ir.expr, self.coerce_ir(ir.body, ty, want, node))
        if isinstance(ir, BindN):
            return BindN(ir.pat, ir.ty, ir.m, self.coerce_ir(ir.body, ty, want, node))
        if isinstance(ir, IfT):
            return IfT(ir.c, self.coerce_ir(ir.a, ty, want, node), self.coerce_ir(ir.b, ty, want, node))
        if isinstance(ir, Err):
            return ir
        _bad("%s: cannot convert a conditional %s into a %s: `%s`" % (self.name, ty, want, _d(node)), node)

    def boolop(self, values, is_or, env, node):
        t0, y0 = self.expr(values[0], env)
        if len(values) == 1:
            return t0, y0
        rest = values[1] if len(values) == 2 else ast.BoolOp(op=ast.Or() if is_or else ast.And(), values=values[1:])
        saved, self.pending = self.pending, []
        try:
            if len(values) == 2:
                tr, yr = self.expr(rest, env)
            else:
                tr, yr = self.boolop(values[1:], is_or, env, node)
            mine = self.pending
        finally:
            self.pending = saved
        if y0 in OPT_OF and yr == OPT_OF[y0] and is_or and y0 != "optstr":
            if mine:
                _bad("%s: raising operand after an optional class in `or`: `%s`" % (self.name, _d(node)), node)
            return "(optOr %s %s)" % (t0, tr), yr
        ty = self.unify_ir(y0, yr, node)
        c = self.truth(t0, y0, values[0])
        a0 = self.coerce(t0, y0, ty, node)
        if not mine:
            ar = self.coerce(tr, yr, ty, node)
            if ty == "bool":
                return ("(%s || %s)" if is_or else "(%s && %s)") % (a0, ar), "bool"
            return ("(if %s then %s else %s)" % ((c, a0, ar) if is_or else (c, ar, a0))), ty
        ir = self.wrap(mine, Ok(self.coerce(tr, yr, ty, node)))
        t = self.tmp()
        self.pending.append((t, LEAN_TY[ty], IfT(c, Ok(a0), ir) if is_or else IfT(c, ir, Ok(a0))))
        return t, ty

    def isinstance(self, e, env):
        x, c = e.args
        if isinstance(c, ast.Tuple):
            if not c.elts:
                return "false", "bool"
            parts = []
            for elt in c.elts:
                call = ast.copy_location(ast.Call(func=e.func, args=[x, elt], keywords=[]), e)
                parts.append(self.expr(call, env)[0])
            return "(" + " || ".join(parts) + ")", "bool"
        t, ty = self.expr(x, env)
        if ty != "obj":
            _bad("%s: isinstance of a %s: `%s`" % (self.name, ty, _d(e)), e)
        if isinstance(c, ast.Name) and c.id in ("str", "bool", "int", "float", "dict"):
            return "(%s %s)" % ({"str": "isStr", "bool": "isBool", "int": "isInt", "float": "isFloat", "dict": "isDict"}[c.id], t), "bool"
        _bad("%s: class `%s` of an isinstance test is not in the dictionary" % (self.name, _d(c)), e)

    def compare(self, e, env):
        if len(e.ops) != 1:
            _bad("%s: chained comparison `%s`" % (self.name, _d(e)), e)
        op, l, r = e.ops[0], e.left, e.comparators[0]
        neg = {ast.IsNot: ast.Is, ast.NotIn: ast.In, ast.NotEq: ast.Eq}.get(type(op))
        if neg is not None:
            pos = ast.copy_location(ast.Compare(left=l, ops=[neg()], comparators=[r]), e)
            t, ty = self.expr(pos, env)
            return "(!%s)" % t, "bool"
        if isinstance(op, ast.Is):
            if isinstance(r, ast.Constant) and r.value is None:
                t, ty = self.expr(l, env) if not (isinstance(l, ast.Name) and env.get(l.id) is not None and env[l.id].maybe) else (None, None)
                if t is None:
                    _bad("%s: `%s` on a name that may be unbound" % (self.name, _d(e)), e)
                if ty == "obj":
                    return "(isNone %s)" % t, "bool"
                if ty in OPT_OF:
                    return "(%s).isNone" % t, "bool"
                if ty == "tcls":
                    return "(%s == TCls.none)" % t, "bool"
                if ty == "none":
                    return "true", "bool"
                if ty in ("parsercls", "pfunc", "schemacls", "dict", "str", "bool", "nat"):
                    return "false", "bool"
                _bad("%s: `is None` on a %s" % (self.name, ty), e)
            _bad("%s: identity test `%s` is not in the dictionary" % (self.name, _d(e)), e)
        if isinstance(op, ast.Eq):
            (a, ya), (b, yb) = self.expr(l, env), self.expr(r, env)
            if ya == "nat" and yb == "int":
                return "(%s == %s)" % (a, b), "bool"
            if ya == "int" and yb == "nat":
                return "(%s == %s)" % (a, b), "bool"
            if ya == "str" and yb == "str":
                return "(%s == %s)" % (a, b), "bool"
            _bad("%s: `==` on %s and %s: `%s`" % (self.name, ya, yb, _d(e)), e)
        if isinstance(op, ast.In):
            (a, ya), (b, yb) = self.expr(l, env), self.expr(r, env)
            if ya == "str" and yb == "dict":
                return "(hasKey %s %s)" % (a, b), "bool"
            if ya == "obj" and yb == "strlist":
                return "(Obj.inStrs %s %s)" % (a, b), "bool"
            if ya == "str" and yb == "strlist":
                return "((%s).contains %s)" % (b, a), "bool"
            _bad("%s: `in` on %s and %s: `%s`" % (self.name, ya, yb, _d(e)), e)
        _bad("%s: comparison `%s`" % (self.name, _d(e)), e)

    # ------------------------------------------------------------------ statements
    MSG_OK = (ast.Constant, ast.JoinedStr, ast.FormattedValue, ast.Name, ast.Attribute, ast.Load, ast.BinOp, ast.Add, ast.Mod, ast.Subscript)

    def check_msg(self, e, env):
        """an expression that only builds an exception message: no effects, cannot raise (we assume
        `__name__`, `type(x)`, `str(x)`, `repr(x)` of the objects at hand do not)"""
        for n in ast.walk(e):
            if isinstance(n, ast.Call):
                if not (isinstance(n.func, ast.Name) and n.func.id in ("type", "str", "repr") and len(n.args) == 1 and not n.keywords):
                    _bad("%s: call `%s` inside an exception message" % (self.name, _d(n)), n)
            elif isinstance(n, ast.Name):
                if n.id not in env and n.id not in ("type", "str", "repr", "BaseParser") and n.id not in self.consts:
                    _bad("%s: unknown name `%s` inside an exception message" % (self.name, n.id), n)
                if n.id in env and env[n.id].maybe:
                    _bad("%s: possibly unbound `%s` inside an exception message" % (self.name, n.id), n)
            elif not isinstance(n, self.MSG_OK):
                _bad("%s: `%s` inside an exception message" % (self.name, _d(n)), n)

    def bindvar(self, env, name, lean, ty, maybe=False):
        env2 = dict(env)
        env2[name] = Var(lean, ty, maybe)
        return env2

    def live_after(self, nm, node):
        """is the name read after the statement `node` (by line number)? state and special names always are"""
        if node is None or nm.startswith("$") or nm in self.ret_state:
            return True
        end = getattr(node, "end_lineno", None)
        if end is None:
            return True
        return any(isinstance(n, ast.Name) and n.id == nm and isinstance(n.ctx, ast.Load) and n.lineno > end for n in ast.walk(self.fn_ast))

    def dead(self, env):
        raise TranslateError("internal: continuation of a block that cannot fall through")

    def block(self, stmts, env, k):
        stmts = strip_doc(stmts)
        if not stmts:
            return k(env)
        s, rest = stmts[0], stmts[1:]

        def cont(env2):
            return self.block(rest, env2, k)

        if isinstance(s, ast.Pass):
            return cont(env)
        if isinstance(s, ast.Return):
            if s.value is None:
                t, ty = "none", "none"
            else:
                t, ty = self.expr(s.value, env)
            pend = self.take()
            return self.wrap(pend, self.ret(t, ty, env, s))
        if isinstance(s, ast.Raise):
            return self.stmt_raise(s, env)
        if isinstance(s, ast.Assert):
            if self.allow_assert:
                return cont(env)
            _bad("%s: assert statement" % self.name, s)
        if isinstance(s, (ast.Assign, ast.AnnAssign)):
            if isinstance(s, ast.Assign):
                if len(s.targets) != 1:
                    _bad("%s: multiple assignment targets" % self.name, s)
                tg = s.targets[0]
            else:
                tg = s.target
                if s.value is None:
                    return cont(env)
            if self.ignorable(s):
                return cont(env)
            if isinstance(tg, ast.Name):
                if isinstance(s.value, ast.JoinedStr):
                    self.check_msg(s.value, env)
                    return cont(self.bindvar(env, tg.id, '""', "msg"))
                t, ty = self.expr(s.value, env)
                pend = self.take()
                if ty in ("none", "emptydict", "int"):
                    _bad("%s: `%s = %s`: the kind of value is not determined" % (self.name, tg.id, _d(s.value)), s)
                ln = lname(tg.id)
                return self.wrap(pend, Let(ln, t, cont(self.bindvar(env, tg.id, ln, ty))))
            return self.store(tg, s.value, env, cont, s)
        if isinstance(s, ast.AugAssign):
            if isinstance(s.target, ast.Name) and s.target.id in env and env[s.target.id].ty == "msg" and isinstance(s.op, ast.Add):
                self.check_msg(s.value, env)
                return cont(env)
            _bad("%s: augmented assignment `%s`" % (self.name, _d(s)), s)
        if isinstance(s, ast.Expr):
            return self.stmt_expr(s, env, cont)
        if isinstance(s, ast.If):
            return self.stmt_if(s, rest, env, k)
        if isinstance(s, ast.Try):
            return self.stmt_try(s, rest, env, k)
        if isinstance(s, ast.For):
            return self.stmt_for(s, env, cont)
        if isinstance(s, ast.FunctionDef) and s.name in self.nested:
            return self.nested[s.name](self, s, env, cont)
        _bad("%s: statement `%s` is not understood" % (self.name, _d(s)), s)

    def ignorable(self, s):
        """`self.<attribute the codec never reads> = <constant | set() | {}>`"""
        tg = s.targets[0] if isinstance(s, ast.Assign) else s.target
        if not (isinstance(tg, ast.Attribute) and isinstance(tg.value, ast.Name) and tg.value.id == "self" and tg.attr in self.ignore_attrs):
            return False
        v = s.value
        if isinstance(v, ast.Constant) or (isinstance(v, ast.Dict) and not v.keys):
            return True
        if isinstance(v, ast.Call) and isinstance(v.func, ast.Name) and v.func.id in ("set", "dict", "list") and not v.args and not v.keywords:
            return True
        return False

    def ignorable_if(self, s):
        """`if "<attr>" [not] in self.__dict__: <ignorable assignments>`"""
        if s.orelse or not self.ignore_attrs:
            return False
        t = s.test
        if not (isinstance(t, ast.Compare) and len(t.ops) == 1 and isinstance(t.ops[0], (ast.In, ast.NotIn)) and isinstance(t.left, ast.Constant)
                and isinstance(t.left.value, str) and ast.unparse(t.comparators[0]) == "self.__dict__"):
            return False
        return all(isinstance(x, (ast.Assign, ast.AnnAssign)) and self.ignorable(x) for x in strip_doc(s.body))

    def stmt_raise(self, s, env):
        if s.cause is not None:
            _bad("%s: raise … from" % self.name, s)
        if s.exc is None:
            if self.cur_exc is None:
                _bad("%s: bare raise outside a handler" % self.name, s)
            return Err(self.cur_exc)
        e = s.exc
        if isinstance(e, ast.Name) and e.id in env and env[e.id].ty == "exc":
            return Err(env[e.id].lean)
        if isinstance(e, ast.Call) and isinstance(e.func, ast.Name) and e.func.id in EXC and not e.keywords:
            for a in e.args:
                self.check_msg(a, env)
            return Err("PyErr.%s" % EXC[e.func.id])
        _bad("%s: `%s` raises something outside the dictionary" % (self.name, _d(s)), s)

    def store(self, tg, value, env, cont, s):
        # dictionary entries first
        fake = ast.Assign(targets=[tg], value=ast.Name(id="_v", ctx=ast.Load()))
        for sp in self.stores:
            if not isinstance(sp.node, ast.Assign):
                continue
            b = {}
            if not match(sp.node.targets[0], tg, b):
                continue
            b["_v"] = value
            r = self.apply_store(sp, b, env, cont, s)
            if r is not None:
                return r
        if isinstance(tg, ast.Subscript) and isinstance(tg.value, ast.Name) and tg.value.id in env and env[tg.value.id].ty == "dict" and not env[tg.value.id].maybe:
            d = env[tg.value.id]
            kt, ky = self.expr(tg.slice, env)
            vt, vy = self.expr(value, env)
            pend = self.take()
            kt = self.coerce(kt, ky, "str", tg)
            vt = self.coerce(vt, vy, "json", value)
            ln = lname(tg.value.id)
            return self.wrap(pend, Let(ln, "(setKey %s %s %s)" % (kt, vt, d.lean), cont(self.bindvar(env, tg.value.id, ln, "dict"))))
        if (isinstance(tg, ast.Subscript) and isinstance(tg.value, ast.Subscript) and isinstance(tg.value.value, ast.Name)
                and tg.value.value.id in env and env[tg.value.value.id].ty == "dict" and not env[tg.value.value.id].maybe):
            nm = tg.value.value.id
            d = env[nm]
            k1, y1 = self.expr(tg.value.slice, env)
            k2, y2 = self.expr(tg.slice, env)
            vt, vy = self.expr(value, env)
            k1, k2, vt = self.coerce(k1, y1, "str", tg), self.coerce(k2, y2, "str", tg), self.coerce(vt, vy, "json", value)
            ln = lname(nm)
            self.pending.append((ln, "Dict", Raw("dictSet2 %s %s %s %s" % (d.lean, k1, k2, vt))))
            pend = self.take()
            return self.wrap(pend, cont(self.bindvar(env, nm, ln, "dict")))
        _bad("%s: assignment target `%s` is not in the dictionary" % (self.name, _d(tg)), s)

    def apply_store(self, sp, b, env, cont, s):
        k, n0 = len(self.pending), self.n
        try:
            vals = {}
            for mv, node in b.items():
                want = sp.types.get(mv)
                if want is None:
                    _bad("internal: store pattern `%s` has no type for %s" % (sp.src, mv))
                t, ty = self.expr(node, env)
                vals[mv] = self.coerce(t, ty, want, node)
        except TranslateError:
            del self.pending[k:]
            self.n = n0
            return None
        old = env.get(sp.pyvar)
        if old is None or old.maybe:
            _bad("%s: `%s` updates `%s`, which is not bound" % (self.name, _d(s), sp.pyvar), s)
        text = sp.tpl.format(**vals)
        ln = old.lean
        if sp.raises:
            self.pending.append((ln, LEAN_TY[old.ty], Raw(text)))
            pend = self.take()
            return self.wrap(pend, cont(self.bindvar(env, sp.pyvar, ln, old.ty)))
        pend = self.take()
        return self.wrap(pend, Let(ln, text, cont(self.bindvar(env, sp.pyvar, ln, old.ty))))

    def stmt_expr(self, s, env, cont):
        v = s.value
        if isinstance(v, ast.Yield):
            if "$ys" not in env:
                _bad("%s: yield" % self.name, s)
            if v.value is None:
                _bad("%s: bare yield" % self.name, s)
            t, ty = self.expr(v.value, env)
            pend = self.take()
            t = self.coerce(t, ty, "validator", v.value)
            return self.wrap(pend, Let("ys", "(%s ++ [%s])" % (env["$ys"].lean, t), cont(self.bindvar(env, "$ys", "ys", "validators"))))
        for sp in self.stores:
            if not isinstance(sp.node, ast.Expr):
                continue
            b = {}
            if match(sp.node.value, v, b):
                r = self.apply_store(sp, b, env, cont, s)
                if r is not None:
                    return r
        # X.update(E) / X.update(**E) on a dict-typed local
        if (isinstance(v, ast.Call) and isinstance(v.func, ast.Attribute) and v.func.attr == "update" and isinstance(v.func.value, ast.Name)
                and v.func.value.id in env and env[v.func.value.id].ty == "dict" and not env[v.func.value.id].maybe):
            arg = None
            if len(v.args) == 1 and not v.keywords and not isinstance(v.args[0], ast.Starred):
                arg = v.args[0]
            elif not v.args and len(v.keywords) == 1 and v.keywords[0].arg is None:
                arg = v.keywords[0].value
            if arg is not None:
                nm = v.func.value.id
                t, ty = self.expr(arg, env)
                pend = self.take()
                t = self.coerce(t, ty, "dict", arg)
                ln = lname(nm)
                return self.wrap(pend, Let(ln, "(dictUpdate %s %s)" % (env[nm].lean, t), cont(self.bindvar(env, nm, ln, "dict"))))
        _bad("%s: statement `%s` is not in the dictionary" % (self.name, _d(s)), s)

    # ------------------------------------------------------------------ if
    def stmt_if(self, s, rest, env, k):
        if self.ignorable_if(s):
            return self.block(rest, env, k)
        test = s.test
        if isinstance(test, ast.NamedExpr):
            return self.if_walrus(s, rest, env, k)
        # narrowing: `if X is None` / `if X is not None` on an optional-typed name
        if (isinstance(test, ast.Compare) and len(test.ops) == 1 and isinstance(test.ops[0], (ast.Is, ast.IsNot)) and isinstance(test.left, ast.Name)
                and isinstance(test.comparators[0], ast.Constant) and test.comparators[0].value is None
                and test.left.id in env and env[test.left.id].ty in OPT_OF and not env[test.left.id].maybe and env[test.left.id].ty != "optstr"):
            v = env[test.left.id]
            some_env = self.bindvar(env, test.left.id, v.lean, OPT_OF[v.ty])
            none_body, some_body = (s.body, s.orelse) if isinstance(test.ops[0], ast.Is) else (s.orelse, s.body)
            return self.branches(lambda a, b: MatchOpt(v.lean, v.lean, a, b), some_body, some_env, none_body, env, rest, k, env, s)
        c = self.cond(test, env)
        pend = self.take()
        return self.wrap(pend, self.branches(lambda a, b: IfT(c, a, b), s.body, env, s.orelse, env, rest, k, env, s))

    def if_walrus(self, s, rest, env, k):
        test = s.test
        if not isinstance(test.target, ast.Name):
            _bad("%s: walrus target" % self.name, s)
        t, ty = self.expr(test.value, env)
        pend = self.take()
        nm, ln = test.target.id, lname(test.target.id)
        if ty in OPT_OF and ty != "optstr":
            # the name is bound to the value in both branches (to None in the else branch)
            some_env = self.bindvar(env, nm, ln, OPT_OF[ty])
            none_env = self.bindvar(env, nm, "(none : %s)" % LEAN_TY[ty], ty)
            return self.wrap(pend, self.branches(lambda a, b: MatchOpt(t, ln, a, b), s.body, some_env, s.orelse, none_env, rest, k, env, s))
        if ty in ("dict", "strlist", "obj", "bool", "json"):
            env2 = self.bindvar(env, nm, ln, ty)
            c = self.truth(ln, ty, test)
            return self.wrap(pend, Let(ln, t, self.branches(lambda a, b: IfT(c, a, b), s.body, env2, s.orelse, env2, rest, k, env2, s)))
        _bad("%s: walrus on a %s: `%s`" % (self.name, ty, _d(test)), s)

    def branches(self, mk, body, env_b, orelse, env_e, rest, k, pre, node=None):
        tb, te = terminates(body), terminates(orelse)
        if tb and te:
            return mk(self.block(body, env_b, self.dead), self.block(orelse, env_e, self.dead))
        if tb:
            return mk(self.block(body, env_b, self.dead), self.block(list(orelse) + list(rest), env_e, k))
        if te:
            return mk(self.block(list(body) + list(rest), env_b, k), self.block(orelse, env_e, self.dead))
        if has_exit(body) or has_exit(orelse):
            return mk(self.block(list(body) + list(rest), env_b, k), self.block(list(orelse) + list(rest), env_e, k))
        # both fall through: join on the assigned names
        holes = []

        def kh(env2):
            h = Hole(env2)
            holes.append(h)
            return h

        ir = mk(self.block(body, env_b, kh), self.block(orelse, env_e, kh))
        names = []
        for h in holes:
            for nm in h.env:
                if nm not in names and any(x.env.get(nm) is not pre.get(nm) for x in holes) and self.live_after(nm, node):
                    names.append(nm)
        joined = {}
        for nm in names:
            vs = [h.env.get(nm) for h in holes]
            tys = {v.ty for v in vs if v is not None}
            ty = None
            for cand in list(tys):
                if all(t == cand or (cand in OPT_OF and OPT_OF[cand] == t) for t in tys):
                    ty = cand
            if ty is None:
                _bad("%s: `%s` has different kinds of value after the branches (%s)" % (self.name, nm, ", ".join(sorted(tys))), body[0] if body else None)
            maybe = any(v is None or v.maybe for v in vs)
            ln = SPECIAL_LEAN.get(nm, lname(nm))
            joined[nm] = (ln, ty, maybe)
        names = [n for n in names if n in joined]
        for h in holes:
            parts = []
            for nm in names:
                ln, ty, maybe = joined[nm]
                v = h.env.get(nm)
                if v is None:
                    parts.append("none")
                elif v.maybe:
                    parts.append(v.lean)
                else:
                    t = self.coerce(v.lean, v.ty, ty, None)
                    parts.append("(some %s)" % t if maybe else t)
            h.fill = Ok("()" if not parts else parts[0] if len(parts) == 1 else "(" + ", ".join(parts) + ")")
        env2 = dict(pre)
        ltys = []
        for nm in names:
            ln, ty, maybe = joined[nm]
            env2[nm] = Var(ln, ty, maybe)
            ltys.append("Option (%s)" % LEAN_TY[ty] if maybe else LEAN_TY[ty])
        pat = "_" if not names else joined[names[0]][0] if len(names) == 1 else "(" + ", ".join(joined[n][0] for n in names) + ")"
        lty = "Unit" if not names else ltys[0] if len(names) == 1 else "(" + " × ".join(ltys) + ")"
        return Bind(pat, lty, fill_holes(ir), self.block(rest, env2, k))

    # ------------------------------------------------------------------ try / for
    def stmt_try(self, s, rest, env, k):
        if s.finalbody or s.orelse:
            _bad("%s: try … else / finally" % self.name, s)
        if not terminates(s.body):
            _bad("%s: the try block does not always return" % self.name, s)
        body = self.block(s.body, env, self.dead)
        self.nex += 1
        ev = "ex%d" % self.nex
        chain = Err(ev)
        built = []
        for h in s.handlers:
            if h.type is None:
                names = ["Exception"]
            elif isinstance(h.type, ast.Name):
                names = [h.type.id]
            elif isinstance(h.type, ast.Tuple) and all(isinstance(x, ast.Name) for x in h.type.elts):
                names = [x.id for x in h.type.elts]
            else:
                _bad("%s: except clause `%s`" % (self.name, _d(h.type)), h)
            names = ["Exception" if n == "BaseException" else n for n in names]
            for n in names:
                if n not in EXC_NAMES:
                    _bad("%s: exception class `%s` is not in the dictionary" % (self.name, n), h)
            env_h = self.bindvar(env, h.name, ev, "exc") if h.name else env
            saved, self.cur_exc = self.cur_exc, ev
            try:
                hb = self.block(list(h.body) + ([] if terminates(h.body) else list(rest)), env_h, self.dead if terminates(h.body) else k)
            finally:
                self.cur_exc = saved
            built.append(("(catches [%s] %s)" % (", ".join("ExcName.%s" % n for n in names), ev), hb))
        for c, hb in reversed(built):
            chain = IfT(c, hb, chain)
        return TryT(body, self.result_lean(), ev, chain)

    def stmt_for(self, s, env, cont):
        if s.orelse:
            _bad("%s: for … else" % self.name, s)
        if has_exit(s.body) or any(isinstance(n, (ast.Break, ast.Continue)) for x in s.body for n in ast.walk(x)):
            _bad("%s: return / raise / break / continue inside a loop" % self.name, s)
        it = s.iter
        if isinstance(it, ast.Call) and isinstance(it.func, ast.Attribute) and it.func.attr == "items" and not it.args and not it.keywords:
            t, ty = self.expr(it.func.value, env)
            if ty != "dict":
                _bad("%s: .items() of a %s" % (self.name, ty), s)
            if not (isinstance(s.target, ast.Tuple) and len(s.target.elts) == 2 and all(isinstance(x, ast.Name) for x in s.target.elts)):
                _bad("%s: loop target `%s`" % (self.name, _d(s.target)), s)
            kn, vn = s.target.elts[0].id, s.target.elts[1].id
            env_l = self.bindvar(self.bindvar(env, kn, lname(kn), "str"), vn, lname(vn), "json")
            loopvars = "%s %s" % (lname(kn), lname(vn))
            fn = "forItems"
        else:
            t, ty = self.expr(it, env)
            if ty != "clsstlist":
                _bad("%s: loop over a %s: `%s`" % (self.name, ty, _d(it)), s)
            if not isinstance(s.target, ast.Name):
                _bad("%s: loop target `%s`" % (self.name, _d(s.target)), s)
            env_l = self.bindvar(env, s.target.id, lname(s.target.id), "clsst")
            loopvars = lname(s.target.id)
            fn = "forEachM"
        pend = self.take()
        holes = []

        def kh(env2):
            h = Hole(env2)
            holes.append(h)
            return h

        ir = self.block(s.body, env_l, kh)
        state = []
        for h in holes:
            for nm, v in h.env.items():
                if nm in env and nm not in state and any(x.env.get(nm) is not env.get(nm) for x in holes):
                    state.append(nm)
        for nm in state:
            if env[nm].maybe or any(h.env[nm].maybe or h.env[nm].ty != env[nm].ty for h in holes):
                _bad("%s: loop state `%s` changes its kind" % (self.name, nm), s)
        if not state:
            _bad("%s: loop without effect on the state" % self.name, s)

        def tup(get):
            parts = [get(nm) for nm in state]
            return parts[0] if len(parts) == 1 else "(" + ", ".join(parts) + ")"

        for h in holes:
            h.fill = Ok(tup(lambda nm, h=h: h.env[nm].lean))
        pat = tup(lambda nm: env[nm].lean)
        lty = tup(lambda nm: LEAN_TY[env[nm].ty]) if len(state) == 1 else "(" + " × ".join(LEAN_TY[env[nm].ty] for nm in state) + ")"
        body = render(fill_holes(ir), 3)
        text = "%s (fun %s %s =>\n%s) %s %s" % (fn, pat, loopvars, body, t, pat)
        env2 = dict(env)
        for nm in state:
            env2[nm] = Var(env[nm].lean, env[nm].ty)
        return self.wrap(pend, Bind(pat, lty, Raw(text), cont(env2)))

    # ------------------------------------------------------------------ whole function
    def translate(self, fn, params, lean_params, state_types=None, skip=0, init_env=None, vararg_ok=False):
        """params: [(canonical name, type)] for the Python parameters after the first `skip` ones"""
        self.state_types = state_types or {}
        a = fn.args
        if a.posonlyargs or a.kwonlyargs:
            _bad("%s: positional-only / keyword-only parameters" % self.name, fn)
        actual = [x.arg for x in a.args][skip:]
        canon = [p for p in params if not p[0].startswith("*")]
        star = [p for p in params if p[0].startswith("**")]
        var = [p for p in params if p[0].startswith("*") and not p[0].startswith("**")]
        if len(actual) != len(canon):
            _bad("%s: %d parameters, expected %d" % (self.name, len(actual), len(canon)), fn)
        if bool(a.kwarg) != bool(star) or bool(a.vararg) != bool(var):
            _bad("%s: *args / **kwargs differ from the table" % self.name, fn)
        ren = {}
        for x, (c, _) in zip(actual, canon):
            if x != c:
                ren[x] = c
        if a.kwarg and a.kwarg.arg != star[0][0][2:]:
            ren[a.kwarg.arg] = star[0][0][2:]
        if a.vararg and a.vararg.arg != var[0][0][1:]:
            ren[a.vararg.arg] = var[0][0][1:]
        targets = set(ren.values())
        for n in ast.walk(fn):
            if isinstance(n, ast.Name) and n.id in targets and n.id not in ren and isinstance(n.ctx, ast.Store):
                _bad("%s: local `%s` collides with a canonical parameter name" % (self.name, n.id), n)
        fn = copy.deepcopy(fn)
        if ren:
            # two-step renaming so that swapped names do not collide
            fn = Rename({k: "$tmp$" + v for k, v in ren.items()}).visit(fn)
            fn = Rename({"$tmp$" + v: v for v in ren.values()}).visit(fn)
        env = dict(init_env or {})
        for c, ty in params:
            nm = c.lstrip("*")
            if ty is not None:
                env[nm] = Var(lname(nm), ty)
        self.fn_env = env
        self.fn_ast = fn
        body = self.block(fn.body, env, lambda env2: self.ret("none", "none", env2, None))
        return "  " + render(fill_holes(body), 1).strip() + "\n"


# ============================================================================= the functions of C12
def decorators(fn):
    return [ast.unparse(d) for d in fn.decorator_list]


def expect_decorators(fn, want, what):
    got = decorators(fn)
    if got != want:
        _bad("%s: decorators %s, expected %s" % (what, got, want), fn)


def rename_outer(fn, canon):
    """rename the parameters of an enclosing function (and their uses in nested functions)"""
    a = fn.args
    if a.vararg or a.kwarg or a.posonlyargs or a.kwonlyargs or a.defaults or len(a.args) != len(canon):
        _bad("%s: parameters differ from the table" % fn.name, fn)
    ren = {x.arg: c for x, c in zip(a.args, canon) if x.arg != c}
    fn = copy.deepcopy(fn)
    if ren:
        fn = Rename({k: "$tmp$" + v for k, v in ren.items()}).visit(fn)
        fn = Rename({"$tmp$" + v: v for v in ren.values()}).visit(fn)
    return fn


def closure_shape(fn, inner_name=None):
    """`def outer(..): [doc]; def inner(..): …; return inner` -> inner"""
    body = strip_doc(fn.body)
    if not (len(body) == 2 and isinstance(body[0], ast.FunctionDef) and isinstance(body[1], ast.Return)
            and isinstance(body[1].value, ast.Name) and body[1].value.id == body[0].name and not body[0].decorator_list):
        _bad("%s: expected a nested function that is returned" % fn.name, fn)
    return body[0]


def c3(name, bases_of):
    def merge(seqs):
        res = []
        seqs = [list(s) for s in seqs if s]
        while seqs:
            for s in seqs:
                h = s[0]
                if not any(h in t[1:] for t in seqs):
                    break
            else:
                raise TranslateError("inconsistent MRO for %s" % name)
            res.append(h)
            seqs = [[x for x in t if x != h] for t in seqs]
            seqs = [t for t in seqs if t]
        return res
    if name not in bases_of:
        raise TranslateError("metaclass `%s` is not in the dictionary" % name)
    bs = bases_of[name]
    return [name] + merge([c3(b, bases_of) for b in bs] + [list(bs)])


ISINST_TCLS = Pat("isinstance(_v, tcls)", "bool", "(Obj.isInst tcls {_v})", {"_v": "obj"})
ISINST_TARGET = Pat("isinstance(_v, target)", "bool", "(Obj.isInst target {_v})", {"_v": "obj"})
GET_PARSER = Pat("get_parser(_c)", "optparser", "get_parser {_c}", {"_c": "pcls"}, raises=True)
NONMODEL_BASES = {"ParserMixin", "isodate.Duration", "Unit", "Quantity"}
OPQ_OF_CLASS = {"Duration": "Opq.dur", "PintUnit": "Opq.unit", "PintQuantity": "Opq.qty"}
META_EXTERNAL = {"ModelMetaclass": ["ABCMeta"], "ABCMeta": ["type"], "type": []}


def json_const(v, what):
    """constant expression -> Lean `Json`"""
    if isinstance(v, ast.Constant):
        if v.value is True:
            return "Json.bool true"
        if v.value is False:
            return "Json.bool false"
        if v.value is None:
            return "Json.null"
        if isinstance(v.value, int):
            return "Json.int %s" % ("(%d)" % v.value if v.value < 0 else v.value)
        if isinstance(v.value, str):
            return "Json.str %s" % chars(v.value)
    if isinstance(v, ast.List):
        return "Json.arr [%s]" % ", ".join(json_const(x, what) for x in v.elts)
    if isinstance(v, ast.Attribute) and isinstance(v.value, ast.Name) and v.value.id == "Extra" and v.attr in ("allow", "ignore", "forbid"):
        return "Json.str %s" % chars(v.attr)
    _bad("%s: `%s` is not a constant of the dictionary" % (what, _d(v)), v)


def dict_const(v, what):
    """`{}` / `dict(k=const, …)` / `{"k": const}` -> Lean `Dict`"""
    if isinstance(v, ast.Dict):
        if not all(isinstance(k, ast.Constant) and isinstance(k.value, str) for k in v.keys):
            _bad("%s: dict display with non-constant keys" % what, v)
        items = [(k.value, x) for k, x in zip(v.keys, v.values)]
    elif isinstance(v, ast.Call) and isinstance(v.func, ast.Name) and v.func.id == "dict" and not v.args and all(k.arg for k in v.keywords):
        items = [(k.arg, k.value) for k in v.keywords]
    else:
        _bad("%s: `%s` is not a constant dict" % (what, _d(v)), v)
    seen = {}
    for k, x in items:
        seen[k] = x   # later duplicates win, position of the first
    return "[%s]" % ", ".join("(%s, %s)" % (chars(k), json_const(x, what)) for k, x in seen.items())


def class_attrs(cls):
    """class-level `name = value` / `name: T = value` -> {name: value node}; methods -> {name: def}"""
    attrs, defs = {}, {}
    for s in strip_doc(cls.body):
        if isinstance(s, ast.Assign) and len(s.targets) == 1 and isinstance(s.targets[0], ast.Name):
            attrs[s.targets[0].id] = s.value
        elif isinstance(s, ast.AnnAssign) and isinstance(s.target, ast.Name):
            if s.value is not None:
                attrs[s.target.id] = s.value
        elif isinstance(s, ast.FunctionDef):
            defs[s.name] = s
        elif isinstance(s, (ast.ClassDef, ast.Pass)):
            pass
        elif isinstance(s, ast.Expr) and isinstance(s.value, ast.Constant) and s.value.value is Ellipsis:
            pass
        else:
            _bad("class %s: statement `%s` is not understood" % (cls.name, _d(s)), s)
    return attrs, defs


class Gen:
    def __init__(self):
        self.trees = {}
        self.out = [HEADER]
        self.errors = []
        self.done = set()

    def tree(self, rel):
        if rel not in self.trees:
            self.trees[rel] = _src(rel)
        return self.trees[rel]

    def emit(self, name, f, needs=()):
        try:
            for n in needs:
                if n not in self.done:
                    raise TranslateError("depends on `%s`, which is not translated" % n)
            self.out.append(f())
            self.done.add(name)
        except TranslateError as e:
            self.errors.append("%s: %s" % (name, e))
            self.out.append("/-! NOT TRANSLATED `%s`: %s -/\n" % (name, str(e).replace("-/", "- /")))

    @staticmethod
    def defn(lean_name, params, rty, body, doc):
        return "/-- %s -/\ndef %s %s : M (%s) :=\n%s" % (doc, lean_name, params, rty, body)

    # ------------------------------------------------------------------ schema/base.py
    def base_fn(self, pyname, pats, params, result, lean_params, decos=None):
        fn = find_path(self.tree(BASE), ("BaseModelPlus", pyname))
        expect_decorators(fn, decos or [], "BaseModelPlus." + pyname)
        T = Fn("BaseModelPlus." + pyname, pats, result)
        body = T.translate(fn, params, lean_params)
        return self.defn("BaseModelPlus." + pyname, lean_params, T.result_lean(), body, "`BaseModelPlus.%s` (%s)" % (pyname, BASE))

    def g_mod_def(self):
        fn = find_path(self.tree(BASE), ("_mod_def_dump_args",))
        expect_decorators(fn, [], fn.name)
        T = Fn("_mod_def_dump_args", [], "dict")
        body = T.translate(fn, [("kwargs", "dict")], "")
        return self.defn("_mod_def_dump_args", "(kwargs : Dict)", "Dict", body, "`_mod_def_dump_args` (%s)" % BASE)

    SELF_P = "(L : Lib) (leaf : EncLeaf) (self : PyVal)"
    MOD_DEF = Pat("_mod_def_dump_args(_K)", "dict", "_mod_def_dump_args {_K}", {"_K": "dict"}, raises=True)
    SELF_JSON = [Pat("self.json(**_K)", "str", "BaseModelPlus.json L leaf self {_K}", {"_K": "dict"}, raises=True),
                 Pat("self.json()", "str", "BaseModelPlus.json L leaf self []", raises=True),
                 Pat("self.json(indent=_n)", "str", "BaseModelPlus.json L leaf self [(%s, {_n})]" % chars("indent"), {"_n": "json"}, raises=True)]

    def g_json(self):
        pats = [self.MOD_DEF, Pat("super().json(*args, **_K)", "str", "pydJson L leaf self {_K}", {"_K": "dict"}, raises=True)]
        return self.base_fn("json", pats, [("self", "pyval"), ("*args", None), ("**kwargs", "dict")], "str", self.SELF_P + " (kwargs : Dict)")

    def g_json_dict(self):
        pats = self.SELF_JSON + [Pat("json.loads(_s)", "json", "jsonLoads L {_s}", {"_s": "str"}, raises=True)]
        return self.base_fn("json_dict", pats, [("self", "pyval"), ("**kwargs", "dict")], "json", self.SELF_P + " (kwargs : Dict)")

    def g_yaml(self):
        pats = [Pat("to_yaml_str(self)", "str", "toYamlStr L (BaseModelPlus.json L leaf self [])", raises=True)]
        return self.base_fn("yaml", pats, [("self", "pyval"), ("**kwargs", "dict")], "str", self.SELF_P + " (kwargs : Dict)")

    def g_bytes(self):
        enc = "(utf8 {_s})"
        pats = self.SELF_JSON + [Pat('_s.encode(encoding="utf-8")', "str", enc, {"_s": "str"}), Pat('_s.encode("utf-8")', "str", enc, {"_s": "str"}),
                                 Pat('_s.encode(encoding="utf8")', "str", enc, {"_s": "str"}), Pat('_s.encode("utf8")', "str", enc, {"_s": "str"}),
                                 Pat("_s.encode()", "str", enc, {"_s": "str"})]
        return self.base_fn("__bytes__", pats, [("self", "pyval")], "str", self.SELF_P)

    def g_str(self):
        return self.base_fn("__str__", self.SELF_JSON, [("self", "pyval")], "str", self.SELF_P)

    def g_parse_file(self):
        pats = [Pat("parse_yaml_file_as(cls, _p)", "pyval", "parseYamlFileAs L cls {_p}", {"_p": "str"}, raises=True)]
        return self.base_fn("parse_file", pats, [("cls", "ty"), ("path", "str")], "pyval", "(L : Lib) (cls : Ty) (path : Str)", ["classmethod"])

    def g_parse_raw(self):
        pats = [Pat("super().parse_raw(_d, **_K)", "pyval", "pydParseRaw L cls {_d} {_K}", {"_d": "str", "_K": "dict"}, raises=True),
                Pat("parse_yaml_raw_as(cls, _d)", "pyval", "parseYamlRawAs L cls {_d}", {"_d": "str"}, raises=True)]
        return self.base_fn("parse_raw", pats, [("cls", "ty"), ("dat", "str"), ("**kwargs", "dict")], "pyval",
                            "(L : Lib) (cls : Ty) (dat : Str) (kwargs : Dict)", ["classmethod"])

    def g_config(self):
        cls = find_cls(self.tree(BASE), ("BaseModelPlus", "Config"))
        if cls.bases or cls.keywords or cls.decorator_list:
            _bad("BaseModelPlus.Config has bases / decorators", cls)
        attrs, defs = class_attrs(cls)
        if defs:
            _bad("BaseModelPlus.Config defines methods (%s)" % ", ".join(defs), cls)
        items = ["(%s, %s)" % (lean_string(k), json_const(v, "BaseModelPlus.Config." + k)) for k, v in sorted(attrs.items())]
        return ("/-- `BaseModelPlus.Config` (%s), sorted by name (the order of class attributes has no meaning) -/\n"
                "def BaseModelPlus.Config : List (String × Json) :=\n  [%s]\n" % (BASE, ",\n   ".join(items)))

    def g_metaclass_of(self, rel, cname):
        cls = find_cls(self.tree(rel), (cname,))
        kws = {k.arg: k.value for k in cls.keywords}
        if set(kws) - {"metaclass"}:
            _bad("class %s: keywords %s" % (cname, sorted(kws)), cls)
        mc = kws.get("metaclass")
        if mc is None or not isinstance(mc, ast.Name):
            _bad("class %s: no `metaclass=<name>`" % cname, cls)
        return "/-- `class %s(…, metaclass=…)` (%s) -/\ndef %s.metaclass : String := %s\n" % (cname, rel, cname, lean_string(mc.id))

    # ------------------------------------------------------------------ schema/encoder.py
    def g_json_encoder(self):
        fn = find_path(self.tree(ENCODER), ("json_encoder",))
        expect_decorators(fn, [], fn.name)
        fn = rename_outer(fn, ["func"])
        inner = closure_shape(fn)
        pats = [Pat("issubclass(cls.__class__, ModelMetaclass)", "bool", "cls.isModel"),
                Pat('hasattr(cls, "__dataclass_fields__")', "bool", "cls.isDataclass"),
                Pat("cls in _reg_json_encoders", "bool", "(Registry.has reg cls.key)")]
        stores = [StorePat("_reg_json_encoders[cls] = _v", "$reg", "(Registry.set reg cls.key {_v})", {"_v": "encfn"})]
        T = Fn("json_encoder", pats, "clsdesc", ret_state=["$reg"], stores=stores)
        env = {"$reg": Var("reg", "registry"), "func": Var("func", "encfn")}
        body = T.translate(inner, [("cls", "clsdesc")], "", state_types={"$reg": "registry"}, init_env=env)
        return self.defn("json_encoder", "(func : EncFn) (reg : Registry) (cls : ClsDesc)", T.result_lean(), body,
                         "`json_encoder(func)(cls)` (%s): the registry is threaded through" % ENCODER)

    def g_add_json_encoder(self):
        fn = find_path(self.tree(ENCODER), ("add_json_encoder",))
        expect_decorators(fn, [], fn.name)
        pats = [Pat("json_encoder(_f)(_c)", "clsdesc", "json_encoder {_f} reg {_c}", {"_f": "encfn", "_c": "clsdesc"}, state=True)]
        T = Fn("add_json_encoder", pats, "clsdesc", ret_state=["$reg"])
        body = T.translate(fn, [("cls", "clsdesc"), ("func", "encfn")], "", state_types={"$reg": "registry"}, init_env={"$reg": Var("reg", "registry")})
        return self.defn("add_json_encoder", "(reg : Registry) (cls : ClsDesc) (func : EncFn)", T.result_lean(), body, "`add_json_encoder` (%s)" % ENCODER)

    def g_dynamize(self):
        fn = find_path(self.tree(ENCODER), ("_dynamize_encoder",))
        expect_decorators(fn, [], fn.name)
        fn = rename_outer(fn, ["encoder_func"])
        inner = closure_shape(fn)
        pats = [Pat("encoder_func(_o)", "json", "encoder_func {_o}", {"_o": "pyval"}, raises=True),
                Pat("_reg_json_encoders.get(type(_o))", "optenc", "(Registry.get reg (pyTypeKey {_o}))", {"_o": "pyval"}),
                Pat("_f(_o)", "json", "applyEncFn L {_f} {_o}", {"_f": "encfn", "_o": "pyval"}, raises=True)]
        T = Fn("_dynamize_encoder", pats, "json")
        body = T.translate(inner, [("obj", "pyval")], "", init_env={"encoder_func": Var("encoder_func", "encleaf")})
        return self.defn("_dynamize_encoder", "(L : Lib) (reg : Registry) (encoder_func : EncLeaf) (obj : PyVal)", "Json", body,
                         "`_dynamize_encoder(encoder_func)(obj)` (%s): reads the global registry" % ENCODER)

    META_PARAMS = [("self", "clsst"), ("name", None), ("bases", "clsstlist"), ("dct", None)]
    META_LEAN = "(L : Lib) (reg : Registry) (super_init : ClsSt → M ClsSt) (self : ClsSt) (bases : List ClsSt)"
    SUPER_INIT = StorePat("super().__init__(name, bases, dct)", "self", "super_init self", raises=True)

    def g_mixin_init(self):
        fn = find_path(self.tree(ENCODER), ("DynJsonEncoderMetaMixin", "__init__"))
        expect_decorators(fn, [], "DynJsonEncoderMetaMixin.__init__")
        pats = [Pat("staticmethod(_f)", "encleaf", "{_f}", {"_f": "encleaf"}),
                Pat("_dynamize_encoder(_f)", "encleaf", "(_dynamize_encoder L reg {_f})", {"_f": "encleaf"}),
                Pat("self.__json_encoder__", "encleaf", "self.jsonEncoder")]
        stores = [self.SUPER_INIT, StorePat("self.__json_encoder__ = _v", "self", "{{ self with jsonEncoder := {_v} }}", {"_v": "encleaf"})]
        T = Fn("DynJsonEncoderMetaMixin.__init__", pats, None, ret_state=["self"], stores=stores)
        body = T.translate(fn, self.META_PARAMS, "", state_types={"self": "clsst"})
        return self.defn("DynJsonEncoderMetaMixin.__init__", self.META_LEAN, "ClsSt", body, "`DynJsonEncoderMetaMixin.__init__` (%s)" % ENCODER)

    # ------------------------------------------------------------------ schema/core.py
    def g_magic_init(self):
        fn = find_path(self.tree(CORE), ("SchemaMagic", "__init__"))
        expect_decorators(fn, [], "SchemaMagic.__init__")
        pats = [Pat('getattr(_b, "__constants__", {})', "dict", "{_b}.constants", {"_b": "clsst"})]
        stores = [self.SUPER_INIT, StorePat("self.__constants__ = _v", "self", "{{ self with constants := {_v} }}", {"_v": "dict"}),
                  StorePat("self.__constants__.update(_d)", "self", "{{ self with constants := dictUpdate self.constants {_d} }}", {"_d": "dict"})]
        T = Fn("SchemaMagic.__init__", pats, None, ret_state=["self"], stores=stores,
               ignore_attrs={"__types_checked__", "__overrides__", "__annotations__"}, allow_assert=True)
        body = T.translate(fn, self.META_PARAMS, "", state_types={"self": "clsst"})
        return self.defn("SchemaMagic.__init__", self.META_LEAN, "ClsSt", body,
                         "`SchemaMagic.__init__` (%s); the assert and the attributes `__types_checked__`, `__overrides__`, `__annotations__` are left out" % CORE)

    def g_meta_table(self):
        srcs = [(ENCODER, "DynJsonEncoderMetaMixin"), (ENCODER, "DynEncoderModelMetaclass"), (CORE, "SchemaMagic"),
                (CORE, "SchemaMetaclass"), (PLUGMETA, "PluginMetaclassMixin")]
        bases_of = dict(META_EXTERNAL)
        inits = []
        for rel, cname in srcs:
            cls = find_cls(self.tree(rel), (cname,))
            if cls.keywords or cls.decorator_list:
                _bad("metaclass %s has keywords / decorators" % cname, cls)
            bs = []
            for b in cls.bases:
                if not isinstance(b, ast.Name):
                    _bad("metaclass %s: base `%s`" % (cname, _d(b)), cls)
                bs.append(b.id)
            bases_of[cname] = bs
            defs = {s.name for s in cls.body if isinstance(s, ast.FunctionDef)}
            for m in ("__init__", "__call__"):
                if m in defs:
                    if m == "__init__" and cname in ("DynJsonEncoderMetaMixin", "SchemaMagic"):
                        inits.append(cname)
                    else:
                        _bad("metaclass %s defines %s, which is not in the dictionary" % (cname, m), cls)
        for cname in inits:
            if cname + ".__init__" not in self.done:
                _bad("%s.__init__ is not translated" % cname)
        L = ["/-- the metaclasses that define an `__init__` -/", "def metaInit (L : Lib) (reg : Registry) : String → Option MetaInit"]
        for cname in inits:
            L.append("  | %s => some (%s.__init__ L reg)" % (lean_string(cname), cname))
        L.append("  | _ => none")
        L.append("")
        L.append("/-- method resolution order (C3, computed by the translator from the `class` headers) -/")
        L.append("def mro : String → List String")
        for _, cname in srcs:
            L.append("  | %s => [%s]" % (lean_string(cname), ", ".join(lean_string(x) for x in c3(cname, bases_of))))
        L.append("  | _ => []")
        L.append("")
        L.append("/-- `__init__` of a class object created by the metaclass `metacls` -/")
        L.append("def classInit (L : Lib) (reg : Registry) (metacls : String) (self : ClsSt) (bases : List ClsSt) : M ClsSt :=")
        L.append("  runInit (metaInit L reg) (mro metacls) self bases")
        return "\n".join(L) + "\n"

    def g_key_const(self):
        for s in self.tree(CORE).body:
            if isinstance(s, ast.Assign) and len(s.targets) == 1 and isinstance(s.targets[0], ast.Name) and s.targets[0].id == "KEY_SCHEMA_CONSTFLDS":
                if isinstance(s.value, ast.Constant) and isinstance(s.value.value, str):
                    return "/-- `KEY_SCHEMA_CONSTFLDS` (%s) -/\ndef KEY_SCHEMA_CONSTFLDS : Str := %s\n" % (CORE, chars(s.value.value))
                _bad("KEY_SCHEMA_CONSTFLDS is not a string constant", s)
        _bad("KEY_SCHEMA_CONSTFLDS not found")

    def g_override_consts(self):
        fn = find_path(self.tree(CORE), ("SchemaBase", "override_consts"))
        if len(fn.decorator_list) != 1:
            _bad("override_consts: decorators %s" % decorators(fn), fn)
        d = fn.decorator_list[0]
        pre = None
        if isinstance(d, ast.Name) and d.id == "root_validator":
            pre = False
        elif isinstance(d, ast.Call) and isinstance(d.func, ast.Name) and d.func.id == "root_validator" and not d.args:
            kws = {k.arg: k.value for k in d.keywords}
            if set(kws) <= {"pre"} and all(isinstance(v, ast.Constant) and isinstance(v.value, bool) for v in kws.values()):
                pre = kws["pre"].value if "pre" in kws else False
        if pre is None:
            _bad("override_consts: decorator `%s` is not in the dictionary" % _d(d), fn)
        pats = [Pat("cls.__constants__", "dict", "cls.constants")]
        T = Fn("SchemaBase.override_consts", pats, "dict")
        body = T.translate(fn, [("cls", "schemacls"), ("values", "dict")], "")
        return ("/-- `@root_validator(pre=…)` of `override_consts`: runs on the raw input, before the fields are validated -/\n"
                "def SchemaBase.override_consts.pre : Bool := %s\n\n" % ("true" if pre else "false")
                + self.defn("SchemaBase.override_consts", "(cls : SchemaCls) (values : Dict)", "Dict", body, "`SchemaBase.override_consts` (%s)" % CORE))

    def g_schema_extra(self):
        fn = find_path(self.tree(CORE), ("SchemaBase", "Config", "schema_extra"))
        expect_decorators(fn, ["staticmethod"], "SchemaBase.Config.schema_extra")
        pats = [Pat("UndefVersion._unwrap(_m)", "optschemacls", "(SchemaCls.unwrapOpt {_m})", {"_m": "schemacls"}),
                Pat("_m is MetadataSchema", "bool", "{_m}.isMetadataSchema", {"_m": "schemacls"}),
                Pat("_m.__constants__", "dict", "{_m}.constants", {"_m": "schemacls"})]
        stores = [StorePat("add_missing_field_descriptions(schema, _m)", "schema", "(L.addDescriptions schema)", {"_m": "schemacls"})]
        T = Fn("SchemaBase.Config.schema_extra", pats, None, ret_state=["schema"], stores=stores,
               consts={"KEY_SCHEMA_CONSTFLDS": ("KEY_SCHEMA_CONSTFLDS", "str")})
        body = T.translate(fn, [("schema", "dict"), ("model", "schemacls")], "", state_types={"schema": "dict"})
        return self.defn("SchemaBase.Config.schema_extra", "(L : Lib) (schema : Dict) (model : SchemaCls)", "Dict", body,
                         "`SchemaBase.Config.schema_extra` (%s): returns the updated `schema`" % CORE)

    # ------------------------------------------------------------------ schema/parser.py
    def g_baseparser_attrs(self):
        cls = find_cls(self.tree(PARSER), ("BaseParser",))
        if cls.bases or cls.keywords or cls.decorator_list:
            _bad("BaseParser has bases / decorators", cls)
        attrs, _ = class_attrs(cls)
        if set(attrs) != {"schema_info", "strict"}:
            _bad("BaseParser: class attributes %s" % sorted(attrs), cls)
        st = attrs["strict"]
        if not (isinstance(st, ast.Constant) and isinstance(st.value, bool)):
            _bad("BaseParser.strict is not True / False", st)
        return ("/-- `BaseParser.strict`, `BaseParser.schema_info` (%s) -/\ndef BaseParser.strict : Bool := %s\ndef BaseParser.schema_info : Dict := %s\n"
                % (PARSER, "true" if st.value else "false", dict_const(attrs["schema_info"], "BaseParser.schema_info")))

    def g_baseparser_parse(self):
        fn = find_path(self.tree(PARSER), ("BaseParser", "parse"))
        expect_decorators(fn, ["classmethod"], "BaseParser.parse")
        T = Fn("BaseParser.parse", [ISINST_TARGET], "obj")
        body = T.translate(fn, [("cls", None), ("target", "tcls"), ("v", "obj")], "")
        return self.defn("BaseParser.parse", "(target : TCls) (v : Obj)", "Obj", body, "`BaseParser.parse` (%s)" % PARSER)

    def g_run_parser(self):
        fn = find_path(self.tree(PARSER), ("run_parser",))
        expect_decorators(fn, [], fn.name)
        pats = [ISINST_TARGET, Pat("cls.parse(target, _v)", "obj", "cls.parse target {_v}", {"_v": "obj"}, raises=True), Pat("cls.strict", "bool", "cls.strict")]
        T = Fn("run_parser", pats, "obj")
        body = T.translate(fn, [("cls", "parsercls"), ("target", "tcls"), ("value", "obj")], "")
        return self.defn("run_parser", "(cls : ParserCls) (target : TCls) (value : Obj)", "Obj", body, "`run_parser` (%s)" % PARSER)

    def g_get_parser(self):
        fn = find_path(self.tree(PARSER), ("get_parser",))
        expect_decorators(fn, [], fn.name)
        pats = [Pat('cls.__dict__.get("Parser")', "optparser", "cls.ownParser"), Pat("issubclass(_p, BaseParser)", "bool", "{_p}.isBaseParser", {"_p": "parsercls"})]
        T = Fn("get_parser", pats, "optparser")
        body = T.translate(fn, [("cls", "pcls")], "")
        return self.defn("get_parser", "(cls : PCls)", "Option ParserCls", body, "`get_parser` (%s)" % PARSER)

    @staticmethod
    def nested_wrapper(T, s, env, cont):
        """`def wrapper_func(cls, value, values=None, config=None, field=None): return run_parser(parser, field.type_, value)`
        -> `PFunc.wrapper parser` (what pydantic calls with the field and the value, see `Validator.pfunc`)"""
        a = s.args
        body = strip_doc(s.body)
        ok = (not s.decorator_list and not a.vararg and not a.kwarg and not a.posonlyargs and not a.kwonlyargs and len(a.args) == 5
              and len(a.defaults) == 3 and all(isinstance(d, ast.Constant) and d.value is None for d in a.defaults)
              and [x.arg for x in a.args[2:]] == ["values", "config", "field"]
              and len(body) == 1 and isinstance(body[0], ast.Return))
        if ok:
            b = {}
            pat = ast.parse("run_parser(_p, %s.type_, %s)" % (a.args[4].arg, a.args[1].arg), mode="eval").body
            ok = match(pat, body[0].value, b) and isinstance(b["_p"], ast.Name) and b["_p"].id in env and env[b["_p"].id].ty == "parsercls" and not env[b["_p"].id].maybe
        if not ok:
            _bad("%s: the nested validator function `%s` does not have the shape of the dictionary" % (T.name, s.name), s)
        ln = lname(s.name)
        return Let(ln, "(PFunc.wrapper %s)" % env[b["_p"].id].lean, cont(T.bindvar(env, s.name, ln, "pfunc")))

    def g_get_validators(self):
        fn = find_path(self.tree(PARSER), ("ParserMixin", "__get_validators__"))
        expect_decorators(fn, ["classmethod"], "ParserMixin.__get_validators__")
        pats = [Pat('cls.__dict__.get("__parser_func__")', "optpfunc", "cls.cache"), GET_PARSER, Pat("NoParserDefined", "pfunc", "PFunc.noParser"),
                Pat("_p is NoParserDefined", "bool", "(PFunc.isNoParser {_p})", {"_p": "pfunc"}), Pat("issubclass(cls, BaseModel)", "bool", "cls.isModel"),
                Pat("cls.validate", "validator", "Validator.modelValidate")]
        stores = [StorePat("cls.__parser_func__ = _v", "cls", "{{ cls with cache := {_v} }}", {"_v": "optpfunc"})]
        T = Fn("ParserMixin.__get_validators__", pats, None, ret_state=["cls", "$ys"], stores=stores, nested={"wrapper_func": self.nested_wrapper})
        body = T.translate(fn, [("cls", "pcls")], "", state_types={"cls": "pcls", "$ys": "validators"}, init_env={"$ys": Var("ys", "validators")})
        body = "  let ys : List Validator := []\n" + body
        return self.defn("ParserMixin.__get_validators__", "(cls : PCls)", T.result_lean(), body,
                         "`ParserMixin.__get_validators__` (%s): the class with its cache and the list of what is yielded" % PARSER)

    def g_modify_schema(self):
        fn = find_path(self.tree(PARSER), ("ParserMixin", "__modify_schema__"))
        expect_decorators(fn, ["classmethod"], "ParserMixin.__modify_schema__")
        pats = [GET_PARSER, Pat("_p.schema_info", "dict", "{_p}.schemaInfo", {"_p": "parsercls"})]
        T = Fn("ParserMixin.__modify_schema__", pats, None, ret_state=["schema"])
        body = T.translate(fn, [("cls", "pcls"), ("schema", "dict")], "", state_types={"schema": "dict"})
        return self.defn("ParserMixin.__modify_schema__", "(cls : PCls) (schema : Dict)", "Dict", body, "`ParserMixin.__modify_schema__` (%s): returns the updated `schema`" % PARSER)

    # ------------------------------------------------------------------ schema/types.py
    PARSE_PARAMS = [("cls", None), ("tcls", "tcls"), ("v", "obj")]

    def g_duration_parse(self):
        fn = find_path(self.tree(TYPES), ("Duration", "Parser", "parse"))
        expect_decorators(fn, ["classmethod"], "Duration.Parser.parse")
        pats = [ISINST_TCLS, Pat("isodate.parse_duration(_v)", "obj", "parseDurationObj L {_v}", {"_v": "obj"}, raises=True),
                Pat("_d.total_seconds()", "obj", "totalSeconds L {_d}", {"_d": "obj"}, raises=True),
                Pat("tcls(seconds=_x)", "obj", "mkDuration L tcls {_x}", {"_x": "obj"}, raises=True)]
        T = Fn("Duration.Parser.parse", pats, "obj")
        body = T.translate(fn, self.PARSE_PARAMS, "")
        return self.defn("Duration.Parser.parse", "(L : Lib) (tcls : TCls) (v : Obj)", "Obj", body, "`Duration.Parser.parse` (%s)" % TYPES)

    def g_string_parse(self):
        fn = find_path(self.tree(TYPES), ("StringParser", "parse"))
        expect_decorators(fn, ["classmethod"], "StringParser.parse")
        pats = [ISINST_TCLS, Pat("tcls(_v)", "obj", "constructObj L tcls {_v}", {"_v": "obj"}, raises=True)]
        T = Fn("StringParser.parse", pats, "obj")
        body = T.translate(fn, self.PARSE_PARAMS, "")
        return self.defn("StringParser.parse", "(L : Lib) (tcls : TCls) (v : Obj)", "Obj", body, "`StringParser.parse` (%s)" % TYPES)

    def g_pint_parse(self):
        cls = find_cls(self.tree(TYPES), ("PintParser",))
        if [ast.unparse(b) for b in cls.bases] != ["StringParser"] or cls.keywords:
            _bad("PintParser: bases %s (super().parse is resolved through them)" % [ast.unparse(b) for b in cls.bases], cls)
        fn = find_path(self.tree(TYPES), ("PintParser", "parse"))
        expect_decorators(fn, ["classmethod"], "PintParser.parse")
        pats = [ISINST_TCLS, Pat("super().parse(tcls, _v)", "obj", "StringParser.parse L tcls {_v}", {"_v": "obj"}, raises=True)]
        T = Fn("PintParser.parse", pats, "obj")
        body = T.translate(fn, self.PARSE_PARAMS, "")
        return self.defn("PintParser.parse", "(L : Lib) (tcls : TCls) (v : Obj)", "Obj", body, "`PintParser.parse` (%s)" % TYPES)

    def parser_chain(self, tree, start_cls, what):
        """follow the bases of a Parser class inside its module up to BaseParser ->
        (is BaseParser subclass, nearest class defining parse, strict text, schema_info text)"""
        mod_classes = {s.name: s for s in tree.body if isinstance(s, ast.ClassDef)}
        chain = [(what, start_cls)]
        cur = start_cls
        reaches = False
        for _ in range(10):
            if len(cur.bases) != 1 or cur.keywords:
                _bad("%s: bases `%s`" % (chain[-1][0], ", ".join(ast.unparse(b) for b in cur.bases)), cur)
            b = ast.unparse(cur.bases[0])
            if b == "BaseParser":
                reaches = True
                break
            if b in mod_classes:
                cur = mod_classes[b]
                chain.append((b, cur))
                continue
            if b.endswith(".Parser") and b[:-7] in mod_classes:
                outer = mod_classes[b[:-7]]
                inner = [s for s in outer.body if isinstance(s, ast.ClassDef) and s.name == "Parser"]
                if len(inner) == 1:
                    cur = inner[0]
                    chain.append((b, cur))
                    continue
            _bad("%s: base class `%s` is not in the dictionary" % (what, b), cur)
        return reaches, chain

    def g_parser_classes(self):
        tree = self.tree(TYPES)
        L = []
        regs = []
        for cname in ("Duration", "PintUnit", "PintQuantity"):
            cls = find_cls(tree, (cname,))
            bases = [ast.unparse(b) for b in cls.bases]
            if cls.keywords or not set(bases) <= NONMODEL_BASES or "ParserMixin" not in bases:
                _bad("class %s: bases %s are not in the dictionary" % (cname, bases), cls)
            inner = [s for s in cls.body if isinstance(s, ast.ClassDef) and s.name == "Parser"]
            if len(inner) != 1:
                _bad("class %s: %d inner Parser classes" % (cname, len(inner)), cls)
            for s in cls.body:
                if isinstance(s, ast.FunctionDef) and s.name in ("__get_validators__", "__modify_schema__", "validate"):
                    _bad("class %s overrides %s" % (cname, s.name), s)
                if isinstance(s, (ast.Assign, ast.AnnAssign)):
                    tg = s.targets[0] if isinstance(s, ast.Assign) else s.target
                    if isinstance(tg, ast.Name) and tg.id in ("Parser", "__parser_func__"):
                        _bad("class %s assigns %s" % (cname, tg.id), s)
            reaches, chain = self.parser_chain(tree, inner[0], cname + ".Parser")
            parse = strict = info = None
            for nm, c in chain:
                attrs, defs = class_attrs(c)
                extra = set(attrs) - {"schema_info", "strict"} | set(defs) - {"parse"}
                if extra:
                    _bad("parser class %s: members %s are not in the dictionary" % (nm, sorted(extra)), c)
                if parse is None and "parse" in defs:
                    parse = nm + ".parse"
                if strict is None and "strict" in attrs:
                    v = attrs["strict"]
                    if not (isinstance(v, ast.Constant) and isinstance(v.value, bool)):
                        _bad("%s.strict is not True / False" % nm, v)
                    strict = "true" if v.value else "false"
                if info is None and "schema_info" in attrs:
                    info = dict_const(attrs["schema_info"], nm + ".schema_info")
            if parse is None:
                parse = "BaseParser.parse" if reaches else None
                ptxt = "BaseParser.parse"
            else:
                ptxt = "%s L" % parse
            if parse is None:
                _bad("%s.Parser: no parse method found" % cname, cls)
            if parse not in self.done:
                _bad("%s.Parser: its parse method `%s` is not translated" % (cname, parse), cls)
            L.append("/-- `%s.Parser` (%s): chain %s -/" % (cname, TYPES, " -> ".join(n for n, _ in chain) + (" -> BaseParser" if reaches else "")))
            L.append("def %s.ParserCls (L : Lib) : ParserCls :=\n  ⟨%s, %s, %s,\n   %s⟩" % (
                cname, "true" if reaches else "false", strict or "BaseParser.strict", ptxt, info or "BaseParser.schema_info"))
            L.append("/-- the class `%s` as `ParserMixin` sees it before the first validation -/" % cname)
            L.append("def %s.PCls (L : Lib) : PCls := ⟨some (%s.ParserCls L), none, false⟩\n" % (cname, cname))
        # registrations, in source order
        for s in tree.body:
            if not isinstance(s, ast.ClassDef):
                continue
            for d in s.decorator_list:
                if isinstance(d, ast.Call) and isinstance(d.func, ast.Name) and d.func.id == "json_encoder":
                    if len(d.args) != 1 or d.keywords:
                        _bad("class %s: `@%s`" % (s.name, _d(d)), s)
                    f = ast.unparse(d.args[0])
                    enc = {"isodate.duration_isoformat": "EncFn.durationIsoformat", "str": "EncFn.str"}.get(f)
                    if enc is None:
                        _bad("class %s: encoder function `%s` is not in the dictionary" % (s.name, f), s)
                    bases = [ast.unparse(b) for b in s.bases]
                    if not set(bases) <= NONMODEL_BASES:
                        _bad("class %s: bases %s are not in the dictionary" % (s.name, bases), s)
                    key = "ClsKey.opq %s" % OPQ_OF_CLASS[s.name] if s.name in OPQ_OF_CLASS else "ClsKey.named %s" % lean_string(s.name)
                    dc = any(ast.unparse(x).split("(")[0] in ("dataclass", "dataclasses.dataclass") for x in s.decorator_list)
                    if len(s.decorator_list) != 1:
                        _bad("class %s: decorators %s" % (s.name, [ast.unparse(x) for x in s.decorator_list]), s)
                    regs.append("(⟨%s, false, %s⟩, %s)" % (key, "true" if dc else "false", enc))
                elif "json_encoder" in ast.unparse(d):
                    _bad("class %s: decorator `%s`" % (s.name, _d(d)), s)
        for s in ast.walk(tree):
            if isinstance(s, ast.Call) and isinstance(s.func, ast.Name) and s.func.id == "add_json_encoder":
                _bad("add_json_encoder call at module level is not in the dictionary", s)
        L.append("/-- the `@json_encoder(…)` decorators of %s in source order -/" % TYPES)
        L.append("def registrations : List (ClsDesc × EncFn) :=\n  [%s]" % ",\n   ".join(regs))
        L.append("/-- the registry after the import of the module -/")
        L.append("def registry : M Registry := runRegistrations json_encoder registrations []")
        return "\n".join(L) + "\n"

    # ------------------------------------------------------------------ schema/common/__init__.py
    def g_num_parse(self):
        fn = find_path(self.tree(COMMON), ("NumValue", "Parser", "parse"))
        expect_decorators(fn, ["classmethod"], "NumValue.Parser.parse")
        o = {"_v": "obj"}
        pats = [Pat("isinstance(_v, tcls.__base__)", "bool", "(isBase {_v})", o),
                Pat("cls.require_unit", "bool", "cls.requireUnit"), Pat("cls.infer_unit", "optstr", "cls.inferUnit"),
                Pat("cls.allowed_units", "strlist", "cls.allowedUnits"),
                Pat("tcls.construct(value=_a, unitText=_b)", "obj", "numConstruct {_a} {_b}", {"_a": "obj", "_b": "obj"}, raises=True),
                Pat("_v.strip()", "obj", "pyStrip {_v}", o, raises=True), Pat("_v.split(maxsplit=1)", "obj", "pySplit1 {_v}", o, raises=True),
                Pat("tcls.__base__.validate(_v)", "obj", "L.baseValidate {_v}", o, raises=True),
                Pat("_v.unitText", "obj", "attrUnitText {_v}", o, raises=True), Pat("_v.unitCode", "obj", "attrUnitCode {_v}", o, raises=True),
                Pat("_v.value", "obj", "attrValue {_v}", o, raises=True),
                Pat("parse_obj_as(Number, _v)", "obj", "L.parseNumber {_v}", o, raises=True),
                Pat("parse_obj_as(Tuple[Number, str], _v)", "obj", "L.parseNumStr {_v}", o, raises=True)]
        T = Fn("NumValue.Parser.parse", pats, "obj")
        body = T.translate(fn, [("cls", "numcfg"), ("tcls", None), ("v", "obj")], "")
        return self.defn("NumValue.Parser.parse", "(L : Lib) (cls : NumCfg) (v : Obj)", "Obj", body, "`NumValue.Parser.parse` (%s)" % COMMON)

    def g_num_cfg(self):
        tree = self.tree(COMMON)
        L = []
        base = None
        for outer, want_base in (("NumValue", "BaseParser"), ("Pixels", "NumValue.Parser")):
            cls = find_cls(tree, (outer, "Parser"))
            if [ast.unparse(b) for b in cls.bases] != [want_base] or cls.keywords or cls.decorator_list:
                _bad("%s.Parser: bases %s" % (outer, [ast.unparse(b) for b in cls.bases]), cls)
            attrs, defs = class_attrs(cls)
            extra = set(attrs) - {"schema_info", "allowed_units", "infer_unit", "require_unit"} | set(defs) - {"parse"}
            if extra or ("parse" in defs and outer != "NumValue"):
                _bad("%s.Parser: members %s are not in the dictionary" % (outer, sorted(extra) or ["parse"]), cls)
            cfg = dict(base) if base else {}
            if "allowed_units" in attrs:
                v = attrs["allowed_units"]
                if not (isinstance(v, ast.List) and all(isinstance(x, ast.Constant) and isinstance(x.value, str) for x in v.elts)):
                    _bad("%s.Parser.allowed_units is not a list of string constants" % outer, v)
                cfg["allowed"] = "[%s]" % ", ".join(chars(x.value) for x in v.elts)
            if "infer_unit" in attrs:
                v = attrs["infer_unit"]
                if isinstance(v, ast.Constant) and v.value is None:
                    cfg["infer"] = "none"
                elif isinstance(v, ast.Constant) and isinstance(v.value, str):
                    cfg["infer"] = "(some %s)" % chars(v.value)
                else:
                    _bad("%s.Parser.infer_unit is not None / a string constant" % outer, v)
            if "require_unit" in attrs:
                v = attrs["require_unit"]
                if not (isinstance(v, ast.Constant) and isinstance(v.value, bool)):
                    _bad("%s.Parser.require_unit is not True / False" % outer, v)
                cfg["require"] = "true" if v.value else "false"
            if set(cfg) != {"allowed", "infer", "require"}:
                _bad("%s.Parser: class attributes %s incomplete" % (outer, sorted(cfg)), cls)
            if base is None:
                base = cfg
            L.append("/-- class attributes of `%s.Parser` (%s) -/\ndef %s.Parser.cfg : NumCfg := ⟨%s, %s, %s⟩" % (
                outer, COMMON, outer, cfg["allowed"], cfg["infer"], cfg["require"]))
        return "\n".join(L) + "\n"

    # ------------------------------------------------------------------ all
    def run(self):
        e = self.emit
        e("_mod_def_dump_args", self.g_mod_def)
        e("BaseModelPlus.json", self.g_json, ["_mod_def_dump_args"])
        e("BaseModelPlus.json_dict", self.g_json_dict, ["BaseModelPlus.json"])
        e("BaseModelPlus.yaml", self.g_yaml, ["BaseModelPlus.json"])
        e("BaseModelPlus.__bytes__", self.g_bytes, ["BaseModelPlus.json"])
        e("BaseModelPlus.__str__", self.g_str, ["BaseModelPlus.json"])
        e("BaseModelPlus.parse_file", self.g_parse_file)
        e("BaseModelPlus.parse_raw", self.g_parse_raw)
        e("BaseModelPlus.Config", self.g_config)
        e("BaseModelPlus.metaclass", lambda: self.g_metaclass_of(BASE, "BaseModelPlus"))
        e("json_encoder", self.g_json_encoder)
        e("add_json_encoder", self.g_add_json_encoder, ["json_encoder"])
        e("_dynamize_encoder", self.g_dynamize)
        e("DynJsonEncoderMetaMixin.__init__", self.g_mixin_init, ["_dynamize_encoder"])
        e("KEY_SCHEMA_CONSTFLDS", self.g_key_const)
        e("SchemaBase.override_consts", self.g_override_consts)
        e("SchemaBase.Config.schema_extra", self.g_schema_extra, ["KEY_SCHEMA_CONSTFLDS"])
        e("SchemaMagic.__init__", self.g_magic_init)
        e("metaclass table", self.g_meta_table)
        e("MetadataSchema.metaclass", lambda: self.g_metaclass_of(CORE, "MetadataSchema"))
        e("BaseParser attributes", self.g_baseparser_attrs)
        e("BaseParser.parse", self.g_baseparser_parse)
        e("run_parser", self.g_run_parser)
        e("get_parser", self.g_get_parser)
        e("ParserMixin.__get_validators__", self.g_get_validators, ["get_parser"])
        e("ParserMixin.__modify_schema__", self.g_modify_schema, ["get_parser"])
        e("Duration.Parser.parse", self.g_duration_parse)
        e("StringParser.parse", self.g_string_parse)
        e("PintParser.parse", self.g_pint_parse, ["StringParser.parse"])
        e("parser classes and registrations", self.g_parser_classes, ["json_encoder", "BaseParser attributes", "BaseParser.parse"])
        e("NumValue.Parser.parse", self.g_num_parse)
        e("NumValue.Parser attributes", self.g_num_cfg)
        return "\n".join(self.out) + FOOTER, self.errors


def gen_codecfns():
    return Gen().run()


class PartlyTranslated(TranslateError):
    """some functions were not understood; Gen/CodecFns.lean holds the others"""


def _path(lean_mod):
    return os.path.join(lean_mod.LEAN, "MetadorModel", "Gen", "CodecFns.lean")


def write(lean_mod):
    """regenerate Gen/CodecFns.lean; returns an info string"""
    text, errors = gen_codecfns()
    changed = lean_mod.write_if_changed(_path(lean_mod), text)
    if errors:
        raise PartlyTranslated("; ".join(errors))
    return "Gen/CodecFns.lean %s (%d lines, %d definitions)" % ("rewritten" if changed else "unchanged", text.count("\n"), text.count("\ndef "))


def write_stub(lean_mod, why):
    text = HEADER + "\n/-! NOT TRANSLATED: %s -/\n" % why.replace("-/", "- /") + FOOTER
    lean_mod.write_if_changed(_path(lean_mod), text)


if __name__ == "__main__":
    _t, _e = gen_codecfns()
    print(_t)
    print("\n".join("NOT TRANSLATED " + x for x in _e))
