"""Child process of harness.pool: reads JSON cases on stdin, writes JSON results on stdout."""
import importlib
import json
import os
import sys
import traceback


def main():
    module, func = sys.argv[1], sys.argv[2]
    out = os.fdopen(os.dup(1), "w")
    # anything the real code prints must not disturb the protocol
    devnull = os.open(os.devnull, os.O_WRONLY)
    os.dup2(devnull, 1)
    os.dup2(devnull, 2)
    from . import envshim  # noqa: F401

    mod = importlib.import_module(module)
    fn = getattr(mod, func)
    for line in sys.stdin:
        case = json.loads(line)
        try:
            res = {"ok": fn(case)}
        except BaseException as e:  # noqa: BLE001
            res = {"crash": "%s: %s" % (type(e).__name__, e), "tb": traceback.format_exc()[-2000:]}
        out.write(json.dumps(res) + "\n")
        out.flush()


if __name__ == "__main__":
    main()
