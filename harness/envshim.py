"""Make `metador_core` importable from /repo/src in this sandbox.

pint 0.21 looks up nine numpy names at import time that numpy 2.x removed; without them
`import metador_core.ih5 / container / schema.types` fails. The aliases below change no
metador code and nothing the properties observe. Import this module before metador_core.
"""
import os
import sys

REPO = os.environ.get("METADOR_REPO", "/repo")
_src = os.path.join(REPO, "src")
if _src not in sys.path:
    sys.path.insert(0, _src)

import numpy as _np  # noqa: E402

for _old, _new in [
    ("cumproduct", "cumprod"),
    ("product", "prod"),
    ("sometrue", "any"),
    ("alltrue", "all"),
    ("round_", "round"),
    ("in1d", "isin"),
    ("trapz", "trapezoid"),
    ("row_stack", "vstack"),
    ("msort", "sort"),
]:
    if not hasattr(_np, _old):
        setattr(_np, _old, getattr(_np, _new, None) or (lambda *a, **k: None))

import warnings as _w  # noqa: E402

_w.filterwarnings("ignore")
