"""Tiny Python-AST -> Lean translator for a whitelist of small pure functions.

Only the statement/expression shapes that occur in those functions are understood; any
other shape raises TranslateError, which the check reports as an undischarged obligation
(and then searches for a failing input)."""
import ast
import os
import textwrap

from . import envshim  # noqa: F401  (sets REPO)

REPO = envshim.REPO


class TranslateError(Exception):
    pass


def find_class(tree, name):
    for n in ast.walk(tree):
        if isinstance(n, ast.ClassDef) and n.name == name:
            return n
    raise TranslateError("class %s not found" % name)


def find_func(node, name):
    for n in node.body:
        if isinstance(n, (ast.FunctionDef,)) and n.name == name:
            return n
    raise TranslateError("function %s not found" % name)


def strip_doc(body):
    if body and isinstance(body[0], ast.Expr) and isinstance(getattr(body[0], "value", None), ast.Constant) and isinstance(body[0].value.value, str):
        return body[1:]
    return body


def parse_source(relpath):
    path = os.path.join(REPO, relpath)
    return ast.parse(open(path).read(), filename=path)


# --------------------------------------------------------------------------- PluginRef
class RefExpr:
    """Expression translator for methods of PluginRef(self, other)."""

    FIELDS = {"group": "str", "name": "str", "version": "ver"}

    def __init__(self, params):
        self.params = params  # python name -> lean name

    def typed(self, e):
        """returns (lean, type) with type in str|ver|nat|bool"""
        if isinstance(e, ast.Attribute) and isinstance(e.value, ast.Name) and e.value.id in self.params and e.attr in self.FIELDS:
            lean = "%s.%s" % (self.params[e.value.id], {"version": "ver"}.get(e.attr, e.attr))
            return lean, self.FIELDS[e.attr]
        if isinstance(e, ast.Subscript):
            base, ty = self.typed(e.value)
            idx = e.slice
            if ty == "ver" and isinstance(idx, ast.Constant) and idx.value in (0, 1, 2):
                return "(%s).%s" % (base, ["1", "2.1", "2.2"][idx.value]), "nat"
            raise TranslateError("unsupported subscript")
        if isinstance(e, ast.Constant) and e.value is True:
            return "true", "bool"
        if isinstance(e, ast.Constant) and e.value is False:
            return "false", "bool"
        if isinstance(e, ast.Compare) and len(e.ops) == 1:
            l, lt = self.typed(e.left)
            r, rt = self.typed(e.comparators[0])
            if lt != rt:
                raise TranslateError("comparison of %s with %s" % (lt, rt))
            op = e.ops[0]
            if isinstance(op, ast.Eq):
                return "(%s == %s)" % (l, r), "bool"
            if isinstance(op, ast.NotEq):
                return "(%s != %s)" % (l, r), "bool"
            if lt == "ver":
                if isinstance(op, ast.GtE):
                    return "(verGe %s %s)" % (l, r), "bool"
                raise TranslateError("unsupported version comparison %s" % type(op).__name__)
            sym = {ast.GtE: "≥", ast.Gt: ">", ast.LtE: "≤", ast.Lt: "<"}.get(type(op))
            if sym is None:
                raise TranslateError("unsupported comparison %s" % type(op).__name__)
            return "(decide (%s %s %s))" % (l, sym, r), "bool"
        if isinstance(e, ast.BoolOp):
            parts = [self.typed(v) for v in e.values]
            if any(t != "bool" for _, t in parts):
                raise TranslateError("non-boolean operand of and/or")
            sym = " && " if isinstance(e.op, ast.And) else " || "
            return "(" + sym.join(p for p, _ in parts) + ")", "bool"
        if isinstance(e, ast.UnaryOp) and isinstance(e.op, ast.Not):
            v, t = self.typed(e.operand)
            if t != "bool":
                raise TranslateError("not on non-bool")
            return "(!%s)" % v, "bool"
        raise TranslateError("unsupported expression: %s" % ast.dump(e)[:120])


def stmts_to_optbool(body, ex):
    """Sequence of `if c: return e` / `return e`; falling off the end is Python's None."""
    body = strip_doc(body)
    if not body:
        return "none"
    s = body[0]
    rest = body[1:]
    if isinstance(s, ast.Return):
        if s.value is None or (isinstance(s.value, ast.Constant) and s.value.value is None):
            return "none"
        v, t = ex.typed(s.value)
        if t != "bool":
            raise TranslateError("return of non-bool")
        return "some %s" % v
    if isinstance(s, ast.If):
        c, t = ex.typed(s.test)
        if t != "bool":
            raise TranslateError("if on non-bool")
        thn = stmts_to_optbool(s.body + rest, ex) if not _ends_in_return(s.body) else stmts_to_optbool(s.body, ex)
        els = stmts_to_optbool((s.orelse or []) + rest, ex)
        return "(if %s = true then %s else %s)" % (c, thn, els)
    raise TranslateError("unsupported statement: %s" % type(s).__name__)


def _ends_in_return(body):
    return bool(body) and isinstance(body[-1], ast.Return)


def gen_pluginref():
    tree = parse_source("src/metador_core/schema/plugins.py")
    cls = find_class(tree, "PluginRef")
    out = [
        "import MetadorModel.Model.Plugin",
        "/-! GENERATED on every run by harness/translate.py from",
        "    src/metador_core/schema/plugins.py (class PluginRef). Do not edit. -/",
        "namespace MetadorModel.Gen.PluginRef",
        "open MetadorModel.Plugin",
        "",
    ]
    for py, ln in [("__eq__", "eq"), ("__ge__", "ge"), ("supports", "supports")]:
        fn = find_func(cls, py)
        args = [a.arg for a in fn.args.args]
        if len(args) != 2:
            raise TranslateError("%s: expected (self, other)" % py)
        ex = RefExpr({args[0]: "self", args[1]: "other"})
        body = stmts_to_optbool(fn.body, ex)
        out.append("def %s (self other : Ref) : Option Bool :=\n  %s\n" % (ln, body))
    # __hash__: hash of a tuple of fields
    fn = find_func(cls, "__hash__")
    body = strip_doc(fn.body)
    ok = False
    if len(body) == 1 and isinstance(body[0], ast.Return) and isinstance(body[0].value, ast.Call):
        call = body[0].value
        if isinstance(call.func, ast.Name) and call.func.id == "hash" and len(call.args) == 1 and isinstance(call.args[0], ast.Tuple):
            ex = RefExpr({fn.args.args[0].arg: "self"})
            elts = [ex.typed(e) for e in call.args[0].elts]
            out.append("def hashKey (self : Ref) := (%s)\n" % ", ".join(l for l, _ in elts))
            ok = True
    if not ok:
        raise TranslateError("__hash__: expected `return hash((...fields...))`")
    # which rich comparison methods are defined, and is the class decorated with total_ordering
    cmps = [n.name for n in cls.body if isinstance(n, ast.FunctionDef) and n.name in ("__eq__", "__ne__", "__lt__", "__le__", "__gt__", "__ge__")]
    deco = any((isinstance(d, ast.Name) and d.id == "total_ordering") or (isinstance(d, ast.Attribute) and d.attr == "total_ordering") for d in cls.decorator_list)
    out.append("def definedCmpOps : List String := [%s]" % ", ".join('"%s"' % c for c in sorted(cmps)))
    out.append("def totalOrderingDecorated : Bool := %s" % ("true" if deco else "false"))
    out.append("\nend MetadorModel.Gen.PluginRef\n")
    return "\n".join(out)
