"""Tiny Python-AST -> Lean translator for a whitelist of small pure functions.

Only the statement/expression shapes that occur in those functions are understood; any
other shape raises TranslateError, which the check reports as an undischarged obligation
(and then searches for a failing input)."""
import ast
import os
import textwrap

from . import envshim  # noqa: F401  (sets REPO)

REPO = envshim.REPO


class TranslateError(Exception):
    pass


def find_class(tree, name):
    for n in ast.walk(tree):
        if isinstance(n, ast.ClassDef) and n.name == name:
            return n
    raise TranslateError("class %s not found" % name)


def find_func(node, name):
    for n in node.body:
        if isinstance(n, (ast.FunctionDef,)) and n.name == name:
            return n
    raise TranslateError("function %s not found" % name)


def strip_doc(body):
    if body and isinstance(body[0], ast.Expr) and isinstance(getattr(body[0], "value", None), ast.Constant) and isinstance(body[0].value.value, str):
        return body[1:]
    return body


def parse_source(relpath):
    path = os.path.join(REPO, relpath)
    return ast.parse(open(path).read(), filename=path)


# --------------------------------------------------------------------------- PluginRef
class RefExpr:
    """Expression translator for methods of PluginRef(self, other)."""

    FIELDS = {"group": "str", "name": "str", "version": "ver"}

    def __init__(self, params):
        self.params = params  # python name -> lean name

    def typed(self, e):
        """returns (lean, type) with type in str|ver|nat|bool"""
        if isinstance(e, ast.Attribute) and isinstance(e.value, ast.Name) and e.value.id in self.params and e.attr in self.FIELDS:
            lean = "%s.%s" % (self.params[e.value.id], {"version": "ver"}.get(e.attr, e.attr))
            return lean, self.FIELDS[e.attr]
        if isinstance(e, ast.Subscript):
            base, ty = self.typed(e.value)
            idx = e.slice
            if ty == "ver" and isinstance(idx, ast.Constant) and idx.value in (0, 1, 2):
                return "(%s).%s" % (base, ["1", "2.1", "2.2"][idx.value]), "nat"
            raise TranslateError("unsupported subscript")
        if isinstance(e, ast.Constant) and e.value is True:
            return "true", "bool"
        if isinstance(e, ast.Constant) and e.value is False:
            return "false", "bool"
        if isinstance(e, ast.Compare) and len(e.ops) == 1:
            l, lt = self.typed(e.left)
            r, rt = self.typed(e.comparators[0])
            if lt != rt:
                raise TranslateError("comparison of %s with %s" % (lt, rt))
            op = e.ops[0]
            if isinstance(op, ast.Eq):
                return "(%s == %s)" % (l, r), "bool"
            if isinstance(op, ast.NotEq):
                return "(%s != %s)" % (l, r), "bool"
            if lt == "ver":
                if isinstance(op, ast.GtE):
                    return "(verGe %s %s)" % (l, r), "bool"
                raise TranslateError("unsupported version comparison %s" % type(op).__name__)
            sym = {ast.GtE: "≥", ast.Gt: ">", ast.LtE: "≤", ast.Lt: "<"}.get(type(op))
            if sym is None:
                raise TranslateError("unsupported comparison %s" % type(op).__name__)
            return "(decide (%s %s %s))" % (l, sym, r), "bool"
        if isinstance(e, ast.BoolOp):
            parts = [self.typed(v) for v in e.values]
            if any(t != "bool" for _, t in parts):
                raise TranslateError("non-boolean operand of and/or")
            sym = " && " if isinstance(e.op, ast.And) else " || "
            return "(" + sym.join(p for p, _ in parts) + ")", "bool"
        if isinstance(e, ast.UnaryOp) and isinstance(e.op, ast.Not):
            v, t = self.typed(e.operand)
            if t != "bool":
                raise TranslateError("not on non-bool")
            return "(!%s)" % v, "bool"
        raise TranslateError("unsupported expression: %s" % ast.dump(e)[:120])


def stmts_to_optbool(body, ex):
    """Sequence of `if c: return e` / `return e`; falling off the end is Python's None."""
    body = strip_doc(body)
    if not body:
        return "none"
    s = body[0]
    rest = body[1:]
    if isinstance(s, ast.Return):
        if s.value is None or (isinstance(s.value, ast.Constant) and s.value.value is None):
            return "none"
        v, t = ex.typed(s.value)
        if t != "bool":
            raise TranslateError("return of non-bool")
        return "some %s" % v
    if isinstance(s, ast.If):
        c, t = ex.typed(s.test)
        if t != "bool":
            raise TranslateError("if on non-bool")
        thn = stmts_to_optbool(s.body + rest, ex) if not _ends_in_return(s.body) else stmts_to_optbool(s.body, ex)
        els = stmts_to_optbool((s.orelse or []) + rest, ex)
        return "(if %s = true then %s else %s)" % (c, thn, els)
    raise TranslateError("unsupported statement: %s" % type(s).__name__)


def _ends_in_return(body):
    return bool(body) and isinstance(body[-1], ast.Return)


def gen_pluginref():
    tree = parse_source("src/metador_core/schema/plugins.py")
    cls = find_class(tree, "PluginRef")
    out = [
        "import MetadorModel.Model.Plugin",
        "/-! GENERATED on every run by harness/translate.py from",
        "    src/metador_core/schema/plugins.py (class PluginRef). Do not edit. -/",
        "namespace MetadorModel.Gen.PluginRef",
        "open MetadorModel.Plugin",
        "",
    ]
    for py, ln in [("__eq__", "eq"), ("__ge__", "ge"), ("supports", "supports")]:
        fn = find_func(cls, py)
        args = [a.arg for a in fn.args.args]
        if len(args) != 2:
            raise TranslateError("%s: expected (self, other)" % py)
        ex = RefExpr({args[0]: "self", args[1]: "other"})
        body = stmts_to_optbool(fn.body, ex)
        out.append("def %s (self other : Ref) : Option Bool :=\n  %s\n" % (ln, body))
    # __hash__: hash of a tuple of fields
    fn = find_func(cls, "__hash__")
    body = strip_doc(fn.body)
    ok = False
    if len(body) == 1 and isinstance(body[0], ast.Return) and isinstance(body[0].value, ast.Call):
        call = body[0].value
        if isinstance(call.func, ast.Name) and call.func.id == "hash" and len(call.args) == 1 and isinstance(call.args[0], ast.Tuple):
            ex = RefExpr({fn.args.args[0].arg: "self"})
            elts = [ex.typed(e) for e in call.args[0].elts]
            out.append("def hashKey (self : Ref) := (%s)\n" % ", ".join(l for l, _ in elts))
            ok = True
    if not ok:
        raise TranslateError("__hash__: expected `return hash((...fields...))`")
    # which rich comparison methods are defined, and is the class decorated with total_ordering
    cmps = [n.name for n in cls.body if isinstance(n, ast.FunctionDef) and n.name in ("__eq__", "__ne__", "__lt__", "__le__", "__gt__", "__ge__")]
    deco = any((isinstance(d, ast.Name) and d.id == "total_ordering") or (isinstance(d, ast.Attribute) and d.attr == "total_ordering") for d in cls.decorator_list)
    out.append("def definedCmpOps : List String := [%s]" % ", ".join('"%s"' % c for c in sorted(cmps)))
    out.append("def totalOrderingDecorated : Bool := %s" % ("true" if deco else "false"))
    out.append("\nend MetadorModel.Gen.PluginRef\n")
    return "\n".join(out)


# =========================================================================== C08 / C15
# (appended by the C08/C15 builder; nothing above is changed)

def lean_str(s):
    """Lean `List Char` literal of an ASCII Python string."""
    if not all(32 <= ord(c) < 127 for c in s):
        raise TranslateError("non-ASCII string constant %r" % s)
    if s == "":
        return "([] : Str)"
    esc = {"'": "\\'", "\\": "\\\\"}
    return "[" + ", ".join("'%s'" % esc.get(c, c) for c in s) + "]"


def lean_char(s):
    if len(s) != 1:
        raise TranslateError("expected a one-character separator, got %r" % s)
    return lean_str(s)[1:-1]


def module_str_constants(tree):
    """Evaluate module-level `NAME[: Final[str]] = <str expr>` assignments (constants, +, f-strings)."""
    env = {}

    def ev(e):
        if isinstance(e, ast.Constant) and isinstance(e.value, str):
            return e.value
        if isinstance(e, ast.Name) and e.id in env:
            return env[e.id]
        if isinstance(e, ast.BinOp) and isinstance(e.op, ast.Add):
            return ev(e.left) + ev(e.right)
        if isinstance(e, ast.JoinedStr):
            out = ""
            for v in e.values:
                if isinstance(v, ast.Constant):
                    out += v.value
                elif isinstance(v, ast.FormattedValue) and v.conversion == -1 and v.format_spec is None:
                    out += ev(v.value)
                else:
                    raise TranslateError("unsupported f-string part")
            return out
        raise TranslateError("unsupported constant expression")

    for n in tree.body:
        tgt = val = None
        if isinstance(n, ast.AnnAssign) and isinstance(n.target, ast.Name) and n.value is not None:
            tgt, val = n.target.id, n.value
        elif isinstance(n, ast.Assign) and len(n.targets) == 1 and isinstance(n.targets[0], ast.Name):
            tgt, val = n.targets[0].id, n.value
        if tgt:
            try:
                env[tgt] = ev(val)
            except TranslateError:
                pass
    return env


class PathFn:
    """Translator for the small string functions of container/utils.py.
    Types: str, bool, int (Lean Int), nat, strs (list of str)."""

    def __init__(self, consts):
        self.consts = consts  # module constant name -> python value
        self.env = {}  # variable -> type

    def ty_of_ann(self, ann):
        if isinstance(ann, ast.Name) and ann.id in ("str", "bool"):
            return ann.id
        raise TranslateError("unsupported annotation %s" % ast.dump(ann)[:60])

    def expr(self, e, want=None):
        if isinstance(e, ast.Name):
            if e.id in self.env:
                return e.id, self.env[e.id]
            if e.id in self.consts:
                return e.id, "str"
            raise TranslateError("unknown name %s" % e.id)
        if isinstance(e, ast.Constant):
            if isinstance(e.value, bool):
                return ("true" if e.value else "false"), "bool"
            if isinstance(e.value, str):
                return lean_str(e.value), "str"
            if isinstance(e.value, int):
                if want == "nat":
                    if e.value < 0:
                        raise TranslateError("negative nat constant")
                    return "(%d : Nat)" % e.value, "nat"
                return "(%d : Int)" % e.value, "int"
            raise TranslateError("unsupported constant %r" % (e.value,))
        if isinstance(e, ast.List):
            parts = [self.expr(x) for x in e.elts]
            if any(t != "str" for _, t in parts):
                raise TranslateError("list literal of non-strings")
            return "[" + ", ".join(p for p, _ in parts) + "]", "strs"
        if isinstance(e, ast.JoinedStr):
            parts = []
            for v in e.values:
                if isinstance(v, ast.Constant):
                    parts.append(lean_str(v.value))
                elif isinstance(v, ast.FormattedValue) and v.conversion == -1 and v.format_spec is None:
                    x, t = self.expr(v.value)
                    if t != "str":
                        raise TranslateError("f-string of non-str")
                    parts.append(x)
                else:
                    raise TranslateError("unsupported f-string part")
            return "(" + " ++ ".join(parts) + ")", "str"
        if isinstance(e, ast.BinOp) and isinstance(e.op, ast.Add):
            l, lt = self.expr(e.left)
            r, rt = self.expr(e.right)
            if lt == rt == "str":
                return "(%s ++ %s)" % (l, r), "str"
            raise TranslateError("unsupported + on %s, %s" % (lt, rt))
        if isinstance(e, ast.Call):
            f = e.func
            if isinstance(f, ast.Name) and f.id == "len" and len(e.args) == 1:
                x, t = self.expr(e.args[0])
                if t in ("str", "strs"):
                    return "(%s).length" % x, "nat"
                raise TranslateError("len of %s" % t)
            if isinstance(f, ast.Attribute) and not e.keywords:
                meth = f.attr
                if meth == "join" and len(e.args) == 1 and isinstance(f.value, ast.Constant) and isinstance(f.value.value, str):
                    x, t = self.expr(e.args[0])
                    if t != "strs":
                        raise TranslateError("join of %s" % t)
                    return "(pyJoin %s %s)" % (lean_char(f.value.value), x), "str"
                recv, rt = self.expr(f.value)
                if rt == "str" and meth == "startswith" and len(e.args) == 1:
                    a, at = self.expr(e.args[0])
                    if at == "str":
                        return "(pyStartswith %s %s)" % (recv, a), "bool"
                if rt == "str" and meth == "find" and len(e.args) == 1:
                    a, at = self.expr(e.args[0])
                    if at == "str":
                        return "(pyFind %s %s)" % (recv, a), "int"
                if rt == "str" and meth == "split" and len(e.args) == 1 and isinstance(e.args[0], ast.Constant) and isinstance(e.args[0].value, str):
                    return "(pySplit %s %s)" % (recv, lean_char(e.args[0].value)), "strs"
            raise TranslateError("unsupported call %s" % ast.dump(e)[:100])
        if isinstance(e, ast.Subscript):
            base, bt = self.expr(e.value)
            idx = e.slice
            if bt == "strs" and isinstance(idx, ast.UnaryOp) and isinstance(idx.op, ast.USub) and isinstance(idx.operand, ast.Constant) and idx.operand.value == 1:
                return "(pyLast %s)" % base, "str"
            if bt == "strs" and isinstance(idx, ast.Constant) and idx.value == 0:
                return "(pyHead %s)" % base, "str"
            if bt == "str" and isinstance(idx, ast.Slice) and idx.upper is None and idx.step is None and idx.lower is not None:
                lo, lt = self.expr(idx.lower, want="nat")
                if lt == "nat":
                    return "(pyDrop %s %s)" % (lo, base), "str"
            raise TranslateError("unsupported subscript %s" % ast.dump(e)[:100])
        if isinstance(e, ast.Compare) and len(e.ops) == 1:
            op = e.ops[0]
            l, lt = self.expr(e.left)
            r, rt = self.expr(e.comparators[0], want=lt if lt in ("nat", "int") else None)
            if lt == "nat" and rt == "int" or lt == "int" and rt == "nat":
                raise TranslateError("int/nat comparison")
            if lt != rt:
                raise TranslateError("comparison of %s with %s" % (lt, rt))
            if isinstance(op, ast.Eq):
                return "(%s == %s)" % (l, r), "bool"
            if isinstance(op, ast.NotEq):
                return "(%s != %s)" % (l, r), "bool"
            sym = {ast.GtE: "≥", ast.Gt: ">", ast.LtE: "≤", ast.Lt: "<"}.get(type(op))
            if sym and lt in ("int", "nat"):
                return "(decide (%s %s %s))" % (l, sym, r), "bool"
            raise TranslateError("unsupported comparison")
        if isinstance(e, ast.BoolOp):
            parts = [self.expr(v) for v in e.values]
            if any(t != "bool" for _, t in parts):
                raise TranslateError("and/or on non-bool")
            sym = " && " if isinstance(e.op, ast.And) else " || "
            return "(" + sym.join(p for p, _ in parts) + ")", "bool"
        if isinstance(e, ast.UnaryOp) and isinstance(e.op, ast.Not):
            v, t = self.expr(e.operand)
            if t == "bool":
                return "(!%s)" % v, "bool"
        raise TranslateError("unsupported expression %s" % ast.dump(e)[:100])

    # ---- statements
    def simple(self, s, ind):
        """A non-branching statement -> Lean `let` line(s); returns the variable it (re)binds."""
        if isinstance(s, ast.Assign) and len(s.targets) == 1:
            t = s.targets[0]
            if isinstance(t, ast.Name):
                v, ty = self.expr(s.value)
                self.env[t.id] = ty
                return "%slet %s := %s\n" % (ind, t.id, v), t.id
            if isinstance(t, ast.Subscript) and isinstance(t.value, ast.Name) and self.env.get(t.value.id) == "strs":
                i = t.slice
                if isinstance(i, ast.UnaryOp) and isinstance(i.op, ast.USub) and isinstance(i.operand, ast.Constant) and i.operand.value == 1:
                    v, ty = self.expr(s.value)
                    if ty != "str":
                        raise TranslateError("list element of type %s" % ty)
                    return "%slet %s := pySetLast %s %s\n" % (ind, t.value.id, t.value.id, v), t.value.id
        if isinstance(s, ast.Expr) and isinstance(s.value, ast.Call) and isinstance(s.value.func, ast.Attribute) and isinstance(s.value.func.value, ast.Name):
            recv = s.value.func.value.id
            if self.env.get(recv) == "strs" and not s.value.keywords:
                if s.value.func.attr == "append" and len(s.value.args) == 1:
                    v, ty = self.expr(s.value.args[0])
                    if ty == "str":
                        return "%slet %s := %s ++ [%s]\n" % (ind, recv, recv, v), recv
                if s.value.func.attr == "pop" and not s.value.args:
                    return "%slet %s := pyPop %s\n" % (ind, recv, recv), recv
        raise TranslateError("unsupported statement %s" % ast.dump(s)[:100])

    def has_return(self, body):
        return any(isinstance(n, ast.Return) for s in body for n in ast.walk(s))

    def mutation_block(self, body, var, ind):
        """Statements without return that (re)bind only `var`; value: the final `var`."""
        out = ""
        for s in body:
            if isinstance(s, ast.If):
                out += self.mutation_if(s, var, ind)
            else:
                txt, v = self.simple(s, ind)
                if v != var:
                    raise TranslateError("branch binds %s, expected %s" % (v, var))
                out += txt
        return out + ind + var

    def bound_vars(self, body):
        vs = []
        for s in body:
            if isinstance(s, ast.If):
                vs += self.bound_vars(s.body) + self.bound_vars(s.orelse)
            elif isinstance(s, ast.Assign) and isinstance(s.targets[0], ast.Name):
                vs.append(s.targets[0].id)
            elif isinstance(s, ast.Assign) and isinstance(s.targets[0], ast.Subscript) and isinstance(s.targets[0].value, ast.Name):
                vs.append(s.targets[0].value.id)
            elif isinstance(s, ast.Expr) and isinstance(s.value, ast.Call) and isinstance(s.value.func, ast.Attribute) and isinstance(s.value.func.value, ast.Name):
                vs.append(s.value.func.value.id)
            else:
                raise TranslateError("unsupported statement in branch")
        return vs

    def mutation_if(self, s, var, ind):
        c, t = self.expr(s.test)
        if t != "bool":
            raise TranslateError("if on non-bool")
        a = self.mutation_block(s.body, var, ind + "    ")
        b = self.mutation_block(s.orelse, var, ind + "    ") if s.orelse else ind + "    " + var
        return "%slet %s :=\n%s  if %s then (\n%s)\n%s  else (\n%s)\n" % (ind, var, ind, c, a, ind, b)

    def block(self, body, ind="  "):
        body = strip_doc(body)
        if not body:
            raise TranslateError("function may fall off its end")
        s, rest = body[0], body[1:]
        if isinstance(s, ast.Return):
            if s.value is None:
                raise TranslateError("bare return")
            v, t = self.expr(s.value)
            self.ret_ty = t
            return ind + v
        if isinstance(s, ast.If):
            if self.has_return(s.body) or self.has_return(s.orelse):
                if not (s.body and isinstance(s.body[-1], ast.Return)):
                    raise TranslateError("unsupported early-return shape")
                c, t = self.expr(s.test)
                if t != "bool":
                    raise TranslateError("if on non-bool")
                saved = dict(self.env)
                a = self.block(s.body, ind + "  ")
                self.env = dict(saved)
                b = self.block(list(s.orelse) + list(rest), ind + "  ")
                return "%sif %s then\n%s\n%selse\n%s" % (ind, c, a, ind, b)
            vs = set(self.bound_vars(s.body) + self.bound_vars(s.orelse))
            if len(vs) != 1:
                raise TranslateError("if statement binds %s" % sorted(vs))
            return self.mutation_if(s, vs.pop(), ind) + self.block(rest, ind)
        txt, _ = self.simple(s, ind)
        return txt + self.block(rest, ind)


def gen_paths():
    tree = parse_source("src/metador_core/container/utils.py")
    consts = module_str_constants(tree)
    for need in ("METADOR_PREF", "METADOR_META_PREF"):
        if need not in consts:
            raise TranslateError("constant %s not found" % need)
    out = [
        "import MetadorModel.Model.Paths",
        "/-! GENERATED on every run by harness/translate.py from",
        "    src/metador_core/container/utils.py. Do not edit. -/",
        "namespace MetadorModel.Gen.Paths",
        "open MetadorModel.Paths (Str pyStartswith pyFind pySplit pyJoin pyLast pyHead pySetLast pyPop pyDrop)",
        "",
    ]
    for k in ("METADOR_PREF", "METADOR_META_PREF", "METADOR_TOC_PATH"):
        if k in consts:
            out.append("def %s : Str := %s" % (k, lean_str(consts[k])))
    out.append("")
    lty = {"str": "Str", "bool": "Bool"}
    for name in ("is_internal_path", "is_meta_base_path", "to_meta_base_path", "to_data_node_path"):
        fn = find_func(tree, name)
        tr_ = PathFn(consts)
        params = []
        a = fn.args
        if a.vararg or a.kwarg or a.kwonlyargs:
            raise TranslateError("%s: unsupported parameters" % name)
        defaults = [None] * (len(a.args) - len(a.defaults)) + list(a.defaults)
        for arg, d in zip(a.args, defaults):
            ty = tr_.ty_of_ann(arg.annotation)
            tr_.env[arg.arg] = ty
            params.append((arg.arg, ty, d))
        body = tr_.block(fn.body)
        rty = tr_.ty_of_ann(fn.returns)
        if rty != tr_.ret_ty:
            raise TranslateError("%s: returns %s, annotated %s" % (name, tr_.ret_ty, rty))
        out.append("def %s %s : %s :=\n%s\n" % (name, " ".join("(%s : %s)" % (p, lty[t]) for p, t, _ in params), lty[rty], body))
        if any(d is not None for _, _, d in params):
            req = [(p, t) for p, t, d in params if d is None]
            args = []
            for p, t, d in params:
                if d is None:
                    args.append(p)
                else:
                    v, vt = PathFn(consts).expr(d)
                    if vt != t:
                        raise TranslateError("default of %s has type %s" % (p, vt))
                    args.append(v)
            out.append("def %s_d %s : %s := %s %s\n" % (name, " ".join("(%s : %s)" % (p, lty[t]) for p, t in req), lty[rty], name, " ".join(args)))
    out.append("end MetadorModel.Gen.Paths\n")
    return "\n".join(out)
