"""Tiny Python-AST -> Lean translator for a whitelist of small pure functions.

Only the statement/expression shapes that occur in those functions are understood; any
other shape raises TranslateError, which the check reports as an undischarged obligation
(and then searches for a failing input)."""
import ast
import os
import textwrap

from . import envshim  # noqa: F401  (sets REPO)

REPO = envshim.REPO


class TranslateError(Exception):
    pass


def find_class(tree, name):
    for n in ast.walk(tree):
        if isinstance(n, ast.ClassDef) and n.name == name:
            return n
    raise TranslateError("class %s not found" % name)


def find_func(node, name):
    for n in node.body:
        if isinstance(n, (ast.FunctionDef,)) and n.name == name:
            return n
    raise TranslateError("function %s not found" % name)


def strip_doc(body):
    if body and isinstance(body[0], ast.Expr) and isinstance(getattr(body[0], "value", None), ast.Constant) and isinstance(body[0].value.value, str):
        return body[1:]
    return body


def parse_source(relpath):
    path = os.path.join(REPO, relpath)
    return ast.parse(open(path).read(), filename=path)


# --------------------------------------------------------------------------- PluginRef
class RefExpr:
    """Expression translator for methods of PluginRef(self, other)."""

    FIELDS = {"group": "str", "name": "str", "version": "ver"}

    def __init__(self, params):
        self.params = params  # python name -> lean name

    def typed(self, e):
        """returns (lean, type) with type in str|ver|nat|bool"""
        if isinstance(e, ast.Attribute) and isinstance(e.value, ast.Name) and e.value.id in self.params and e.attr in self.FIELDS:
            lean = "%s.%s" % (self.params[e.value.id], {"version": "ver"}.get(e.attr, e.attr))
            return lean, self.FIELDS[e.attr]
        if isinstance(e, ast.Subscript):
            base, ty = self.typed(e.value)
            idx = e.slice
            if ty == "ver" and isinstance(idx, ast.Constant) and idx.value in (0, 1, 2):
                return "(%s).%s" % (base, ["1", "2.1", "2.2"][idx.value]), "nat"
            raise TranslateError("unsupported subscript")
        if isinstance(e, ast.Constant) and e.value is True:
            return "true", "bool"
        if isinstance(e, ast.Constant) and e.value is False:
            return "false", "bool"
        if isinstance(e, ast.Compare) and len(e.ops) == 1:
            l, lt = self.typed(e.left)
            r, rt = self.typed(e.comparators[0])
            if lt != rt:
                raise TranslateError("comparison of %s with %s" % (lt, rt))
            op = e.ops[0]
            if isinstance(op, ast.Eq):
                return "(%s == %s)" % (l, r), "bool"
            if isinstance(op, ast.NotEq):
                return "(%s != %s)" % (l, r), "bool"
            if lt == "ver":
                if isinstance(op, ast.GtE):
                    return "(verGe %s %s)" % (l, r), "bool"
                raise TranslateError("unsupported version comparison %s" % type(op).__name__)
            sym = {ast.GtE: "≥", ast.Gt: ">", ast.LtE: "≤", ast.Lt: "<"}.get(type(op))
            if sym is None:
                raise TranslateError("unsupported comparison %s" % type(op).__name__)
            return "(decide (%s %s %s))" % (l, sym, r), "bool"
        if isinstance(e, ast.BoolOp):
            parts = [self.typed(v) for v in e.values]
            if any(t != "bool" for _, t in parts):
                raise TranslateError("non-boolean operand of and/or")
            sym = " && " if isinstance(e.op, ast.And) else " || "
            return "(" + sym.join(p for p, _ in parts) + ")", "bool"
        if isinstance(e, ast.UnaryOp) and isinstance(e.op, ast.Not):
            v, t = self.typed(e.operand)
            if t != "bool":
                raise TranslateError("not on non-bool")
            return "(!%s)" % v, "bool"
        raise TranslateError("unsupported expression: %s" % ast.dump(e)[:120])


def stmts_to_optbool(body, ex):
    """Sequence of `if c: return e` / `return e`; falling off the end is Python's None."""
    body = strip_doc(body)
    if not body:
        return "none"
    s = body[0]
    rest = body[1:]
    if isinstance(s, ast.Return):
        if s.value is None or (isinstance(s.value, ast.Constant) and s.value.value is None):
            return "none"
        v, t = ex.typed(s.value)
        if t != "bool":
            raise TranslateError("return of non-bool")
        return "some %s" % v
    if isinstance(s, ast.If):
        c, t = ex.typed(s.test)
        if t != "bool":
            raise TranslateError("if on non-bool")
        thn = stmts_to_optbool(s.body + rest, ex) if not _ends_in_return(s.body) else stmts_to_optbool(s.body, ex)
        els = stmts_to_optbool((s.orelse or []) + rest, ex)
        return "(if %s = true then %s else %s)" % (c, thn, els)
    raise TranslateError("unsupported statement: %s" % type(s).__name__)


def _ends_in_return(body):
    return bool(body) and isinstance(body[-1], ast.Return)


def gen_pluginref():
    tree = parse_source("src/metador_core/schema/plugins.py")
    cls = find_class(tree, "PluginRef")
    out = [
        "import MetadorModel.Model.Plugin",
        "/-! GENERATED on every run by harness/translate.py from",
        "    src/metador_core/schema/plugins.py (class PluginRef). Do not edit. -/",
        "namespace MetadorModel.Gen.PluginRef",
        "open MetadorModel.Plugin",
        "",
    ]
    for py, ln in [("__eq__", "eq"), ("__ge__", "ge"), ("supports", "supports")]:
        fn = find_func(cls, py)
        args = [a.arg for a in fn.args.args]
        if len(args) != 2:
            raise TranslateError("%s: expected (self, other)" % py)
        ex = RefExpr({args[0]: "self", args[1]: "other"})
        body = stmts_to_optbool(fn.body, ex)
        out.append("def %s (self other : Ref) : Option Bool :=\n  %s\n" % (ln, body))
    # __hash__: hash of a tuple of fields
    fn = find_func(cls, "__hash__")
    body = strip_doc(fn.body)
    ok = False
    if len(body) == 1 and isinstance(body[0], ast.Return) and isinstance(body[0].value, ast.Call):
        call = body[0].value
        if isinstance(call.func, ast.Name) and call.func.id == "hash" and len(call.args) == 1 and isinstance(call.args[0], ast.Tuple):
            ex = RefExpr({fn.args.args[0].arg: "self"})
            elts = [ex.typed(e) for e in call.args[0].elts]
            out.append("def hashKey (self : Ref) := (%s)\n" % ", ".join(l for l, _ in elts))
            ok = True
    if not ok:
        raise TranslateError("__hash__: expected `return hash((...fields...))`")
    # which rich comparison methods are defined, and is the class decorated with total_ordering
    cmps = [n.name for n in cls.body if isinstance(n, ast.FunctionDef) and n.name in ("__eq__", "__ne__", "__lt__", "__le__", "__gt__", "__ge__")]
    deco = any((isinstance(d, ast.Name) and d.id == "total_ordering") or (isinstance(d, ast.Attribute) and d.attr == "total_ordering") for d in cls.decorator_list)
    out.append("def definedCmpOps : List String := [%s]" % ", ".join('"%s"' % c for c in sorted(cmps)))
    out.append("def totalOrderingDecorated : Bool := %s" % ("true" if deco else "false"))
    out.append("\nend MetadorModel.Gen.PluginRef\n")
    return "\n".join(out)


# =========================================================================== C08 / C15
# (appended by the C08/C15 builder; nothing above is changed)

def lean_str(s):
    """Lean `List Char` literal of an ASCII Python string."""
    if not all(32 <= ord(c) < 127 for c in s):
        raise TranslateError("non-ASCII string constant %r" % s)
    if s == "":
        return "([] : Str)"
    esc = {"'": "\\'", "\\": "\\\\"}
    return "[" + ", ".join("'%s'" % esc.get(c, c) for c in s) + "]"


def lean_char(s):
    if len(s) != 1:
        raise TranslateError("expected a one-character separator, got %r" % s)
    return lean_str(s)[1:-1]


def module_str_constants(tree):
    """Evaluate module-level `NAME[: Final[str]] = <str expr>` assignments (constants, +, f-strings)."""
    env = {}

    def ev(e):
        if isinstance(e, ast.Constant) and isinstance(e.value, str):
            return e.value
        if isinstance(e, ast.Name) and e.id in env:
            return env[e.id]
        if isinstance(e, ast.BinOp) and isinstance(e.op, ast.Add):
            return ev(e.left) + ev(e.right)
        if isinstance(e, ast.JoinedStr):
            out = ""
            for v in e.values:
                if isinstance(v, ast.Constant):
                    out += v.value
                elif isinstance(v, ast.FormattedValue) and v.conversion == -1 and v.format_spec is None:
                    out += ev(v.value)
                else:
                    raise TranslateError("unsupported f-string part")
            return out
        raise TranslateError("unsupported constant expression")

    for n in tree.body:
        tgt = val = None
        if isinstance(n, ast.AnnAssign) and isinstance(n.target, ast.Name) and n.value is not None:
            tgt, val = n.target.id, n.value
        elif isinstance(n, ast.Assign) and len(n.targets) == 1 and isinstance(n.targets[0], ast.Name):
            tgt, val = n.targets[0].id, n.value
        if tgt:
            try:
                env[tgt] = ev(val)
            except TranslateError:
                pass
    return env


class PathFn:
    """Translator for the small string functions of container/utils.py.
    Types: str, bool, int (Lean Int), nat, strs (list of str)."""

    def __init__(self, consts):
        self.consts = consts  # module constant name -> python value
        self.env = {}  # variable -> type

    def ty_of_ann(self, ann):
        if isinstance(ann, ast.Name) and ann.id in ("str", "bool"):
            return ann.id
        raise TranslateError("unsupported annotation %s" % ast.dump(ann)[:60])

    def expr(self, e, want=None):
        if isinstance(e, ast.Name):
            if e.id in self.env:
                return e.id, self.env[e.id]
            if e.id in self.consts:
                return e.id, "str"
            raise TranslateError("unknown name %s" % e.id)
        if isinstance(e, ast.Constant):
            if isinstance(e.value, bool):
                return ("true" if e.value else "false"), "bool"
            if isinstance(e.value, str):
                return lean_str(e.value), "str"
            if isinstance(e.value, int):
                if want == "nat":
                    if e.value < 0:
                        raise TranslateError("negative nat constant")
                    return "(%d : Nat)" % e.value, "nat"
                return "(%d : Int)" % e.value, "int"
            raise TranslateError("unsupported constant %r" % (e.value,))
        if isinstance(e, ast.List):
            parts = [self.expr(x) for x in e.elts]
            if any(t != "str" for _, t in parts):
                raise TranslateError("list literal of non-strings")
            return "[" + ", ".join(p for p, _ in parts) + "]", "strs"
        if isinstance(e, ast.JoinedStr):
            parts = []
            for v in e.values:
                if isinstance(v, ast.Constant):
                    parts.append(lean_str(v.value))
                elif isinstance(v, ast.FormattedValue) and v.conversion == -1 and v.format_spec is None:
                    x, t = self.expr(v.value)
                    if t != "str":
                        raise TranslateError("f-string of non-str")
                    parts.append(x)
                else:
                    raise TranslateError("unsupported f-string part")
            return "(" + " ++ ".join(parts) + ")", "str"
        if isinstance(e, ast.BinOp) and isinstance(e.op, ast.Add):
            l, lt = self.expr(e.left)
            r, rt = self.expr(e.right)
            if lt == rt == "str":
                return "(%s ++ %s)" % (l, r), "str"
            raise TranslateError("unsupported + on %s, %s" % (lt, rt))
        if isinstance(e, ast.Call):
            f = e.func
            if isinstance(f, ast.Name) and f.id == "len" and len(e.args) == 1:
                x, t = self.expr(e.args[0])
                if t in ("str", "strs"):
                    return "(%s).length" % x, "nat"
                raise TranslateError("len of %s" % t)
            if isinstance(f, ast.Attribute) and not e.keywords:
                meth = f.attr
                if meth == "join" and len(e.args) == 1 and isinstance(f.value, ast.Constant) and isinstance(f.value.value, str):
                    x, t = self.expr(e.args[0])
                    if t != "strs":
                        raise TranslateError("join of %s" % t)
                    return "(pyJoin %s %s)" % (lean_char(f.value.value), x), "str"
                recv, rt = self.expr(f.value)
                if rt == "str" and meth == "startswith" and len(e.args) == 1:
                    a, at = self.expr(e.args[0])
                    if at == "str":
                        return "(pyStartswith %s %s)" % (recv, a), "bool"
                if rt == "str" and meth == "find" and len(e.args) == 1:
                    a, at = self.expr(e.args[0])
                    if at == "str":
                        return "(pyFind %s %s)" % (recv, a), "int"
                if rt == "str" and meth == "split" and len(e.args) == 1 and isinstance(e.args[0], ast.Constant) and isinstance(e.args[0].value, str):
                    return "(pySplit %s %s)" % (recv, lean_char(e.args[0].value)), "strs"
            raise TranslateError("unsupported call %s" % ast.dump(e)[:100])
        if isinstance(e, ast.Subscript):
            base, bt = self.expr(e.value)
            idx = e.slice
            if bt == "strs" and isinstance(idx, ast.UnaryOp) and isinstance(idx.op, ast.USub) and isinstance(idx.operand, ast.Constant) and idx.operand.value == 1:
                return "(pyLast %s)" % base, "str"
            if bt == "strs" and isinstance(idx, ast.Constant) and idx.value == 0:
                return "(pyHead %s)" % base, "str"
            if bt == "str" and isinstance(idx, ast.Slice) and idx.upper is None and idx.step is None and idx.lower is not None:
                lo, lt = self.expr(idx.lower, want="nat")
                if lt == "nat":
                    return "(pyDrop %s %s)" % (lo, base), "str"
            raise TranslateError("unsupported subscript %s" % ast.dump(e)[:100])
        if isinstance(e, ast.Compare) and len(e.ops) == 1:
            op = e.ops[0]
            l, lt = self.expr(e.left)
            r, rt = self.expr(e.comparators[0], want=lt if lt in ("nat", "int") else None)
            if lt == "nat" and rt == "int" or lt == "int" and rt == "nat":
                raise TranslateError("int/nat comparison")
            if lt != rt:
                raise TranslateError("comparison of %s with %s" % (lt, rt))
            if isinstance(op, ast.Eq):
                return "(%s == %s)" % (l, r), "bool"
            if isinstance(op, ast.NotEq):
                return "(%s != %s)" % (l, r), "bool"
            sym = {ast.GtE: "≥", ast.Gt: ">", ast.LtE: "≤", ast.Lt: "<"}.get(type(op))
            if sym and lt in ("int", "nat"):
                return "(decide (%s %s %s))" % (l, sym, r), "bool"
            raise TranslateError("unsupported comparison")
        if isinstance(e, ast.BoolOp):
            parts = [self.expr(v) for v in e.values]
            if any(t != "bool" for _, t in parts):
                raise TranslateError("and/or on non-bool")
            sym = " && " if isinstance(e.op, ast.And) else " || "
            return "(" + sym.join(p for p, _ in parts) + ")", "bool"
        if isinstance(e, ast.UnaryOp) and isinstance(e.op, ast.Not):
            v, t = self.expr(e.operand)
            if t == "bool":
                return "(!%s)" % v, "bool"
        raise TranslateError("unsupported expression %s" % ast.dump(e)[:100])

    # ---- statements
    def simple(self, s, ind):
        """A non-branching statement -> Lean `let` line(s); returns the variable it (re)binds."""
        if isinstance(s, ast.Assign) and len(s.targets) == 1:
            t = s.targets[0]
            if isinstance(t, ast.Name):
                v, ty = self.expr(s.value)
                self.env[t.id] = ty
                return "%slet %s := %s\n" % (ind, t.id, v), t.id
            if isinstance(t, ast.Subscript) and isinstance(t.value, ast.Name) and self.env.get(t.value.id) == "strs":
                i = t.slice
                if isinstance(i, ast.UnaryOp) and isinstance(i.op, ast.USub) and isinstance(i.operand, ast.Constant) and i.operand.value == 1:
                    v, ty = self.expr(s.value)
                    if ty != "str":
                        raise TranslateError("list element of type %s" % ty)
                    return "%slet %s := pySetLast %s %s\n" % (ind, t.value.id, t.value.id, v), t.value.id
        if isinstance(s, ast.Expr) and isinstance(s.value, ast.Call) and isinstance(s.value.func, ast.Attribute) and isinstance(s.value.func.value, ast.Name):
            recv = s.value.func.value.id
            if self.env.get(recv) == "strs" and not s.value.keywords:
                if s.value.func.attr == "append" and len(s.value.args) == 1:
                    v, ty = self.expr(s.value.args[0])
                    if ty == "str":
                        return "%slet %s := %s ++ [%s]\n" % (ind, recv, recv, v), recv
                if s.value.func.attr == "pop" and not s.value.args:
                    return "%slet %s := pyPop %s\n" % (ind, recv, recv), recv
        raise TranslateError("unsupported statement %s" % ast.dump(s)[:100])

    def has_return(self, body):
        return any(isinstance(n, ast.Return) for s in body for n in ast.walk(s))

    def mutation_block(self, body, var, ind):
        """Statements without return that (re)bind only `var`; value: the final `var`."""
        out = ""
        for s in body:
            if isinstance(s, ast.If):
                out += self.mutation_if(s, var, ind)
            else:
                txt, v = self.simple(s, ind)
                if v != var:
                    raise TranslateError("branch binds %s, expected %s" % (v, var))
                out += txt
        return out + ind + var

    def bound_vars(self, body):
        vs = []
        for s in body:
            if isinstance(s, ast.If):
                vs += self.bound_vars(s.body) + self.bound_vars(s.orelse)
            elif isinstance(s, ast.Assign) and isinstance(s.targets[0], ast.Name):
                vs.append(s.targets[0].id)
            elif isinstance(s, ast.Assign) and isinstance(s.targets[0], ast.Subscript) and isinstance(s.targets[0].value, ast.Name):
                vs.append(s.targets[0].value.id)
            elif isinstance(s, ast.Expr) and isinstance(s.value, ast.Call) and isinstance(s.value.func, ast.Attribute) and isinstance(s.value.func.value, ast.Name):
                vs.append(s.value.func.value.id)
            else:
                raise TranslateError("unsupported statement in branch")
        return vs

    def mutation_if(self, s, var, ind):
        c, t = self.expr(s.test)
        if t != "bool":
            raise TranslateError("if on non-bool")
        a = self.mutation_block(s.body, var, ind + "    ")
        b = self.mutation_block(s.orelse, var, ind + "    ") if s.orelse else ind + "    " + var
        return "%slet %s :=\n%s  if %s then (\n%s)\n%s  else (\n%s)\n" % (ind, var, ind, c, a, ind, b)

    def block(self, body, ind="  "):
        body = strip_doc(body)
        if not body:
            raise TranslateError("function may fall off its end")
        s, rest = body[0], body[1:]
        if isinstance(s, ast.Return):
            if s.value is None:
                raise TranslateError("bare return")
            v, t = self.expr(s.value)
            self.ret_ty = t
            return ind + v
        if isinstance(s, ast.If):
            if self.has_return(s.body) or self.has_return(s.orelse):
                if not (s.body and isinstance(s.body[-1], ast.Return)):
                    raise TranslateError("unsupported early-return shape")
                c, t = self.expr(s.test)
                if t != "bool":
                    raise TranslateError("if on non-bool")
                saved = dict(self.env)
                a = self.block(s.body, ind + "  ")
                self.env = dict(saved)
                b = self.block(list(s.orelse) + list(rest), ind + "  ")
                return "%sif %s then\n%s\n%selse\n%s" % (ind, c, a, ind, b)
            vs = set(self.bound_vars(s.body) + self.bound_vars(s.orelse))
            if len(vs) != 1:
                raise TranslateError("if statement binds %s" % sorted(vs))
            return self.mutation_if(s, vs.pop(), ind) + self.block(rest, ind)
        txt, _ = self.simple(s, ind)
        return txt + self.block(rest, ind)


def gen_paths():
    tree = parse_source("src/metador_core/container/utils.py")
    consts = module_str_constants(tree)
    for need in ("METADOR_PREF", "METADOR_META_PREF"):
        if need not in consts:
            raise TranslateError("constant %s not found" % need)
    out = [
        "import MetadorModel.Model.Paths",
        "/-! GENERATED on every run by harness/translate.py from",
        "    src/metador_core/container/utils.py. Do not edit. -/",
        "namespace MetadorModel.Gen.Paths",
        "open MetadorModel.Paths (Str pyStartswith pyFind pySplit pyJoin pyLast pyHead pySetLast pyPop pyDrop)",
        "",
    ]
    for k in ("METADOR_PREF", "METADOR_META_PREF", "METADOR_TOC_PATH"):
        if k in consts:
            out.append("def %s : Str := %s" % (k, lean_str(consts[k])))
    out.append("")
    lty = {"str": "Str", "bool": "Bool"}
    for name in ("is_internal_path", "is_meta_base_path", "to_meta_base_path", "to_data_node_path"):
        fn = find_func(tree, name)
        tr_ = PathFn(consts)
        params = []
        a = fn.args
        if a.vararg or a.kwarg or a.kwonlyargs:
            raise TranslateError("%s: unsupported parameters" % name)
        defaults = [None] * (len(a.args) - len(a.defaults)) + list(a.defaults)
        for arg, d in zip(a.args, defaults):
            ty = tr_.ty_of_ann(arg.annotation)
            tr_.env[arg.arg] = ty
            params.append((arg.arg, ty, d))
        body = tr_.block(fn.body)
        rty = tr_.ty_of_ann(fn.returns)
        if rty != tr_.ret_ty:
            raise TranslateError("%s: returns %s, annotated %s" % (name, tr_.ret_ty, rty))
        out.append("def %s %s : %s :=\n%s\n" % (name, " ".join("(%s : %s)" % (p, lty[t]) for p, t, _ in params), lty[rty], body))
        if any(d is not None for _, _, d in params):
            req = [(p, t) for p, t, d in params if d is None]
            args = []
            for p, t, d in params:
                if d is None:
                    args.append(p)
                else:
                    v, vt = PathFn(consts).expr(d)
                    if vt != t:
                        raise TranslateError("default of %s has type %s" % (p, vt))
                    args.append(v)
            out.append("def %s_d %s : %s := %s %s\n" % (name, " ".join("(%s : %s)" % (p, lty[t]) for p, t in req), lty[rty], name, " ".join(args)))
    out.append("end MetadorModel.Gen.Paths\n")
    return "\n".join(out)


# --------------------------------------------------------------------------- wrapper method table
PATHY_PARAMS = {"name", "path", "source", "dest", "src", "dst"}
LISTING_METHODS = {"items", "values", "keys", "__iter__", "__len__", "__reversed__", "visit", "visititems"}
MAPPING_DUNDERS = ["__getitem__", "__setitem__", "__delitem__", "__contains__", "__iter__", "__len__", "__reversed__"]
WRAPPER_CLASSES = ["MetadorNode", "MetadorDataset", "MetadorGroup", "MetadorContainer"]


def _is_wrapped_attr(e, selfname):
    """`self.__wrapped__`"""
    return isinstance(e, ast.Attribute) and e.attr == "__wrapped__" and isinstance(e.value, ast.Name) and e.value.id == selfname


def _self_call(e, selfname, names):
    """`self.<m>(...)` with m in names -> m"""
    if isinstance(e, ast.Call) and isinstance(e.func, ast.Attribute) and isinstance(e.func.value, ast.Name) and e.func.value.id == selfname and e.func.attr in names:
        return e.func.attr
    return None


class MethodScan:
    """Linear scan of a method body (source order, branches flattened, conditions remembered).

    Events: ("guard_path", var, cond) ("guard_acl", flag, cond) ("raw", what, [arg exprs], cond)
            ("assign", var, expr, cond) ("wrap",) ("filter",) ("delegate", method, [arg exprs])
            ("wrapcall", rawmethod, ro_flag, [arg exprs])   # _wrap_method("x", ...)(self, a, ...)
    cond = tuple of (kind, var) for enclosing `if isinstance(var, str)` tests, or ("other", None)."""

    def __init__(self, selfname, local_funcs=()):
        self.s = selfname
        self.events = []
        self.local_funcs = set(local_funcs)
        self.returns_raw_attr = False

    def scan_body(self, body, cond=()):
        for st in body:
            self.scan_stmt(st, cond)

    def scan_stmt(self, st, cond):
        if isinstance(st, ast.FunctionDef):
            self.local_funcs.add(st.name)
            inner = MethodScan(self.s, self.local_funcs)
            inner.scan_body(st.body, cond + (("callback", st.name),))
            self.events += inner.events
            return
        if isinstance(st, ast.If):
            self.scan_expr(st.test, cond)
            c = ("other", None)
            t = st.test
            if isinstance(t, ast.Call) and isinstance(t.func, ast.Name) and t.func.id == "isinstance" and len(t.args) == 2 and isinstance(t.args[0], ast.Name):
                if isinstance(t.args[1], ast.Name) and t.args[1].id == "str":
                    c = ("isstr", t.args[0].id)
            if isinstance(t, ast.UnaryOp) and isinstance(t.op, ast.Not) and isinstance(t.operand, ast.Name):
                c = ("notflag", t.operand.id)
            self.scan_body(st.body, cond + (c,))
            self.scan_body(st.orelse, cond + (("other", None),))
            return
        if isinstance(st, (ast.For, ast.While, ast.With, ast.Try)):
            for f in ("iter", "test"):
                if hasattr(st, f):
                    self.scan_expr(getattr(st, f), cond)
            for f in ("items",):
                for it in getattr(st, f, []):
                    self.scan_expr(it.context_expr, cond)
            c2 = cond + (("other", None),)
            for f in ("body", "orelse", "finalbody"):
                self.scan_body(getattr(st, f, []) or [], c2)
            for h in getattr(st, "handlers", []) or []:
                self.scan_body(h.body, c2)
            return
        if isinstance(st, (ast.Assign, ast.AnnAssign)):
            val = st.value
            tg = st.targets[0] if isinstance(st, ast.Assign) else st.target
            if val is not None:
                self.scan_expr(val, cond)
                if isinstance(tg, ast.Name):
                    self.events.append(("assign", tg.id, val, cond))
                elif isinstance(tg, ast.Subscript):
                    self.scan_expr(tg, cond, store=True)
            return
        if isinstance(st, ast.Delete):
            for t in st.targets:
                self.scan_expr(t, cond, store=True)
            return
        if isinstance(st, ast.Return):
            if st.value is not None:
                self.scan_expr(st.value, cond)
            return
        if isinstance(st, ast.Expr):
            self.scan_expr(st.value, cond)
            return
        if isinstance(st, (ast.Raise, ast.Assert)):
            for f in ("exc", "test", "msg"):
                v = getattr(st, f, None)
                if v is not None:
                    self.scan_expr(v, cond)
            return
        if isinstance(st, (ast.Pass, ast.Continue, ast.Break)):
            return
        raise TranslateError("method scan: unsupported statement %s" % type(st).__name__)

    def scan_expr(self, e, cond, store=False):
        """post-order over sub-expressions, emitting events in evaluation order (approximately)."""
        if e is None:
            return
        s = self.s
        # self._guard_path(x)
        if _self_call(e, s, {"_guard_path"}) and len(e.args) == 1:
            a = e.args[0]
            self.events.append(("guard_path", a.id if isinstance(a, ast.Name) else None, cond))
            return
        if _self_call(e, s, {"_guard_acl"}) and e.args:
            a = e.args[0]
            flag = a.attr if isinstance(a, ast.Attribute) else None
            self.events.append(("guard_acl", flag, cond))
            return
        if _self_call(e, s, {"_wrap_if_node"}):
            for a in e.args:
                self.scan_expr(a, cond)
            self.events.append(("wrap",))
            return
        # M.is_internal_path(...)
        if isinstance(e, ast.Call) and isinstance(e.func, ast.Attribute) and e.func.attr == "is_internal_path":
            self.events.append(("filter",))
            return
        # _wrap_method("x", ...)(self, a, b)
        if isinstance(e, ast.Call) and isinstance(e.func, ast.Call) and isinstance(e.func.func, ast.Name) and e.func.func.id == "_wrap_method":
            inner = e.func
            raw_m = inner.args[0].value if inner.args and isinstance(inner.args[0], ast.Constant) else None
            ro = False
            for kw in inner.keywords:
                if kw.arg == "is_read_only_method" and isinstance(kw.value, ast.Constant):
                    ro = bool(kw.value.value)
            if len(inner.args) > 1 and isinstance(inner.args[1], ast.Constant):
                ro = bool(inner.args[1].value)
            self.events.append(("wrapcall", raw_m, ro, list(e.args[1:]), cond))
            return
        # getattr(self.__wrapped__, m)(args)
        if isinstance(e, ast.Call) and isinstance(e.func, ast.Call) and isinstance(e.func.func, ast.Name) and e.func.func.id == "getattr" and e.func.args and _is_wrapped_attr(e.func.args[0], s):
            self.events.append(("raw", "getattr-call", list(e.args), cond))
            return
        # self.__wrapped__.m(args)
        if isinstance(e, ast.Call) and isinstance(e.func, ast.Attribute) and _is_wrapped_attr(e.func.value, s):
            for a in e.args:
                self.scan_expr(a, cond)
            self.events.append(("raw", e.func.attr, list(e.args), cond))
            return
        # self.__wrapped__[x]
        if isinstance(e, ast.Subscript) and _is_wrapped_attr(e.value, s):
            self.events.append(("raw", "[]", [e.slice], cond))
            return
        # x in self.__wrapped__
        if isinstance(e, ast.Compare) and len(e.ops) == 1 and isinstance(e.ops[0], (ast.In, ast.NotIn)) and _is_wrapped_attr(e.comparators[0], s):
            self.events.append(("raw", "in", [e.left], cond))
            return
        # self.__wrapped__.attr / getattr(self.__wrapped__, key)
        if isinstance(e, ast.Attribute) and _is_wrapped_attr(e.value, s):
            self.events.append(("raw", "." + e.attr, [], cond))
            return
        if isinstance(e, ast.Call) and isinstance(e.func, ast.Name) and e.func.id in ("getattr", "hasattr") and e.args and _is_wrapped_attr(e.args[0], s):
            self.events.append(("raw", e.func.id, [], cond))
            return
        if _is_wrapped_attr(e, s):
            self.events.append(("raw", "object", [], cond))
            return
        # delegation to guarded methods of self
        if isinstance(e, ast.Subscript) and isinstance(e.value, ast.Name) and e.value.id == s:
            self.events.append(("delegate", "__delitem__" if store and isinstance(e.ctx, ast.Del) else ("__setitem__" if store else "__getitem__"), [e.slice], cond))
            return
        if isinstance(e, ast.Call) and isinstance(e.func, ast.Attribute) and isinstance(e.func.value, ast.Name) and e.func.value.id == s:
            for a in e.args:
                self.scan_expr(a, cond)
            self.events.append(("delegate", e.func.attr, list(e.args), cond))
            return
        if isinstance(e, ast.Compare) and len(e.ops) == 1 and isinstance(e.ops[0], ast.In) and isinstance(e.comparators[0], ast.Name) and e.comparators[0].id == s:
            self.events.append(("delegate", "__contains__", [e.left], cond))
            return
        if isinstance(e, ast.Lambda):
            self.scan_expr(e.body, cond + (("callback", "<lambda>"),))
            return
        for ch in ast.iter_child_nodes(e):
            if isinstance(ch, ast.expr):
                self.scan_expr(ch, cond)
            elif isinstance(ch, ast.comprehension):
                self.scan_expr(ch.iter, cond)
                for i in ch.ifs:
                    self.scan_expr(i, cond)
            elif isinstance(ch, ast.keyword):
                self.scan_expr(ch.value, cond)


def _unconditional(cond):
    return all(k == "callback" for k, _ in cond) if cond else True


def analyse_method(cls, name, params, events, local_funcs, selfname):
    """Derive the table entry from the scanned events."""
    first_raw = next((i for i, ev in enumerate(events) if ev[0] in ("raw", "wrapcall")), None)
    # expand wrapcall: guard_path(arg0) ; [guard_acl] ; raw(arg0 ...) ; wrap
    ex = []
    for ev in events:
        if ev[0] == "wrapcall":
            _, raw_m, ro, args, cond = ev
            a0 = args[0] if args else None
            ex.append(("guard_path", a0.id if isinstance(a0, ast.Name) else None, cond))
            if not ro:
                ex.append(("guard_acl", "read_only", cond))
            ex.append(("raw", raw_m, args[:1], cond))
            ex.append(("wrap",))
        else:
            ex.append(ev)
    events = ex
    assigns = {}
    for i, ev in enumerate(events):
        if ev[0] == "assign":
            assigns.setdefault(ev[1], []).append((i, ev[2], ev[3]))

    def guard_index(var, before, cond_of_use):
        """index of a guard on var that covers a use at position `before`."""
        last_assign = max([i for i, _, _ in assigns.get(var, []) if i < before], default=-1)
        for i, ev in enumerate(events[:before]):
            if ev[0] == "guard_path" and ev[1] == var and i > last_assign:
                c = ev[2]
                if _unconditional(c):
                    return i
                # guard under `if isinstance(var, str)`: covers the string case of var
                if all(k == "callback" or (k == "isstr" and v == var) for k, v in c):
                    return i
        return None

    def classify(e, at, cond, depth=0):
        if isinstance(e, ast.Constant) or e is None:
            return "const"
        if isinstance(e, ast.Starred):
            return "rest"
        if isinstance(e, ast.Name):
            v = e.id
            if v in local_funcs:
                return "callback"
            if guard_index(v, at, cond) is not None:
                return "guarded"
            defs = [(i, x, c) for i, x, c in assigns.get(v, []) if i < at]
            if not defs or depth > 6:
                return "unguarded" if v in params or not defs else "unguarded"
            cls_ = [classify(x, i, c, depth + 1) for i, x, c in defs]
            if all(c in ("guarded", "internal", "node", "const") for c in cls_):
                return "internal" if "internal" in cls_ else ("node" if "node" in cls_ else "guarded")
            return "unguarded"
        if isinstance(e, ast.IfExp):
            cs = [classify(e.body, at, cond, depth + 1), classify(e.orelse, at, cond, depth + 1)]
            if all(c in ("guarded", "internal", "node", "const") for c in cs):
                return "internal" if "internal" in cs else ("node" if "node" in cs else "guarded")
            return "unguarded"
        if isinstance(e, ast.Attribute):
            if e.attr == "_base_dir":
                return "internal"
            if e.attr == "__wrapped__":
                return "node"  # raw object behind a wrapper object, not a path
            if e.attr == "name" and isinstance(e.value, ast.Name):
                # name of a node obtained through a guarded lookup of self
                ds = assigns.get(e.value.id, [])
                if ds and all(isinstance(x, ast.Subscript) and isinstance(x.value, ast.Name) and x.value.id == selfname for _, x, _ in ds):
                    return "node"
            if isinstance(e.value, ast.Name) and e.value.id == "M":
                return "internal"
        return "unguarded"

    raw_uses = []
    touches = False
    for i, ev in enumerate(events):
        if ev[0] == "raw":
            touches = True
            for a in ev[2]:
                c = classify(a, i, ev[3])
                if c in ("const", "rest"):
                    continue
                nm = a.id if isinstance(a, ast.Name) else ast.unparse(a)[:40]
                raw_uses.append((nm, c))
    guarded_vars = []
    for ev in events:
        if ev[0] == "guard_path" and ev[1] and ev[1] not in guarded_vars:
            guarded_vars.append(ev[1])
    user_paths = list(guarded_vars)
    for nm, c in raw_uses:
        if c == "unguarded" and nm not in user_paths:
            user_paths.append(nm)
    guarded_ok = []
    first_raw = next((i for i, ev in enumerate(events) if ev[0] == "raw"), len(events))
    for v in user_paths:
        uses = [i for i, ev in enumerate(events) if ev[0] == "raw" and any(isinstance(a, ast.Name) and a.id == v for a in ev[2])]
        at = min(uses) if uses else first_raw
        if guard_index(v, at, ()) is not None and not any(nm == v and c == "unguarded" for nm, c in raw_uses):
            guarded_ok.append(v)
    # guard sequence before the first raw access
    seq = []
    for ev in events[:first_raw]:
        if ev[0] == "guard_path" and ev[1] in user_paths:
            g = "path:%d" % user_paths.index(ev[1])
            if g not in seq:
                seq.append(g)
        if ev[0] == "guard_acl" and ev[1] == "read_only" and _unconditional(ev[2]) and "ro" not in seq:
            seq.append("ro")
    ro_guard = "ro" in seq
    # only guards that really cover (see guarded_ok) count in the shape
    seq = [g for g in seq if g == "ro" or user_paths[int(g[5:])] in guarded_ok]
    # path-named parameters must be covered
    uncovered = []
    for p in params:
        if p not in PATHY_PARAMS:
            continue
        if p in guarded_ok:
            continue
        flows = any(isinstance(x, ast.Name) and x.id == p and v in guarded_ok for v, ds in assigns.items() for _, x, _ in ds)
        used_raw = any(nm == p for nm, _ in raw_uses)
        only_delegated = not used_raw and any(ev[0] == "delegate" and any(isinstance(a, ast.Name) and a.id == p for a in ev[2]) for ev in events)
        mentioned = used_raw or flows or only_delegated or any(ev[0] == "guard_path" and ev[1] == p for ev in events)
        if used_raw or not (flows or only_delegated or not mentioned):
            uncovered.append(p)
    delegates = [ev[1] for ev in events if ev[0] == "delegate"]
    filters = any(ev[0] == "filter" for ev in events)
    return dict(
        cls=cls, name=name, params=list(params), userPaths=user_paths, guarded=guarded_ok, uncoveredParams=uncovered,
        rawUses=raw_uses, touchesRaw=touches, roGuard=ro_guard, wraps=any(ev[0] == "wrap" for ev in events),
        listing=name in LISTING_METHODS, filters=filters, delegates=delegates, guardSeq=seq,
        pathParams=[p for p in params if p in PATHY_PARAMS],
    )


def _fn_params(fn):
    a = fn.args
    ps = [x.arg for x in a.args[1:]]
    if a.vararg:
        ps.append("*" + a.vararg.arg)
    ps += [x.arg for x in a.kwonlyargs]
    if a.kwarg:
        ps.append("**" + a.kwarg.arg)
    return ps


def _raise_if_shape(body):
    """Top-level statements of a guard function as strings: `raise-if <test>` for
    `if <test>: …; raise …` without else, `other <stmt class>` for anything else (an early
    `return`, an assignment, a loop …)."""
    out = []
    for st in strip_doc(body):
        if isinstance(st, ast.If) and not st.orelse and st.body and isinstance(st.body[-1], ast.Raise) \
                and all(isinstance(x, (ast.Assign, ast.AnnAssign, ast.Raise)) for x in st.body):
            out.append("raise-if " + ast.unparse(st.test))
        else:
            out.append("other " + type(st).__name__)
    return out


def value_guard_info(tree, classes):
    """What `MetadorGroup.__setitem__` refuses by the class of the value (the leading
    `if <isinstance test of the value against a module-level list of classes>: raise`
    statements), and the statements of `MetadorNode._guard_path` (the guard every wrapped method
    relies on)."""
    class_lists = {}
    for n in tree.body:
        tgt = val = None
        if isinstance(n, ast.Assign) and len(n.targets) == 1 and isinstance(n.targets[0], ast.Name):
            tgt, val = n.targets[0].id, n.value
        elif isinstance(n, ast.AnnAssign) and isinstance(n.target, ast.Name) and n.value is not None:
            tgt, val = n.target.id, n.value
        if tgt and isinstance(val, (ast.List, ast.Tuple, ast.Set)) and val.elts and all(isinstance(e, (ast.Attribute, ast.Name)) for e in val.elts):
            class_lists[tgt] = [e.attr if isinstance(e, ast.Attribute) else e.id for e in val.elts]
    si = find_func(classes["MetadorGroup"], "__setitem__")
    refused, tested = [], []
    if si is not None:
        params = [a.arg for a in si.args.args]
        for st in strip_doc(si.body):
            # leading refusals only: the first statement of another shape ends the prefix
            if not (isinstance(st, ast.If) and not st.orelse and st.body and isinstance(st.body[-1], ast.Raise)):
                break
            names = {x.id for x in ast.walk(st.test) if isinstance(x, ast.Name)}
            lists = [nm for nm in class_lists if nm in names]
            if not ("isinstance" in names and len(params) >= 3 and params[2] in names and lists):
                break
            for nm in lists:
                tested.append(nm)
                refused += [c for c in class_lists[nm] if c not in refused]
    gp = find_func(classes["MetadorNode"], "_guard_path")
    if gp is None:
        raise TranslateError("MetadorNode._guard_path not found")
    return dict(refTypes=refused, testedLists=tested, setitemValueTestFirst=bool(tested), guardPathStmts=_raise_if_shape(gp.body),
                guardPathParams=[a.arg for a in gp.args.args[1:]])


def group_method_table():
    """Method table of the wrapper classes of container/wrappers.py (ast) + pass-through
    dunder methods of wrapt.ObjectProxy that MetadorGroup does not override (inspect)."""
    tree = parse_source("src/metador_core/container/wrappers.py")
    classes = {c.name: c for c in tree.body if isinstance(c, ast.ClassDef)}
    for c in WRAPPER_CLASSES:
        if c not in classes:
            raise TranslateError("class %s not found" % c)
    # the _wrap_method factory
    wm = find_func(tree, "_wrap_method")
    inner = [n for n in wm.body if isinstance(n, ast.FunctionDef)]
    if len(inner) != 1:
        raise TranslateError("_wrap_method: expected one inner function")
    inner = inner[0]
    wm_self = inner.args.args[0].arg
    wm_scan = MethodScan(wm_self)
    wm_scan.scan_body(strip_doc(inner.body))
    methods = []
    getattr_info = {}
    supported = []
    for cname in WRAPPER_CLASSES:
        c = classes[cname]
        for n in c.body:
            if isinstance(n, ast.FunctionDef):
                is_prop = any(isinstance(d, ast.Name) and d.id == "property" for d in n.decorator_list)
                if n.name.startswith("_") and not (n.name.startswith("__") and n.name.endswith("__")):
                    continue  # private helpers
                if n.name in ("__init__", "__dir__", "__repr__"):
                    continue
                if any(isinstance(d, ast.Name) and d.id == "staticmethod" for d in n.decorator_list):
                    continue
                selfname = n.args.args[0].arg
                sc = MethodScan(selfname)
                sc.scan_body(strip_doc(n.body))
                m = analyse_method(cname, n.name, _fn_params(n), sc.events, sc.local_funcs, selfname)
                m["property"] = is_prop
                methods.append(m)
                if n.name == "__getattr__":
                    rets = [x for x in ast.walk(n) if isinstance(x, ast.Return)]
                    getattr_info[cname] = dict(
                        returns=len(rets),
                        raw_returns=sum(1 for r in rets if r.value is not None and any(_is_wrapped_attr(x, selfname) for x in ast.walk(r.value))),
                        super_returns=sum(1 for r in rets if r.value is not None and any(isinstance(x, ast.Name) and x.id == "super" for x in ast.walk(r.value))),
                    )
            elif isinstance(n, ast.Assign) and len(n.targets) == 1 and isinstance(n.targets[0], ast.Name):
                v = n.value
                if isinstance(v, ast.Call) and isinstance(v.func, ast.Name) and v.func.id == "_wrap_method":
                    ro = False
                    for kw in v.keywords:
                        if kw.arg == "is_read_only_method" and isinstance(kw.value, ast.Constant):
                            ro = bool(kw.value.value)
                    if len(v.args) > 1 and isinstance(v.args[1], ast.Constant):
                        ro = bool(v.args[1].value)
                    # instantiate the factory body: drop the ro guard when is_read_only_method
                    evs = []
                    for ev in wm_scan.events:
                        if ev[0] == "guard_acl" and any(k == "notflag" for k, _ in ev[2]):
                            if ro:
                                continue
                            ev = ("guard_acl", ev[1], ())
                        evs.append(ev)
                    m = analyse_method(cname, n.targets[0].id, _fn_params(inner), evs, set(), wm_self)
                    m["property"] = False
                    m["rawMethod"] = v.args[0].value if v.args and isinstance(v.args[0], ast.Constant) else None
                    methods.append(m)
                elif n.targets[0].id == "_self_SUPPORTED" and isinstance(v, (ast.Set, ast.List, ast.Tuple)):
                    supported = sorted(x.value for x in v.elts if isinstance(x, ast.Constant))
            elif isinstance(n, ast.AnnAssign) and isinstance(n.target, ast.Name) and n.target.id == "_self_SUPPORTED" and isinstance(n.value, (ast.Set, ast.List, ast.Tuple)):
                supported = sorted(x.value for x in n.value.elts if isinstance(x, ast.Constant))
    # protocol (util/types.py)
    ttree = parse_source("src/metador_core/util/types.py")
    proto = {}
    for cname in ("H5NodeLike", "H5DatasetLike", "H5GroupLike", "H5FileLike"):
        c = find_class(ttree, cname)
        proto[cname] = [(n.name, _fn_params(n)) for n in c.body if isinstance(n, ast.FunctionDef)]
    group_defined = {m["name"] for m in methods if m["cls"] in ("MetadorNode", "MetadorGroup")}
    # ObjectProxy pass-through dunders not overridden by MetadorNode/MetadorGroup
    import wrapt
    passthrough = sorted(d for d in MAPPING_DUNDERS if d in vars(wrapt.ObjectProxy) and d not in group_defined)
    gi = getattr_info.get("MetadorGroup")
    group_refuses = bool(gi) and gi["returns"] == 0
    ci = getattr_info.get("MetadorContainer")
    container_only_supported = (ci is None) or (ci["raw_returns"] <= 1 and ci["returns"] == ci["raw_returns"] + ci["super_returns"])
    return dict(methods=methods, protocol=proto, passthrough=passthrough, groupGetattrRefuses=group_refuses,
                containerSupported=supported, containerGetattrWhitelisted=bool(container_only_supported),
                valueGuards=value_guard_info(tree, classes))


def _ls(l):
    return "[" + ", ".join('"%s"' % x for x in l) + "]"


def _lsq(l):
    """Lean list of string literals with escaping (source text)"""
    return "[" + ", ".join('"%s"' % x.replace("\\", "\\\\").replace('"', '\\"') for x in l) + "]"


def gen_group_methods():
    t = group_method_table()
    out = [
        "import MetadorModel.Model.Paths",
        "/-! GENERATED on every run by harness/translate.py from",
        "    src/metador_core/container/wrappers.py and util/types.py (ast) and wrapt.ObjectProxy (inspect).",
        "    Do not edit. -/",
        "namespace MetadorModel.Gen",
        "open MetadorModel.Paths",
        "",
        "def groupMethods : List GMethod := [",
    ]
    rows = []
    for m in t["methods"]:
        if m["cls"] == "MetadorDataset":
            continue
        guards = ", ".join(".readOnly" if g == "ro" else ".path %s" % g[5:] for g in m["guardSeq"])
        n = len(m["userPaths"])
        rows.append(
            "  { cls := \"%s\", name := \"%s\", params := %s, userPaths := %s, guarded := %s, uncoveredParams := %s,\n"
            "    rawUses := [%s], touchesRaw := %s, wraps := %s, listing := %s, filters := %s, delegates := %s,\n"
            "    shape := { name := \"%s\", nargs := %d, pathArgs := %s, guards := [%s] } }" % (
                m["cls"], m["name"], _ls(m["params"]), _ls(m["userPaths"]), _ls(m["guarded"]), _ls(m["uncoveredParams"]),
                ", ".join('("%s", "%s")' % (a.replace('"', "'"), c) for a, c in m["rawUses"]),
                "true" if m["touchesRaw"] else "false", "true" if m["wraps"] else "false", "true" if m["listing"] else "false",
                "true" if m["filters"] else "false", _ls(sorted(set(m["delegates"]))),
                m["name"], n, "[" + ", ".join(str(i) for i in range(n)) + "]", guards))
    out.append(",\n".join(rows))
    out.append("]\n")
    pm = []
    for cname in ("H5GroupLike",):
        for name, params in t["protocol"][cname]:
            pm.append((name, [p for p in params if p in PATHY_PARAMS]))
    out.append("/-- methods of the `H5GroupLike` protocol (util/types.py) with their path-named parameters -/")
    out.append("def protocolMethods : List (String × List String) := [%s]\n" % ", ".join('("%s", %s)' % (n, _ls(p)) for n, p in pm))
    out.append("/-- mapping-protocol dunder methods that `wrapt.ObjectProxy` forwards to `__wrapped__` and\n    neither `MetadorNode` nor `MetadorGroup` overrides -/")
    out.append("def passthrough : List String := %s\n" % _ls(t["passthrough"]))
    out.append("/-- `MetadorGroup.__getattr__` has no `return`: every unknown attribute raises -/")
    out.append("def groupGetattrRefuses : Bool := %s\n" % ("true" if t["groupGetattrRefuses"] else "false"))
    out.append("/-- `MetadorContainer.__getattr__` forwards exactly the names in `_self_SUPPORTED` -/")
    out.append("def containerGetattrWhitelisted : Bool := %s" % ("true" if t["containerGetattrWhitelisted"] else "false"))
    out.append("def containerSupported : List String := %s\n" % _ls(t["containerSupported"]))
    vg = t["valueGuards"]
    out.append("/-- classes in %s: values of these classes are refused by the leading\n    `if <isinstance test>: raise` statements of `MetadorGroup.__setitem__` -/" % ", ".join("`%s`" % x for x in vg["testedLists"]))
    out.append("def refusedValueTypes : List String := %s\n" % _ls(vg["refTypes"]))
    out.append("/-- `MetadorGroup.__setitem__` starts with such a test -/")
    out.append("def setitemValueTestFirst : Bool := %s\n" % ("true" if vg["setitemValueTestFirst"] else "false"))
    out.append("/-- top-level statements of `MetadorNode._guard_path(self, %s)` -/" % ", ".join(vg["guardPathParams"]))
    out.append("def guardPathStmts : List String := %s\n" % _lsq(vg["guardPathStmts"]))
    out.append("end MetadorModel.Gen\n")
    return "\n".join(out)


# --------------------------------------------------------------------------- ACL table (C15)
_FLAG = {"read_only": ".ro", "local_only": ".loc", "skel_only": ".skel"}


def _acl_flag_of(e, owner=("acl", "_self_acl")):
    """`self.acl[NodeAcl.X]` / `self._self_acl[NodeAcl.X]` -> X"""
    if isinstance(e, ast.Subscript) and isinstance(e.value, ast.Attribute) and e.value.attr in owner and isinstance(e.slice, ast.Attribute):
        return e.slice.attr
    return None


def _guard_acl_calls(fn, receiver_attr=None):
    """[(flag, stmt_index, conditional?)] for `<self>[.<receiver_attr>]._guard_acl(NodeAcl.X, …)`
    in the top-level statements of fn (after the docstring)."""
    out = []
    body = strip_doc(fn.body)
    for i, st in enumerate(body):
        for n in ast.walk(st):
            if isinstance(n, ast.Call) and isinstance(n.func, ast.Attribute) and n.func.attr == "_guard_acl" and n.args and isinstance(n.args[0], ast.Attribute):
                recv = n.func.value
                ok = isinstance(recv, ast.Name) if receiver_attr is None else (isinstance(recv, ast.Attribute) and recv.attr == receiver_attr)
                if ok:
                    # condition: top-level statement itself, or inside `if self.acl[NodeAcl.X]:` for the same X
                    cond = None
                    if isinstance(st, ast.If):
                        cond = _acl_flag_of(st.test)
                    direct = isinstance(st, ast.Expr) and st.value is n
                    out.append((n.args[0].attr, i, direct or cond == n.args[0].attr))
    return out


def find_last_func(node, name):
    """last definition wins (earlier ones may be @overload stubs)"""
    fs = [n for n in node.body if isinstance(n, ast.FunctionDef) and n.name == name]
    if not fs:
        raise TranslateError("function %s not found" % name)
    return fs[-1]


def acl_table():
    wtree = parse_source("src/metador_core/container/wrappers.py")
    itree = parse_source("src/metador_core/container/interface.py")
    gm = group_method_table()
    by = {}
    for m in gm["methods"]:
        by.setdefault(m["name"], m)
        if m["cls"] == "MetadorGroup":
            by[m["name"]] = m
    node = find_class(wtree, "MetadorNode")
    dset = find_class(wtree, "MetadorDataset")
    wam = find_class(wtree, "WrappedAttributeManager")
    meta = find_class(itree, "MetadorMeta")
    toc = find_class(itree, "MetadorContainerTOC")

    # 1. which navigation methods wrap their results
    def wraps_of(name, depth=0):
        m = by.get(name)
        if m is None or depth > 4:
            return False
        if m["wraps"]:
            return True
        ds = [d for d in m["delegates"] if d in LISTING_METHODS]
        return bool(ds) and not m["touchesRaw"] and all(wraps_of(d, depth + 1) for d in ds)
    wraps = [(n, wraps_of(n)) for n in ["__getitem__", "get", "items", "values", "keys", "__iter__", "visititems",
                                        "require_group", "require_dataset", "create_group", "create_dataset"]]
    q = find_func(toc, "query")
    q_src = ast.unparse(q)
    q_wraps = ".visititems(" in q_src and "_raw" not in q_src and "__wrapped__" not in q_src
    wraps.append(("query", q_wraps))
    # parent
    par = find_func(node, "parent")
    rets = [n for n in ast.walk(par) if isinstance(n, ast.Return) and n.value is not None]
    parent_wraps = bool(rets)
    parent_mode = ".lpAsIs"
    for r in rets:
        v = r.value
        if isinstance(v, ast.Name):  # `return lp`
            parent_wraps = parent_wraps and True
            parent_mode = ".lpAsIs"
            continue
        if not (isinstance(v, ast.Call) and isinstance(v.func, ast.Name) and v.func.id == "MetadorGroup"):
            parent_wraps = False
            continue
        star = [k.value for k in v.keywords if k.arg is None]
        if len(star) != 1:
            parent_wraps = False
            continue
        sv = star[0]
        if isinstance(sv, ast.Name):  # `flags = {…}` … `**flags`
            defs = [a.value for a in ast.walk(par) if isinstance(a, ast.Assign) and len(a.targets) == 1 and isinstance(a.targets[0], ast.Name) and a.targets[0].id == sv.id]
            if len(defs) == 1:
                sv = defs[0]
        if isinstance(sv, ast.Call) and isinstance(sv.func, ast.Attribute) and sv.func.attr == "_child_node_kwargs":
            continue
        if isinstance(sv, ast.DictComp) and len(sv.generators) == 1 and sv.generators[0].ifs:
            cond = sv.generators[0].ifs[0]
            src = ast.unparse(cond)
            if isinstance(cond, ast.BoolOp) and isinstance(cond.op, ast.Or) and "lp.acl[" in src and "self.acl[" in src and isinstance(sv.value, ast.Constant) and sv.value.value is True:
                parent_mode = ".lpUnion"
                continue
        parent_wraps = False
    if any(isinstance(r.value, ast.Name) for r in rets):
        parent_mode = ".lpAsIs"
    wraps.append(("parent", parent_wraps))

    # 2. _child_node_kwargs passes on all set flags and remembers self iff local_only
    ck = find_func(node, "_child_node_kwargs")
    inherit_all = False
    body = strip_doc(ck.body)
    if len(body) == 1 and isinstance(body[0], ast.Return) and isinstance(body[0].value, ast.Dict):
        d = body[0].value
        has_lp = has_flags = False
        for k, v in zip(d.keys, d.values):
            if isinstance(k, ast.Constant) and k.value == "local_parent":
                has_lp = isinstance(v, ast.IfExp) and isinstance(v.body, ast.Name) and v.body.id == "self" and _acl_flag_of(v.test) == "local_only" and isinstance(v.orelse, ast.Constant) and v.orelse.value is None
            if k is None and isinstance(v, ast.DictComp):
                g = v.generators[0]
                src_iter = ast.unparse(g.iter)
                has_flags = src_iter == "self.acl.items()" and len(g.ifs) == 1 and isinstance(g.ifs[0], ast.Name) and ast.unparse(v.key).endswith(".name") and isinstance(v.value, ast.Name) and v.value.id == g.ifs[0].id
        inherit_all = has_lp and has_flags
    # _wrap_if_node hands these kwargs to both wrapper classes
    wi = find_func(node, "_wrap_if_node")
    calls = [n for n in ast.walk(wi) if isinstance(n, ast.Call) and isinstance(n.func, ast.Name) and n.func.id in ("MetadorGroup", "MetadorDataset")]
    wi_ok = len(calls) == 2 and all(any(k.arg is None and isinstance(k.value, ast.Call) and isinstance(k.value.func, ast.Attribute) and k.value.func.attr == "_child_node_kwargs" for k in c.keywords) for c in calls)
    inherit_all = inherit_all and wi_ok

    # 3. restrict only sets
    rs = find_func(node, "restrict")
    restrict_ors = False
    for n in ast.walk(rs):
        if isinstance(n, ast.Call) and isinstance(n.func, ast.Attribute) and n.func.attr == "update" and ast.unparse(n.func.value) == "self._self_flags" and len(n.args) == 1 and isinstance(n.args[0], ast.DictComp):
            dc = n.args[0]
            restrict_ors = isinstance(dc.value, ast.Constant) and dc.value.value is True and len(dc.generators[0].ifs) == 1
    for n in ast.walk(rs):
        if isinstance(n, (ast.Assign, ast.AugAssign)):
            tg = n.targets[0] if isinstance(n, ast.Assign) else n.target
            if ast.unparse(tg).startswith("self._self_flags"):
                restrict_ors = False
        if isinstance(n, ast.Call) and isinstance(n.func, ast.Attribute) and n.func.attr in ("pop", "clear", "__setitem__", "__delitem__") and ast.unparse(n.func.value) == "self._self_flags":
            restrict_ors = False
        if isinstance(n, ast.Delete):
            restrict_ors = False

    # 4. _guard_path refuses absolute paths under local_only
    gp = find_func(node, "_guard_path")
    abs_guard = False
    for n in strip_doc(gp.body):
        if isinstance(n, ast.If) and isinstance(n.test, ast.BoolOp) and isinstance(n.test.op, ast.And) and any(isinstance(x, ast.Raise) for x in n.body):
            fl = [_acl_flag_of(v) for v in n.test.values]
            cmp_ = [v for v in n.test.values if isinstance(v, ast.Compare)]
            if "local_only" in fl and len(n.test.values) == 2 and cmp_ and ast.unparse(cmp_[0]) in ("path[0] == '/'", "path.startswith('/')"):
                abs_guard = True

    # 5. operation guards
    op_guards = []
    for name in ["__setitem__", "__delitem__", "create_group", "require_group", "create_dataset", "require_dataset", "move", "copy"]:
        m = by.get(name)
        op_guards.append((name, [".ro"] if (m and m["roGuard"]) else []))
    for name in ["__setitem__", "__getitem__"]:
        fn = find_func(dset, name)
        gs = _guard_acl_calls(fn)
        first_raw = next((i for i, st in enumerate(strip_doc(fn.body)) if any(_is_wrapped_attr(x, fn.args.args[0].arg) for x in ast.walk(st))), 10 ** 6)
        op_guards.append(("dataset." + name, [_FLAG[f] for f, i, c in gs if c and i < first_raw and f in _FLAG]))
    for name in ["parent", "file"]:
        fn = find_func(node, name)
        gs = _guard_acl_calls(fn)
        # every guard here sits under `if self.acl[NodeAcl.local_only]` (the no-local-parent branch)
        flags = []
        for n in ast.walk(fn):
            if isinstance(n, ast.If) and _acl_flag_of(n.test):
                fl = _acl_flag_of(n.test)
                for c in ast.walk(n):
                    if isinstance(c, ast.Call) and isinstance(c.func, ast.Attribute) and c.func.attr == "_guard_acl" and c.args and isinstance(c.args[0], ast.Attribute) and c.args[0].attr == fl:
                        if _FLAG[fl] not in flags:
                            flags.append(_FLAG[fl])
        op_guards.append((name, flags))
    for name in ["__setitem__", "__delitem__", "__getitem__"]:
        fn = find_func(wam, name)
        flags = []
        body = strip_doc(fn.body)
        for i, st in enumerate(body):
            if isinstance(st, ast.If) and _acl_flag_of(st.test) and any(isinstance(c, ast.Call) and isinstance(c.func, ast.Attribute) and c.func.attr == "_raise_illegal_op" for c in ast.walk(st)):
                if all(not any(_is_wrapped_attr(x, "self") for x in ast.walk(b)) for b in body[:i]):
                    flags.append(_FLAG[_acl_flag_of(st.test)])
        op_guards.append(("attrs." + name, flags))
    meta_guards = {}
    for name in ["values", "items", "get", "__setitem__", "__delitem__"]:
        fn = find_last_func(meta, name)
        gs = _guard_acl_calls(fn, receiver_attr="_node")
        meta_guards[name] = [_FLAG[f] for f, i, c in gs if c and i == 0 and f in _FLAG]
    gi = find_last_func(meta, "__getitem__")
    gi_src = ast.unparse(gi)
    meta_guards["__getitem__"] = list(meta_guards["get"]) if "self.get(" in gi_src and "_objs" not in gi_src and "__wrapped__" not in gi_src else [
        _FLAG[f] for f, i, c in _guard_acl_calls(gi, receiver_attr="_node") if c and i == 0]
    for name in ["__setitem__", "__delitem__", "get", "__getitem__", "values", "items"]:
        op_guards.append(("meta." + name, meta_guards[name]))

    # 6. attrs property / whitelist
    at = find_func(node, "attrs")
    wrapped_for = []
    for st in strip_doc(at.body):
        if isinstance(st, ast.If) and any(isinstance(r, ast.Return) and isinstance(r.value, ast.Call) and isinstance(r.value.func, ast.Name) and r.value.func.id == "WrappedAttributeManager" for r in st.body):
            vals = st.test.values if isinstance(st.test, ast.BoolOp) and isinstance(st.test.op, ast.Or) else [st.test]
            wrapped_for = [_FLAG[_acl_flag_of(v)] for v in vals if _acl_flag_of(v) in _FLAG]
    whitelist = []
    for st in wam.body:
        tgt = st.target if isinstance(st, ast.AnnAssign) else (st.targets[0] if isinstance(st, ast.Assign) else None)
        if isinstance(tgt, ast.Name) and tgt.id == "_self_acl_whitelist" and isinstance(st.value, ast.Dict):
            for k, v in zip(st.value.keys, st.value.values):
                if isinstance(k, ast.Attribute) and k.attr in _FLAG and isinstance(v, (ast.Set, ast.List, ast.Tuple)):
                    whitelist.append((_FLAG[k.attr], sorted(x.value for x in v.elts if isinstance(x, ast.Constant))))
    # the whitelist is consulted by __getattr__ (raise when the name is not allowed)
    ga = find_func(wam, "__getattr__")
    ga_src = ast.unparse(ga)
    if not ("_self_allowed" in ga_src and "_raise_illegal_op" in ga_src):
        whitelist = []
    # 7. a property that raises UnsupportedOperationError (an AttributeError) falls back to
    #    __getattr__: MetadorDataset.__getattr__ must not forward names of wrapper attributes
    dga = find_func(dset, "__getattr__")
    dga_body = strip_doc(dga.body)
    ds_refuses_own = False
    for st in dga_body:
        if isinstance(st, ast.If) and any(isinstance(x, ast.Raise) for x in st.body):
            src = ast.unparse(st.test)
            if "hasattr(type(self), key)" in src or "hasattr(self.__class__, key)" in src or "key in dir(type(self))" in src:
                ds_refuses_own = True
        if any(_is_wrapped_attr(x, "self") for x in ast.walk(st)) and isinstance(st, ast.Return):
            break
    return dict(wraps=wraps, childKwargsInheritAll=inherit_all, restrictOrs=restrict_ors, parentMode=parent_mode,
                absGuardLocal=abs_guard, opGuards=op_guards, attrsWrappedFor=wrapped_for, attrWhitelist=whitelist,
                datasetGetattrRefusesOwn=ds_refuses_own)


def gen_acl_table():
    t = acl_table()
    b = lambda x: "true" if x else "false"  # noqa: E731
    out = [
        "import MetadorModel.Model.Acl",
        "/-! GENERATED on every run by harness/translate.py from",
        "    src/metador_core/container/wrappers.py and interface.py. Do not edit. -/",
        "namespace MetadorModel.Gen",
        "open MetadorModel.Acl",
        "",
        "def aclTable : AclTable where",
        "  wraps := [%s]" % ", ".join('("%s", %s)' % (n, b(w)) for n, w in t["wraps"]),
        "  childKwargsInheritAll := %s" % b(t["childKwargsInheritAll"]),
        "  restrictOrs := %s" % b(t["restrictOrs"]),
        "  parentMode := %s" % t["parentMode"],
        "  absGuardLocal := %s" % b(t["absGuardLocal"]),
        "  opGuards := [%s]" % ",\n    ".join('("%s", [%s])' % (n, ", ".join(fl)) for n, fl in t["opGuards"]),
        "  attrsWrappedFor := [%s]" % ", ".join(t["attrsWrappedFor"]),
        "  attrWhitelist := [%s]" % ", ".join("(%s, %s)" % (f, _ls(l)) for f, l in t["attrWhitelist"]),
        "  propertyFallbackRefused := %s" % b(t["datasetGetattrRefusesOwn"]),
        "",
        "end MetadorModel.Gen",
        "",
    ]
    return "\n".join(out)


# --------------------------------------------------------------------------- marked-base loop
def gen_metaclass():
    """`PluginMetaclassMixin.__new__`: the loop over `bases` that refuses marked base classes,
    as a recursive Lean function over the list of "is marked" flags."""
    tree = parse_source("src/metador_core/plugin/metaclass.py")
    cls = find_class(tree, "PluginMetaclassMixin")
    fn = find_func(cls, "__new__")
    args = [a.arg for a in fn.args.args]
    if len(args) != 4:
        raise TranslateError("__new__: expected (cls, name, bases, dct)")
    bases_name = args[2]
    loops = [n for n in strip_doc(fn.body) if isinstance(n, ast.For)]
    loop = None
    for n in loops:
        if isinstance(n.iter, ast.Name) and n.iter.id == bases_name and isinstance(n.target, ast.Name):
            loop = n
            break
    if loop is None:
        raise TranslateError("no `for b in bases` loop in __new__")
    # nothing before the loop may return/raise or rebind `bases`
    for n in strip_doc(fn.body):
        if n is loop:
            break
        for sub in ast.walk(n):
            if isinstance(sub, (ast.Return, ast.Raise)) or (isinstance(sub, ast.Name) and sub.id == bases_name and isinstance(sub.ctx, ast.Store)):
                raise TranslateError("statement before the base loop alters control flow or `bases`")
    if loop.orelse:
        raise TranslateError("for-else not supported")
    var = loop.target.id

    def test(e):
        """-> 'm' or '!m' for `UndefVersion._is_marked(b)` / `not ...`"""
        if isinstance(e, ast.UnaryOp) and isinstance(e.op, ast.Not):
            t = test(e.operand)
            return t[1:] if t.startswith("!") else "!" + t
        if (isinstance(e, ast.Call) and isinstance(e.func, ast.Attribute) and e.func.attr == "_is_marked"
                and isinstance(e.func.value, ast.Name) and e.func.value.id == "UndefVersion"
                and len(e.args) == 1 and isinstance(e.args[0], ast.Name) and e.args[0].id == var):
            return "m"
        raise TranslateError("unsupported loop condition: %s" % ast.dump(e)[:100])

    def flow(body):
        """how a block ends: 'raise' | 'break' | 'continue' | None (falls through); inner
        statements must not contain other control flow"""
        last = body[-1]
        for n in body[:-1]:
            for sub in ast.walk(n):
                if isinstance(sub, (ast.Raise, ast.Break, ast.Continue, ast.Return)):
                    raise TranslateError("nested control flow in loop body")
        if isinstance(last, ast.Raise):
            return "raise"
        if isinstance(last, ast.Break):
            return "break"
        if isinstance(last, ast.Continue):
            return "continue"
        for sub in ast.walk(last):
            if isinstance(sub, (ast.Raise, ast.Break, ast.Continue, ast.Return)):
                raise TranslateError("nested control flow in loop body")
        return None

    def seq(stmts):
        if not stmts:
            return "newRaises rest"
        s0, rest = stmts[0], stmts[1:]
        if isinstance(s0, ast.If):
            t = test(s0.test)
            fl = flow(s0.body)
            if s0.orelse:
                raise TranslateError("else branch in loop body")
            k = seq(rest)
            if fl is None:
                return k
            then = {"raise": "true", "break": "false", "continue": "newRaises rest"}[fl]
            return "(if %s = true then %s else %s)" % (t, then, k)
        if isinstance(s0, ast.Raise):
            return "true"
        if isinstance(s0, ast.Break):
            return "false"
        if isinstance(s0, ast.Continue):
            return "newRaises rest"
        for sub in ast.walk(s0):
            if isinstance(sub, (ast.Raise, ast.Break, ast.Continue, ast.Return)):
                raise TranslateError("nested control flow in loop body")
        return seq(rest)

    body = seq(loop.body)
    return "\n".join([
        "/-! GENERATED on every run by harness/translate.py from",
        "    src/metador_core/plugin/metaclass.py (PluginMetaclassMixin.__new__, loop over bases). Do not edit. -/",
        "namespace MetadorModel.Gen.Metaclass",
        "",
        "/-- does class creation raise, given for each base (in order) whether it is marked by `UndefVersion` -/",
        "def newRaises : List Bool → Bool",
        "  | [] => false",
        "  | m :: rest => %s" % body,
        "",
        "end MetadorModel.Gen.Metaclass",
        "",
    ])
