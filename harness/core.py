"""Check context: obligations, correspondence, oracle hits, verdict, evidence, replays."""
import collections
import hashlib
import json
import os
import random
import sys
import time

from . import lean, pool

HERE = os.path.dirname(os.path.abspath(__file__))
VERIF = os.path.dirname(HERE)
EVID = os.path.join(VERIF, "evidence")
REPLAYS = os.path.join(VERIF, "replays")
CORPUS = os.path.join(VERIF, "corpus")
FINDINGS = os.path.join(VERIF, "known_findings.json")

TRUSTED_BASE_COMMON = [
    "Lean 4.33.0 kernel (leanchecker re-check in the thorough tier)",
    "axioms per theorem audited with #print axioms, allowed: propext, Classical.choice, Quot.sound",
    "hand-written executable Lean models (what the theorems are about)",
    "correspondence harness (generators, canonicalisation, diff) tying the models to /repo on every run",
    "harness/envshim.py: nine numpy-2 aliases needed to import pint 0.21 (no metador code changed)",
]


def canon(obj):
    return json.dumps(obj, sort_keys=True, separators=(",", ":"), default=str)


def digest(obj):
    return hashlib.sha256(canon(obj).encode()).hexdigest()[:16]


class Ctx:
    def __init__(self, pid, tier, seed):
        self.pid = pid
        self.tier = tier
        self.quick = tier == "quick"
        self.seed = seed
        self.rng = random.Random((seed * 1000003) ^ int(hashlib.sha256(pid.encode()).hexdigest()[:8], 16))
        self.t0 = time.time()
        self.obligations = []  # dict(name, kind, ok, detail)
        self.evaluations = 0
        self.steps = 0
        self.seen = set()
        self.nontrivial = set()
        self.dist = collections.Counter()
        self.samples = []
        self.disagreements = []  # dict(group, case, impl, model, where)
        self.oracle_hits = []  # dict(case, detail, sig)
        self.notes = []
        self.exhaustive = False
        self.exhaustive_spaces = []
        self.trusted = list(TRUSTED_BASE_COMMON)
        self.assumptions = []
        self.checker_cmd = ""
        self.rule = ""
        self.groups = collections.OrderedDict()  # correspondence group -> stats
        self.search_log = []

    # ---------------------------------------------------------------- obligations
    def obligation(self, name, kind, ok, detail=""):
        self.obligations.append(dict(name=name, kind=kind, ok=bool(ok), detail=detail))

    def failed_obligations(self):
        return [o for o in self.obligations if not o["ok"]]

    # ---------------------------------------------------------------- statistics
    def note_case(self, case, tags=(), steps=1):
        self.evaluations += 1
        self.steps += steps
        key = digest(case)
        for t in tags:
            self.dist["tag:" + t] += 1
        if key not in self.seen:
            self.seen.add(key)
            if tags:
                self.nontrivial.add(key)
        if len(self.samples) < 4 or (tags and len(self.samples) < 8 and self.rng.random() < 0.02):
            self.samples.append(case)

    # ---------------------------------------------------------------- correspondence
    def correspond(
        self,
        group,
        module,
        cases,
        lines,
        driver,
        impl="impl",
        compare=None,
        tags=None,
        timeout=30.0,
        timeout_is_violation=True,
        workers=None,
    ):
        """Run the real code (`module.impl(case)` in worker processes) and the Lean model
        (driver fed with `lines(case)`) on the same cases and diff their outputs.

        impl returns {"out": [str...], "oracle": [detail...]?, "tags": [str...]?}.
        Returns list of (case, impl_result, model_out)."""
        st = self.groups.setdefault(group, collections.Counter())
        res = pool.run(module, impl, cases, timeout=timeout, workers=workers)
        mlines = [lines(c) for c in cases]
        mout = lean.run_driver(driver, mlines)
        ret = []
        for c, r, ml, mo in zip(cases, res, mlines, mout):
            st["cases"] += 1
            st["steps"] += len(ml)
            if r is None:
                raise lean.InfraError("no result from worker")
            if "timeout" in r:
                # re-confirm on its own worker with three times the (CPU-time) limit before calling
                # it non-termination: a slow case must never become a violation
                r2 = pool.run_one(module, impl, c, timeout=3.0 * timeout)
                if r2 is not None and "timeout" not in r2:
                    st["slow_cases_rerun"] += 1
                    r = r2
            if "timeout" in r:
                st["timeouts"] += 1
                if timeout_is_violation:
                    self.oracle_hit(c, {"kind": "does-not-terminate", "limit_s": timeout}, group=group)
                self.note_case(c, ["timeout"], len(ml))
                ret.append((c, r, mo))
                continue
            if "crash" in r:
                if crash_in_real_code(r):
                    # an exception escaped from the real code where the (unchanged) code raises none:
                    # the operation now fails -> report it with the case as failing input
                    st["unexpected_exceptions"] += 1
                    self.oracle_hit(c, {"kind": "unexpected-exception", "error": r["crash"][:300], "where": crash_site(r)}, group=group)
                    self.note_case(c, ["unexpected-exception"], len(ml))
                    ret.append((c, r, mo))
                    continue
                raise lean.InfraError("harness crashed on case %s: %s\n%s" % (canon(c)[:300], r["crash"], r.get("tb", "")))
            ir = r["ok"]
            for d in ir.get("oracle", []) or []:
                self.oracle_hit(c, d, group=group)
            if "bad-op" in mo:
                raise lean.InfraError("model driver %s answered bad-op for %r" % (driver, ml[mo.index("bad-op")]))
            diff = (compare or default_compare)(c, ir, mo)
            if diff is not None:
                st["disagreements"] += 1
                self.disagreements.append(dict(group=group, case=c, where=diff, impl=ir.get("out"), model=mo))
            tg = list(ir.get("tags", []) or [])
            if tags:
                tg += list(tags(c, ir, mo))
            self.note_case(c, tg, len(ml))
            ret.append((c, ir, mo))
        return ret

    def oracle_hit(self, case, detail, group=""):
        self.oracle_hits.append(dict(case=case, detail=detail, group=group))

    # ---------------------------------------------------------------- verdict
    def finish(self, prop):
        violations = 0
        lines = []
        known = load_findings()
        reported = set()
        # 1. oracle hits (real failing inputs)
        pre_seen = set()
        known_sigs = set(k.get("signature") for k in known if k.get("kind") == "known" and k.get("property") == self.pid)

        def _pre(hit):
            return prop.signature(hit["case"], hit["detail"]) if hasattr(prop, "signature") else digest([hit["case"], hit["detail"]])

        # hits whose (pre-shrink) signature is not a recorded known finding come first and are never
        # crowded out by known ones: known signatures do not count against the cap of six
        hits = [(h, _pre(h)) for h in self.oracle_hits[:20000]]
        hits.sort(key=lambda hp: hp[1] in known_sigs)
        n_new = 0
        for hit, pre in hits:
            case, detail = hit["case"], hit["detail"]
            if pre in pre_seen or (pre not in known_sigs and n_new >= 6):
                continue  # one representative per (pre-shrink) signature, at most six unknown ones
            pre_seen.add(pre)
            if pre not in known_sigs:
                n_new += 1
            if hasattr(prop, "shrink"):
                try:
                    case, detail = prop.shrink(self, case, detail)
                except lean.InfraError:
                    raise
                except Exception as e:  # shrinking must never hide a violation
                    self.notes.append("shrink failed: %r" % (e,))
            sig = prop.signature(case, detail) if hasattr(prop, "signature") else digest([case, detail])
            if sig in reported:
                continue
            reported.add(sig)
            kf = [k for k in known if k.get("kind") == "known" and k.get("property") == self.pid and k.get("signature") == sig]
            if kf:
                lines.append("KNOWN-FINDING: property=%s %s" % (self.pid, kf[0].get("what", sig)))
                continue
            path = self.write_replay(dict(kind="failing-input", property=self.pid, signature=sig, case=case, detail=detail, group=hit.get("group")))
            lines.append("VIOLATION property=%s replay=%s" % (self.pid, path))
            violations += 1
        # known findings that are checked by a dedicated probe print their line even when
        # the generic generators did not hit them (see prop.known_probe)
        # 2. broken proof obligations / broken correspondence without a failing input
        broken = self.failed_obligations()
        if violations == 0 and (broken or self.disagreements):
            found = None
            if hasattr(prop, "search"):
                found = prop.search(self)
            if found:
                case, detail = found
                sig = prop.signature(case, detail) if hasattr(prop, "signature") else digest([case, detail])
                kf = [k for k in known if k.get("kind") == "known" and k.get("property") == self.pid and k.get("signature") == sig]
                if not kf:
                    path = self.write_replay(dict(kind="failing-input", property=self.pid, signature=sig, case=case, detail=detail, found_by="search after broken obligation/correspondence"))
                    lines.append("VIOLATION property=%s replay=%s" % (self.pid, path))
                    violations += 1
            if violations == 0:
                rep = dict(
                    kind="no-failing-input-found",
                    property=self.pid,
                    broken_obligations=broken,
                    first_disagreements=self.disagreements[:5],
                    n_disagreements=len(self.disagreements),
                    search=self.search_log,
                )
                path = self.write_replay(rep)
                lines.append("VIOLATION property=%s replay=%s no-failing-input-found" % (self.pid, path))
                violations += 1
        self.write_evidence(violations)
        for n in self.notes:
            print("note: " + n)
        for o in self.failed_obligations():
            print("obligation not discharged: %s (%s)\n%s" % (o["name"], o["kind"], o["detail"][:1500]))
        for d in self.disagreements[:3]:
            print("model/implementation disagreement [%s] at %s\n  case=%s" % (d["group"], d["where"], canon(d["case"])[:600]))
        for l in lines:
            print(l)
        print("%s %s tier=%s seed=%d: obligations %d/%d, evaluations=%d distinct_nontrivial=%d disagreements=%d oracle_hits=%d wall=%.1fs" % (
            "FAIL" if violations else "PASS", self.pid, self.tier, self.seed,
            sum(1 for o in self.obligations if o["ok"]), len(self.obligations), self.evaluations,
            len(self.nontrivial), len(self.disagreements), len(self.oracle_hits), time.time() - self.t0))
        return 1 if violations else 0

    def write_replay(self, obj):
        os.makedirs(REPLAYS, exist_ok=True)
        name = "%s-%s.json" % (self.pid, digest(obj))
        path = os.path.join(REPLAYS, name)
        obj = dict(obj)
        obj["seed"] = self.seed
        obj["tier"] = self.tier
        with open(path, "w") as f:
            json.dump(obj, f, indent=1, sort_keys=True, default=str)
        return os.path.relpath(path, VERIF)

    def write_evidence(self, violations):
        os.makedirs(EVID, exist_ok=True)
        cov = dict(
            obligations=len(self.obligations),
            discharged=sum(1 for o in self.obligations if o["ok"]),
            obligation_list=[dict(name=o["name"], kind=o["kind"], ok=o["ok"]) for o in self.obligations],
            checker_cmd=self.checker_cmd or "cd lean && lake build <modules> && lake env lean Audit.lean (#print axioms)",
            trusted_base=self.trusted,
            evaluations=self.evaluations,
            steps=self.steps,
            distinct_cases=len(self.seen),
            distinct_nontrivial=len(self.nontrivial),
            rule=self.rule,
            samples=self.samples[:8],
            input_distribution=dict(sorted(self.dist.items())),
            correspondence={g: dict(s) for g, s in self.groups.items()},
            disagreements=len(self.disagreements),
            oracle_hits=len(self.oracle_hits),
            exhaustive=bool(self.exhaustive),
            exhaustive_spaces=self.exhaustive_spaces,
            notes=self.notes,
        )
        ev = dict(
            property_id=self.pid,
            tier=self.tier,
            seed=self.seed,
            level="proof",
            coverage=cov,
            assumptions=self.assumptions,
            wall_s=round(time.time() - self.t0, 2),
            violations=violations,
        )
        with open(os.path.join(EVID, "%s.json" % self.pid), "w") as f:
            json.dump(ev, f, indent=1, sort_keys=True, default=str)


def _tb_files(r):
    import re
    return re.findall(r'File "([^"]+)", line (\d+), in (\S+)', r.get("tb", "") or "")


def crash_in_real_code(r):
    """True when the innermost frame of a worker crash lies in the library under test
    (or in a third-party library called by it), not in the harness."""
    fr = _tb_files(r)
    if not fr:
        return False
    repo = os.environ.get("METADOR_REPO", "/repo").rstrip("/") + "/src/"
    harness = os.path.join(VERIF, "harness")
    through_repo = any(f.startswith(repo) for f, _, _ in fr)
    # innermost frame that belongs to the harness or to the repo
    for f, _, _ in reversed(fr):
        if f.startswith(harness):
            return False
        if f.startswith(repo):
            return through_repo
    return False


def crash_site(r):
    repo = os.environ.get("METADOR_REPO", "/repo").rstrip("/") + "/src/"
    for f, ln, fn in reversed(_tb_files(r)):
        if f.startswith(repo):
            return "%s:%s in %s" % (f[len(repo):], ln, fn)
    return ""


def default_compare(case, impl_res, model_out):
    a = impl_res.get("out")
    if a is None:
        return None
    if len(a) != len(model_out):
        return "length %d vs %d" % (len(a), len(model_out))
    for i, (x, y) in enumerate(zip(a, model_out)):
        if x != y and x != "*":
            return "line %d: impl=%r model=%r" % (i, x, y)
    return None


def load_findings():
    try:
        return json.load(open(FINDINGS))["findings"]
    except FileNotFoundError:
        return []


def load_corpus(pid):
    d = os.path.join(CORPUS, pid)
    out = []
    if os.path.isdir(d):
        for fn in sorted(os.listdir(d)):
            if fn.endswith(".json"):
                out.append(json.load(open(os.path.join(d, fn))))
    return out


def ddmin(items, fails, max_tests=400):
    """Delta debugging: smallest sublist (order kept) on which fails(sublist) is truthy."""
    tests = 0
    n = 2
    cur = list(items)
    while len(cur) >= 2 and tests < max_tests:
        chunk = max(1, len(cur) // n)
        subsets = [cur[i : i + chunk] for i in range(0, len(cur), chunk)]
        reduced = False
        for i in range(len(subsets)):
            comp = [x for j, s in enumerate(subsets) if j != i for x in s]
            tests += 1
            if comp and fails(comp):
                cur = comp
                n = max(n - 1, 2)
                reduced = True
                break
        if not reduced:
            if n >= len(cur):
                break
            n = min(len(cur), n * 2)
    return cur
