"""Python-AST -> Lean translator for merge / stub / manifest commit (properties C05 and C10).

Regenerates `lean/MetadorModel/Gen/MergeFns.lean` from the current source on every `./check C05` and `./check C10`
run (`write(lean)`, called by `translate(ctx)` in `harness/props/c05.py`; `harness/props/c10.py` calls the same
generator). The bridge theorems in `lean/MetadorModel/Bridge/MergeFns.lean`, `MergeFnsCommit.lean`, `MergeFnsStub.lean`
(on top of the source-independent `MergeFnsGroup.lean`, `MergeFnsTree.lean`) are re-checked by `lake build` on every run,
so what is proved about `Model/Merge.lean` (`mergeCont`, `mergeUB`, `mergeGuard`, `stubCont`, `stubUB`) transfers to what
the source says now.

Translated (source lines of the pinned tree; found by class + name, not by line number)
  src/metador_core/ih5/record.py    `IH5Record._fixes_after_merge` (hook, empty body)      (l. 592-603)
                                    `IH5Record.merge_files` (whole body: `_expect_open`, refusal while writable, target
                                        created by `type(self)(target, "x")`, root attributes, one `h5_copy_from_to` per
                                        top-level key, `with` exit = close/commit of the target, merged user block from
                                        the newest and the oldest block, checksum, hook, `ub.save`)   (l. 605-633)
  src/metador_core/ih5/manifest.py  `IH5MFRecord.manifest` (property)                      (l. 127-131)
                                    `IH5MFRecord._fresh_manifest`                          (l. 133-137)
                                    `IH5MFRecord._fixes_after_merge`                       (l. 201-210)
                                    `IH5MFRecord.merge_files` (stub scan + super call)     (l. 213-222)
                                    `IH5MFRecord.commit_patch` (whole body incl. try/except) (l. 226-257)
                                    `IH5MFRecord.create_stub`                              (l. 260-299)
  src/metador_core/ih5/skeleton.py  `init_stub_skeleton`                                   (l. 83-96)
                                    `init_stub_base`                                       (l. 99-106)
  plus the dynamic dispatch of `self._fixes_after_merge`, `obj.commit_patch`, `rec.merge_files` on the class of the
  object (`dispatch_*`: the override of `IH5MFRecord` when that class defines one, the method of `IH5Record` otherwise).

Value dictionary (fixed; Lean side: `lean/MetadorModel/Py/MergePy.lean`, table in its header)
  IH5UserBlock ↦ PUB = (core : Merge.UB, ext : Option Ext): record_uuid ↦ core.record, patch_index ↦ core.index,
      patch_uuid ↦ core.patch, prev_patch ↦ core.prev, hdf5_hashsum ↦ core.hash; `ub_exts["ih5mf_v01"]` ↦ ext (other
      extensions are carried along, not modelled); IH5UBExtManifest ↦ Ext (is_stub_container ↦ isStub, manifest_uuid ↦
      muuid, manifest_hashsum ↦ mhash); `IH5UBExtManifest.get(ub)` ↦ `ub.ext`; `IH5UBExtManifest(k=v, …)` ↦ a structure
      literal; `e.update(ub)` ↦ `ub := pyExtUpdate e ub`; `dict(x.ub_exts)` ↦ `x.ext`
  IH5Manifest ↦ Manifest (manifest_uuid ↦ uuid, user_block ↦ ub, skeleton, manifest_exts ↦ exts : Exts, `{}` ↦ `[]`);
      `IH5Manifest.from_userblock(ub, skeleton=s, exts=x)` ↦ `pyManifestFromUserblock` (fresh uuid from the state's counter,
      block without the extension); `IH5Manifest.parse_file(f)` ↦ `pyParseManifest`; `m.save(f)` ↦ `pySaveManifest f m`
  IH5Skeleton ↦ Skel = List (Path × Bool × List Key), the type of `Merge.skel`; `skel.__root__.items()` ↦ the list;
      `v.node_type` ↦ `v.1`, `H5Type.group` ↦ `true`, `H5Type.dataset` ↦ `false` (the field is a two-valued Literal);
      `v.attrs.keys()` ↦ `v.2`; `IH5Skeleton.for_record(rec)` ↦ `pySkeletonForRecord rec` = `skel (listing rec.conts)`
  a record object (`ds`, `target`, the object made by `type(self)(…)` / `IH5MFRecord._create(…)`) ↦ `Obj V` (class, `conts :
      Overlay.Rec V` newest first, file names, in-memory user blocks in patch order, `_has_writable` ↦ writable, `_closed`,
      `_allow_patching`, `_manifest` ↦ manifest); a local record object is a `let mut` value, every call that changes it
      rebinds it (`ds.create_group(k)` ↦ `ds ← pyCreateGroup ds k`, `ds[k] = v` ↦ `pySetItem`, `ds[k].attrs[a] = v` ↦
      `pyItemAttrSet`, `node.attrs[k] = v` through a handle ↦ `pyNodeAttrSet`, `x._set_ublock(i, ub)` ↦ `pyObjSetUblock`,
      `init_stub_skeleton(x, sk)` ↦ `x ← init_stub_skeleton E x sk`, `x.commit_patch(**kw)` ↦ `x := (← pyOn x (dispatch_commit_patch
      E …)).2`); a second name for a record object is refused
  `self` ↦ the object in the state of the monad `PyM V = World V → Except PyErr α × World V` (state = self + file system +
      uuid counter; what a call did to the state before it raised stays — needed for try/except); `self.x` ↦ `(← pySelf).x`;
      `self._ublock(i)` ↦ `pyUblock i` (`pyIdx`: negative indices from the end, IndexError), `self._set_ublock` ↦ `pySetUblock`,
      `self._manifest = m` ↦ `pySetManifest`, `self._expect_open()` ↦ `pyExpectOpen`, `self.ih5_meta` ↦ `.ubs`, `x.ih5_files`,
      `self._files`, `self.__files__` ↦ `.files` (`f.filename`, `Path(f)` ↦ f), `self.manifest` ↦ the translated property;
      functions without `self` (`init_stub_*`) are translated into `Except PyErr` and called with `pyLift`
  node handles: `obj["/"]`, `obj[k]`, `node[name]` ↦ `pyGetNode` (KeyError when absent) giving the `Path`; the owning object
      is tracked by the translator; `"/"` ↦ `[]`; `k in obj` ↦ `pyContains` (`_find(k) is not None`); `len(obj)`, `len(obj.attrs)`
      ↦ `pyLen`, `pyLenAttrs` (Int; truth value `!= 0`); `node.attrs.items()` ↦ `pyAttrsItems` = `attrsList`; `node.keys()` ↦
      `pyKeys` (children in listing order); `h5py.Empty(None)` ↦ `E.empty`
  `h5_copy_from_to(src_node, trg_node, name)` between two record objects ↦ `pyH5CopyFromTo` = C01's model of that function
      (`W.replay` of the listed subtree) — NOT translated, tied by the correspondence run of C01/C05
  file system ↦ `Disk V` (FName ↦ container (user block, payload) | manifest); a record path ↦ Nat, its base container ↦
      `.file t 0`; `cls._manifest_filepath(f)` ↦ `.mfOf f`; `type(self)(target, "<mode>")` ↦ `pyNewRecord cls target Mode.<mode>`
      (x / w- create exclusively: FileExistsError when the base container exists; w unlinks every container of that record
      path first; r / r+ / a are outside the dictionary); `IH5MFRecord._create(Path(r))` ↦ `pyCreate Cls.IH5MFRecord r false`;
      `hashsum_file(f, skip_bytes=USER_BLOCK_SIZE)` ↦ `pyHashsumPayload` (E.H of the payload), `hashsum_file(f)` ↦ `pyHashsumFile`
      (E.HM of the manifest in f), `qualified_hashsum(bytes(mf))` ↦ `E.HM mf`, `QualHashsumStr(x)` ↦ x, `ub.save(f)` ↦ `pySaveUB`
  `with <new record> as ds: body` ↦ `let mut ds ← …; body; ds := (← pyOn ds (pyClose (dispatch_commit_patch E none none []))).2`
      (`IH5Record.close`: commit of the open container by the class's `commit_patch`, then closed); the exit handler on an
      exception inside the body (close of the partial target) is NOT modelled: the theorems speak about the target only for
      runs that return normally
  `super().commit_patch(**kwargs)` ↦ `pyBaseCommit E kwargs` (the base-class method, not translated: refusal for unknown
      kwargs / closed / read-only / nothing to commit — each before anything is changed —, else checksum into the newest
      block and block + payload on disk); `kwargs.pop("k", d)` ↦ a parameter `kw_k : Option T` (`.getD d`), the remaining
      `kwargs : List String`; `super().merge_files(t)` ↦ the translated base method on the same state
  `ub.copy()`, `ub.copy(update={…})`, `ub.field = v`, `mf.manifest_exts = v` ↦ value updates (`PUB.with_*`, `Manifest.with_*`);
      aliasing is tracked: a block obtained from `self._ublock` or passed to `self._set_ublock`, and a manifest assigned to
      `self._manifest`, are references into the object — changing them in place is refused; `copy()` is shallow: the copy
      shares its `ub_exts` dict with the original, and `e.update(copy)` is refused when the original is `self`'s, a parameter,
      or read later (so the pre-fix `commit_patch` of 404ec74 is "not understood", an undischarged obligation)
  Optional[T] ↦ Option T; `x is None` ↦ `.isNone`; `x is not None and <uses x>` ↦ `match x with | none => false | some x => …`;
      `x.attr` on an un-narrowed Optional ↦ `(← pyNotNone x).attr` (AttributeError); an Optional where a plain value is expected
      (return, field assignment) ↦ `pyNotNone` as well; `a and b` / `a or b` ↦ `&&` / `||` on truth values (later operands may
      read `self` but not raise); `not`, `==`, `!=`, `<` … on ints, `a if c else b`
  `for x in xs: body` ↦ `vars ← pyFor xs vars (fun x vars => do … return vars)` (vars = the outer names the body rebinds;
      `continue` ↦ `return vars`); `if/elif/else`, `return`, `raise ValueError(<literal>)` (table MESSAGES ↦ `Msg`), re-raise,
      `assert c` ↦ `if !c then throw assertionError`, `try: … except ValueError as e: …` ↦ `try … catch e => match e with
      | .valueError _ => … | _ => throw e`, `any(map(f, xs))` / `any(f(x) for x in xs)` with a local one-argument `def f`
  no-ops: docstrings, `pass`, type annotations

Anything else raises TranslateError naming what was not understood; the check records it as the undischarged obligation
`translate:C05` / `translate:C10`; what could be translated is still written, so that only the bridge modules that use the
affected functions fail.

NOT translated, tied by the correspondence run / oracle only: `h5_copy_from_to`, the overlay write paths behind `create_group` /
`__setitem__` / `attrs[k] = v` (C01's model `W.*`), `IH5Skeleton.for_record` / `SkeletonNodeInfo` (patch indices are not
modelled), `IH5Record.commit_patch`, `close`, `_create`, `__init__`, `_new_container`, `IH5UserBlock.save/load/create`,
`IH5Manifest.from_userblock/save/parse_file/__bytes__`, `IH5UBExtManifest.get/update`, `hashsum_file`, h5py.

Bridge theorems (namespace MetadorModel.Bridge.MergeFns)
  source-independent: `flatMap_blocks`, `listing_blocks` (the sorted listing is the concatenation of its top-level blocks),
      `mergeFold_eq` (root attributes + one subtree copy per key = `mergeCont`, unconditionally), `stubFold_eq`
      (per-entry placeholders = `stubCont`, for `Replayable` listings)
  `gen_merge_files_mf`, `gen_merge_refused` (raises iff `mergeGuard` refuses; state unchanged), `gen_stub_merge_refused`,
      `gen_merge_loops`, `gen_merge_files_plain`, `gen_merge_files_mfcls`, `gen_merge_files_ok` / `gen_merge_files_replayable`
      (payload = `mergeCont`, user block = `mergeUB` (`gen_merged_ub`), source object and all other files untouched, sidecar)
  `gen_manifest`, `gen_fresh_manifest`, `gen_commit_patch_ok`, `gen_commit_patch_refused` (refused commit changes nothing),
      `gen_commit_patch_linked`, `gen_commit_patch_exts` (manifest linked / skeleton / extensions persist)
  `gen_init_stub_skeleton_fold`, `gen_init_stub_skeleton` (= `stubCont`), `gen_init_stub_skeleton_refused`, `gen_init_stub_base`,
      `gen_create_stub`, `gen_stub_ub` (= `stubUB`)
No deviation of Model/Merge.lean from the source was found.

Mutation tests (METADOR_REPO=<scratch worktree> ./check C05|C10 --tier quick)
  behaviour-changing, all exit 1 with the bridge obligations named: prev_patch of the newest block (oracle: merged record
  does not open); stub test negated (oracle: stub merge not refused); extensions inherited after the override (oracle: exts not
  persisted); attribute placeholders dropped (oracle: stub skeleton differs); `is_stub_container=False` (oracle); hook saves
  without the `ext` test (no failing input: not observable by the property); refusal inverted (oracle); emptiness test on
  members only (no failing input); `copy()` instead of the copy with an own `ub_exts` (fix 404ec74 reverted: not translatable +
  oracle). Seeded changes: C05-s2, s3, s4, t3, C10-t1, t3 not translatable (`translate:` undischarged + bridge), C05-t1 ("w"),
  t2 (prev None), C10-s1 (`continue`), s2 (no reset), t2 (save before commit) translated with the bridge broken; C05-s1, C10-s3,
  s4 do not touch a translated function (caught by the oracle only).
  behaviour-preserving edits that stay green: renamed locals / loop variables / keyword locals, comments and docstrings,
  `kwargs.pop` lines swapped, `source_node`/`target_node` swapped, `ub`/`skel` swapped in `_fresh_manifest`, operands of `and`
  swapped, `not (k in ds)`, `else: if` for `elif`, temporaries introduced or inlined, `len(x) > 0` for `len(x)`, generator
  for `map`, last two statements of `commit_patch` swapped, conditional expression for an `if` statement.
  Known to break the tie although harmless: rewording an exception message, another exception class, `while` / `enumerate`,
  new helper functions or attributes, keyword arguments in calls of translated methods, names for record objects other than
  fresh locals, swapping two statements that can both raise.
"""
import ast
import os

from . import envshim  # noqa: F401
from .translate import TranslateError, find_class, strip_doc

REC = "src/metador_core/ih5/record.py"
MFS = "src/metador_core/ih5/manifest.py"
SKL = "src/metador_core/ih5/skeleton.py"
NS = "MetadorModel.Gen.MergeFns"

HEADER = """import MetadorModel.Py.MergePy
/-! GENERATED on every run by harness/translate_c05.py from
    src/metador_core/ih5/record.py, src/metador_core/ih5/manifest.py and src/metador_core/ih5/skeleton.py.
    Do not edit. Value dictionary: Py/MergePy.lean and the docstring of harness/translate_c05.py. -/
set_option linter.unusedVariables false
namespace MetadorModel.Gen.MergeFns
open MetadorModel.Tree MetadorModel.Overlay MetadorModel.Merge MetadorModel.MergePy
variable {V : Type}
"""

# static text of a ValueError message -> MergePy.Msg
MESSAGES = {
    "Cannot merge, files contain a stub!": "containsStub",
    "Cannot merge, please commit or discard your changes!": "commitOrDiscard",
    "Container not empty, cannot initialize stub structure here!": "notEmpty",
    "No manifest exists yet! Did you forget to commit?": "noManifest",
}
MODES = {"r": "r", "r+": "rp", "a": "a", "w": "w", "w-": "wm", "x": "x"}

UB_FIELDS = {"record_uuid": ("record", "nat"), "patch_index": ("index", "nat"), "patch_uuid": ("patch", "nat"),
             "prev_patch": ("prev", ("opt", "nat")), "hdf5_hashsum": ("hash", ("opt", "nat"))}
EXT_FIELDS = {"is_stub_container": ("isStub", "bool"), "manifest_uuid": ("muuid", "nat"), "manifest_hashsum": ("mhash", "nat")}
MF_FIELDS = {"manifest_uuid": ("uuid", "nat"), "user_block": ("ub", "ub"), "skeleton": ("skeleton", "skel"),
             "manifest_exts": ("exts", "exts")}

LEAN_KEYWORDS = {"at", "from", "fun", "end", "do", "then", "else", "if", "let", "have", "show", "match", "with", "in",
                 "open", "def", "theorem", "by", "where", "instance", "structure", "class", "namespace", "section",
                 "import", "return", "for", "mut", "try", "catch", "finally", "unless", "type", "E", "V", "prefix",
                 "local", "variable", "universe", "macro", "syntax", "deriving", "mutual", "partial", "private", "self"}


def lty(t):
    if isinstance(t, tuple) and t[0] == "opt":
        return "Option (%s)" % lty(t[1])
    if isinstance(t, tuple) and t[0] == "list":
        return "List (%s)" % lty(t[1])
    if isinstance(t, tuple) and t[0] == "tuple":
        return " × ".join("(%s)" % lty(x) for x in t[1:])
    return {"bool": "Bool", "nat": "Nat", "int": "Int", "ub": "PUB", "ext": "Ext", "manifest": "Manifest", "skel": "Skel",
            "skelinfo": "Bool × List Key", "path": "Path", "node": "Path", "key": "Key", "fname": "FName", "recpath": "Nat",
            "exts": "Exts", "val": "V", "obj": "Obj V", "unit": "Unit", "h5type": "Bool", "ubexts": "Option Ext",
            "kwargs": "List String", "err": "PyErr"}[t]


def lname(py):
    return py + "_" if py in LEAN_KEYWORDS else py


def _d(e):
    try:
        return ast.unparse(e)[:110]
    except Exception:  # noqa: BLE001
        return ast.dump(e)[:110]


def _src(rel):
    path = os.path.join(envshim.REPO, rel)
    try:
        return ast.parse(open(path).read(), filename=path)
    except (OSError, SyntaxError) as e:
        raise TranslateError("cannot parse %s: %s" % (rel, e))


def is_opt(t):
    return isinstance(t, tuple) and t[0] == "opt"


def _is_name(e, n):
    return isinstance(e, ast.Name) and e.id == n


def _is_super_call(e, meth):
    return (isinstance(e, ast.Call) and isinstance(e.func, ast.Attribute) and e.func.attr == meth
            and isinstance(e.func.value, ast.Call) and _is_name(e.func.value.func, "super") and not e.func.value.args
            and not e.func.value.keywords)


class Val:
    """Lean text of a Python expression; `owner`: for a node handle, the record variable it belongs to; `shares`: for a
    user block, the names whose `ub_exts` dict it shares; `ref`: the value is (an alias of) an object stored in `self`"""

    def __init__(self, lean, ty, owner=None, shares=(), ref=False, aux=None):
        self.lean, self.ty, self.owner, self.shares, self.ref, self.aux = lean, ty, owner, frozenset(shares), ref, aux


class Var:
    def __init__(self, lean, ty, owner=None, shares=(), ref=False, param=False, fn=None):
        self.lean, self.ty, self.owner, self.shares, self.ref, self.param, self.fn = lean, ty, owner, frozenset(shares), ref, param, fn


class Fn:
    """translator of one function / method body.
    monad: "W" (the world monad `PyM V`, methods of a record object: `self` is the state's object) or
           "E" (`Except PyErr`, functions that only work on the objects they are given)"""

    def __init__(self, gen, qual, fnode, params, ret_ty, monad, selfname=None, clsname=None, inout=()):
        self.gen, self.qual, self.fn, self.ret_ty, self.monad = gen, qual, fnode, ret_ty, monad
        self.selfname, self.clsname, self.inout = selfname, clsname, list(inout)
        self.env = {}
        self.bound = set()      # python names already bound by `let mut`
        self.kwparams = []      # (python key, lean name, type, default lean)
        self.kwname = None
        self.mutated = None     # while translating a loop body: outer names that are rebound
        self.in_try = False
        a = fnode.args
        if a.vararg or a.kwonlyargs or a.posonlyargs:
            raise TranslateError("%s: unsupported parameter kinds" % qual)
        if a.kwarg:
            self.kwname = a.kwarg.arg
            self.env[self.kwname] = Var("kwargs", "kwargs", param=True)
        names = [x.arg for x in a.args]
        if selfname or clsname:
            if not names:
                raise TranslateError("%s: no self/cls parameter" % qual)
            if selfname:
                self.selfname = names[0]
            else:
                self.clsname = names[0]
            names = names[1:]
        if len(names) != len(params):
            raise TranslateError("%s: expected %d parameters, found %d (%s)" % (qual, len(params), len(names), ", ".join(names)))
        self.params = []
        for n, ty in zip(names, params):
            ln = lname(n)
            self.env[n] = Var(ln, ty, param=True)
            self.params.append((n, ln, ty))
            self.bound.add(n)

    def err(self, what, node=None):
        where = " (line %d)" % node.lineno if node is not None and hasattr(node, "lineno") else ""
        return TranslateError("%s%s: %s" % (self.qual, where, what))

    # ------------------------------------------------------------------ actions
    def act(self, txt, kind):
        """`(← txt)`; kind "E": an `Except PyErr` value, "W": an action of the world monad"""
        if kind == "W":
            if self.monad != "W":
                raise self.err("`%s` needs the record object's state, but this function is translated as a pure one" % txt)
            return "(← %s)" % txt
        return "(← pyLift (%s))" % txt if self.monad == "W" else "(← %s)" % txt

    def stmt_act(self, txt, kind):
        if kind == "W":
            if self.monad != "W":
                raise self.err("`%s` needs the record object's state" % txt)
            return txt
        return "pyLift (%s)" % txt if self.monad == "W" else txt

    def self_val(self):
        if self.monad != "W":
            raise self.err("`self` in a pure function")
        return Val("(← pySelf)", "obj", owner="self", ref=True)

    # ------------------------------------------------------------------ coercions
    def coerce(self, v, want, node=None):
        if v.ty == want:
            return v
        if v.ty == ("opt", None) and is_opt(want):
            return Val("(none : %s)" % lty(want), want)
        if is_opt(want) and not is_opt(v.ty):
            inner = self.coerce(v, want[1], node)
            return Val("(some %s)" % inner.lean, want, shares=v.shares, ref=v.ref)
        if is_opt(v.ty) and v.ty[1] == want:
            # a None escaping where a value is promised: reported as the AttributeError its first use would raise
            return Val(self.act("pyNotNone %s" % v.lean, "E"), want, shares=v.shares, ref=v.ref)
        if v.ty == "nat" and want == "int":
            return Val("(Int.ofNat %s)" % v.lean, "int")
        if v.ty == "node" and want == "path":
            return Val(v.lean, "path")
        if v.ty == "ubexts" and want == ("opt", "ext"):
            return Val(v.lean, want)
        if v.ty == "h5type" and want == "bool":
            return Val(v.lean, "bool")
        raise self.err("a value of type %s where %s is expected: %s" % (v.ty, want, v.lean), node)

    def truth(self, v, node=None):
        if v.ty == "bool":
            return v
        if v.ty == "int":
            return Val("(%s != 0)" % v.lean, "bool")
        if is_opt(v.ty) and v.ty[1] in ("ub", "ext", "manifest"):
            return Val("(%s).isSome" % v.lean, "bool")
        if isinstance(v.ty, tuple) and v.ty[0] == "list":
            return Val("(!(%s).isEmpty)" % v.lean, "bool")
        raise self.err("truth value of a %s is not in the dictionary: %s" % (v.ty, v.lean), node)

    def notnone(self, v):
        if is_opt(v.ty) and v.ty[1] is not None:
            return Val(self.act("pyNotNone %s" % v.lean, "E"), v.ty[1], shares=v.shares, ref=v.ref)
        return v

    # ------------------------------------------------------------------ expressions
    def path_of(self, e):
        """an HDF5 path: the literal "/" or a path-typed value"""
        if isinstance(e, ast.Constant) and e.value == "/":
            return Val("[]", "path")
        v = self.ex(e)
        if v.ty in ("path", "node"):
            return Val(v.lean, "path")
        raise self.err("`%s` is not an HDF5 path of the dictionary (%s)" % (_d(e), v.ty), e)

    def ex(self, e):
        if isinstance(e, ast.Constant):
            if e.value is None:
                return Val("none", ("opt", None))
            if isinstance(e.value, bool):
                return Val("true" if e.value else "false", "bool")
            if isinstance(e.value, int):
                return Val("(%d : Int)" % e.value, "int")
            raise self.err("constant %r" % (e.value,), e)
        if isinstance(e, ast.Name):
            if e.id == self.selfname:
                return self.self_val()
            if e.id in self.env:
                v = self.env[e.id]
                if v.ty == "fn":
                    raise self.err("local function `%s` used as a value" % e.id, e)
                return Val(v.lean, v.ty, owner=v.owner, shares=v.shares | ({e.id} if v.ty == "ub" else set()), ref=v.ref, aux=e.id)
            raise self.err("unknown name `%s`" % e.id, e)
        if isinstance(e, ast.UnaryOp) and isinstance(e.op, ast.USub):
            v = self.coerce(self.ex(e.operand), "int", e)
            return Val("(-%s)" % v.lean, "int")
        if isinstance(e, ast.UnaryOp) and isinstance(e.op, ast.Not):
            v = self.truth(self.ex(e.operand), e)
            return Val("(!%s)" % v.lean, "bool")
        if isinstance(e, ast.BoolOp):
            return self.boolop(e)
        if isinstance(e, ast.Compare):
            return self.compare(e)
        if isinstance(e, ast.IfExp):
            c = self.truth(self.ex(e.test), e)
            a, b = self.ex(e.body), self.ex(e.orelse)
            if a.ty != b.ty:
                if is_opt(a.ty) or a.ty == ("opt", None):
                    a, b = (self.coerce(a, b.ty, e), b) if a.ty == ("opt", None) else (a, self.coerce(b, a.ty, e))
                else:
                    a = self.coerce(a, b.ty, e)
            if "(←" in a.lean or "(←" in b.lean:
                raise self.err("a branch of `%s` can raise / reads the state" % _d(e), e)
            return Val("(if %s then %s else %s)" % (c.lean, a.lean, b.lean), a.ty)
        if isinstance(e, ast.Dict) and not e.keys:
            return Val("[]", "exts")
        if isinstance(e, ast.Attribute):
            return self.attribute(e)
        if isinstance(e, ast.Subscript):
            return self.subscript(e)
        if isinstance(e, ast.Call):
            return self.call(e)
        raise self.err("unsupported expression `%s`" % _d(e), e)

    def boolop(self, e):
        is_and = isinstance(e.op, ast.And)
        vals = list(e.values)
        # `x is not None and REST` / `x is None or REST` with REST using `x`: narrowing
        first = vals[0]
        if (len(vals) >= 2 and isinstance(first, ast.Compare) and len(first.ops) == 1 and isinstance(first.left, ast.Name)
                and isinstance(first.comparators[0], ast.Constant) and first.comparators[0].value is None
                and isinstance(first.ops[0], ast.IsNot if is_and else ast.Is) and first.left.id in self.env
                and is_opt(self.env[first.left.id].ty)):
            x = first.left.id
            rest = vals[1] if len(vals) == 2 else ast.BoolOp(op=e.op, values=vals[1:])
            if any(isinstance(n, ast.Name) and n.id == x for n in ast.walk(rest)):
                old = self.env[x]
                self.env[x] = Var(old.lean, old.ty[1], shares=old.shares, ref=old.ref)
                try:
                    r = self.truth(self.ex(rest), rest)
                finally:
                    self.env[x] = old
                if "(←" in r.lean:
                    raise self.err("the right operand of `%s` can raise / reads the state" % _d(e), e)
                return Val("(match %s with | none => %s | some %s => %s)" % (old.lean, "false" if is_and else "true", old.lean, r.lean), "bool")
        tv = [self.truth(self.ex(v), v) for v in vals]
        for v in tv[1:]:
            # reading `self` neither raises nor changes anything: evaluating it before the first operand is the same
            if "(←" in v.lean.replace("(← pySelf)", ""):
                # short-circuit evaluation of an operand that can raise is not in the dictionary
                raise self.err("an operand of `%s` after the first can raise / reads the state" % _d(e), e)
        return Val("(%s)" % (" && " if is_and else " || ").join(v.lean for v in tv), "bool")

    def compare(self, e):
        if len(e.ops) != 1:
            raise self.err("chained comparison `%s`" % _d(e), e)
        op = e.ops[0]
        if isinstance(op, (ast.In, ast.NotIn)):
            o = self.ex(e.comparators[0])
            if o.ty != "obj":
                raise self.err("`in` on a %s" % (o.ty,), e)
            p = self.path_of(e.left)
            txt = self.act("pyContains %s %s" % (o.lean, p.lean), "E")
            return Val(txt if isinstance(op, ast.In) else "(!%s)" % txt, "bool")
        l, r = self.ex(e.left), self.ex(e.comparators[0])
        if isinstance(op, (ast.Is, ast.IsNot)):
            if r.ty != ("opt", None):
                raise self.err("`is` with something other than None: `%s`" % _d(e), e)
            if not is_opt(l.ty) or l.ty[1] is None:
                raise self.err("`%s`: the left side is not an Optional of the dictionary (%s)" % (_d(e), l.ty), e)
            return Val("(%s).%s" % (l.lean, "isNone" if isinstance(op, ast.Is) else "isSome"), "bool")
        if isinstance(op, (ast.Eq, ast.NotEq)):
            if l.ty != r.ty:
                if is_opt(l.ty):
                    r = self.coerce(r, l.ty, e)
                else:
                    l = self.coerce(l, r.ty, e)
            if l.ty not in ("nat", "int", "bool", "h5type", "key", ("opt", "nat")):
                raise self.err("equality on %s is not in the dictionary: `%s`" % (l.ty, _d(e)), e)
            return Val("(%s %s %s)" % (l.lean, "==" if isinstance(op, ast.Eq) else "!=", r.lean), "bool")
        sym = {ast.Lt: "<", ast.LtE: "≤", ast.Gt: ">", ast.GtE: "≥"}.get(type(op))
        if sym is None:
            raise self.err("unsupported comparison `%s`" % _d(e), e)
        l, r = self.coerce(l, "int", e), self.coerce(r, "int", e)
        return Val("(decide (%s %s %s))" % (l.lean, sym, r.lean), "bool")

    def attribute(self, e):
        a = e.attr
        if _d(e) == "H5Type.group":
            return Val("true", "h5type")
        if _d(e) == "H5Type.dataset":
            return Val("false", "h5type")
        base = self.ex(e.value)
        if base.ty == "obj":
            if a == "_manifest":
                return Val("%s.manifest" % base.lean, ("opt", "manifest"), ref=True)
            if a == "manifest" and base.owner == "self":
                return self.gen.call_method(self, "manifest", [], e)
            if a == "_has_writable":
                return Val("%s.writable" % base.lean, "bool")
            if a == "ih5_meta":
                return Val("%s.ubs" % base.lean, ("list", "ub"))
            if a in ("ih5_files", "_files", "__files__"):
                return Val("%s.files" % base.lean, ("list", "fname"))
            if a == "attrs":
                return Val("[]", "attrs", owner=base.aux or base.owner, aux=base.lean)
            raise self.err("attribute `%s` of a record object is not in the dictionary" % a, e)
        if base.ty == "fname" and a == "filename":
            return base
        if base.ty == "node" and a == "attrs":
            return Val(base.lean, "attrs", owner=base.owner, aux=self.obj_lean(base.owner, e))
        if base.ty == "skel" and a == "__root__":
            return Val(base.lean, "skelroot")
        if base.ty == "skelinfo":
            if a == "node_type":
                return Val("%s.1" % base.lean, "h5type")
            if a == "attrs":
                return Val("%s.2" % base.lean, "skelattrs")
        b = self.notnone(base)
        for ty, tab, pre in (("ub", UB_FIELDS, ".core"), ("ext", EXT_FIELDS, ""), ("manifest", MF_FIELDS, "")):
            if b.ty == ty and a in tab:
                f, t = tab[a]
                sh = {b.aux} if (ty == "manifest" and t == "ub" and b.aux) else set()
                return Val("%s%s.%s" % (b.lean, pre, f), t, shares=sh, ref=b.ref, aux=b.aux if t == "ub" else None)
        raise self.err("attribute `%s` of a %s is not in the dictionary" % (a, base.ty), e)

    def obj_lean(self, owner, node=None):
        """Lean text of the record object a node handle belongs to"""
        if owner == "self":
            return self.self_val().lean
        if owner in self.env and self.env[owner].ty == "obj":
            return self.env[owner].lean
        raise self.err("the record object `%s` of a node handle is not in scope" % owner, node)

    def subscript(self, e):
        if isinstance(e.slice, ast.Slice):
            raise self.err("slice `%s`" % _d(e), e)
        base = self.ex(e.value)
        if base.ty == "obj":
            p = self.path_of(e.slice)
            owner = base.aux or base.owner
            if owner is None:
                raise self.err("node handle of an unnamed record object `%s`" % _d(e), e)
            return Val(self.act("pyGetNode %s %s" % (base.lean, p.lean), "E"), "node", owner=owner)
        if base.ty == "node":
            k = self.ex(e.slice)
            if k.ty != "key":
                raise self.err("child `%s` of a node handle (%s)" % (_d(e.slice), k.ty), e)
            return Val(self.act("pyGetNode %s (%s ++ [%s])" % (self.obj_lean(base.owner, e), base.lean, k.lean), "E"), "node", owner=base.owner)
        if isinstance(base.ty, tuple) and base.ty[0] == "list":
            i = self.coerce(self.ex(e.slice), "int", e)
            return Val(self.act("pyIdx %s %s" % (base.lean, i.lean), "E"), base.ty[1])
        raise self.err("unsupported subscript `%s`" % _d(e), e)

    # ------------------------------------------------------------------ calls
    def kw(self, e, names, npos=0):
        """keyword arguments of a call as a dict; exactly the given names"""
        if len(e.args) != npos or any(k.arg is None for k in e.keywords):
            raise self.err("`%s`: unexpected arguments" % _d(e), e)
        d = {k.arg: k.value for k in e.keywords}
        if set(d) != set(names):
            raise self.err("`%s`: expected the keyword arguments %s" % (_d(e), ", ".join(names)), e)
        return d

    def copy_update(self, recv, e):
        """`ub.copy()` / `ub.copy(update={...})`"""
        b = self.notnone(recv)
        if b.ty != "ub":
            raise self.err("`.copy()` of a %s is not in the dictionary" % (b.ty,), e)
        shares = set(b.shares) | ({"self"} if b.ref else set())
        if not e.args and not e.keywords:
            return Val(b.lean, "ub", shares=shares)
        d = self.kw(e, ["update"])
        u = d["update"]
        if not isinstance(u, ast.Dict) or not all(isinstance(k, ast.Constant) and isinstance(k.value, str) for k in u.keys):
            raise self.err("`%s`: update must be a dict literal with string keys" % _d(e), e)
        txt = b.lean
        for k, v in zip(u.keys, u.values):
            if k.value == "ub_exts":
                x = self.ex(v)
                if x.ty != "ubexts":
                    raise self.err("`ub_exts` is updated with something other than dict(<block>.ub_exts)", e)
                txt = "(PUB.with_ub_exts %s %s)" % (txt, x.lean)
                shares = set()
            elif k.value in UB_FIELDS:
                val = self.coerce(self.ex(v), UB_FIELDS[k.value][1], e)
                txt = "(PUB.with_%s %s %s)" % (k.value, txt, val.lean)
                if k.value not in ("prev_patch", "hdf5_hashsum"):
                    raise self.err("update of the field `%s` is not in the dictionary" % k.value, e)
            else:
                raise self.err("update of the field `%s`" % k.value, e)
        return Val(txt, "ub", shares=shares)

    def call(self, e):
        f = e.func
        src = _d(f)
        if isinstance(f, ast.Name):
            if f.id == "len" and len(e.args) == 1 and not e.keywords:
                v = self.ex(e.args[0])
                if v.ty == "obj":
                    return Val("(pyLen %s [])" % v.lean, "int")
                if v.ty == "node":
                    return Val("(pyLen %s %s)" % (self.obj_lean(v.owner, e), v.lean), "int")
                if v.ty == "attrs":
                    return Val("(pyLenAttrs %s %s)" % (v.aux, v.lean), "int")
                if isinstance(v.ty, tuple) and v.ty[0] == "list":
                    return Val("(Int.ofNat (%s).length)" % v.lean, "int")
                raise self.err("len of a %s" % (v.ty,), e)
            if f.id in ("Path", "QualHashsumStr") and len(e.args) == 1 and not e.keywords:
                v = self.ex(e.args[0])
                if (f.id == "Path" and v.ty in ("fname", "recpath")) or (f.id == "QualHashsumStr" and v.ty == "nat"):
                    return v
                raise self.err("%s(…) of a %s" % (f.id, v.ty), e)
            if f.id == "dict" and len(e.args) == 1 and not e.keywords and isinstance(e.args[0], ast.Attribute) and e.args[0].attr == "ub_exts":
                v = self.notnone(self.ex(e.args[0].value))
                if v.ty == "ub":
                    return Val("%s.ext" % v.lean, "ubexts")
            if f.id == "hashsum_file":
                if len(e.args) != 1:
                    raise self.err("`%s`" % _d(e), e)
                v = self.coerce(self.ex(e.args[0]), "fname", e)
                kws = {k.arg: k.value for k in e.keywords}
                if not kws:
                    return Val(self.act("pyHashsumFile E %s" % v.lean, "W"), "nat")
                if set(kws) == {"skip_bytes"} and _is_name(kws["skip_bytes"], "USER_BLOCK_SIZE"):
                    return Val(self.act("pyHashsumPayload E %s" % v.lean, "W"), "nat")
                raise self.err("`%s`: the hash of a container is in the dictionary only with skip_bytes=USER_BLOCK_SIZE" % _d(e), e)
            if f.id == "qualified_hashsum" and len(e.args) == 1 and not e.keywords:
                a = e.args[0]
                if isinstance(a, ast.Call) and _is_name(a.func, "bytes") and len(a.args) == 1 and not a.keywords:
                    v = self.coerce(self.ex(a.args[0]), "manifest", e)
                    return Val("(E.HM %s)" % v.lean, "nat")
            if f.id == "any" and len(e.args) == 1 and not e.keywords:
                a = e.args[0]
                if isinstance(a, ast.Call) and _is_name(a.func, "map") and len(a.args) == 2 and not a.keywords and isinstance(a.args[0], ast.Name):
                    fn = self.env.get(a.args[0].id)
                    xs = self.ex(a.args[1])
                    if fn is not None and fn.ty == "fn" and isinstance(xs.ty, tuple) and xs.ty[0] == "list" and fn.fn == (xs.ty[1], "bool"):
                        return Val("(pyAny (List.map %s %s))" % (fn.lean, xs.lean), "bool")
                if (isinstance(a, ast.GeneratorExp) and len(a.generators) == 1 and not a.generators[0].ifs and not a.generators[0].is_async
                        and isinstance(a.generators[0].target, ast.Name) and isinstance(a.elt, ast.Call) and isinstance(a.elt.func, ast.Name)
                        and len(a.elt.args) == 1 and not a.elt.keywords and _is_name(a.elt.args[0], a.generators[0].target.id)):
                    # any(f(x) for x in xs) is any(map(f, xs))
                    fn = self.env.get(a.elt.func.id)
                    xs = self.ex(a.generators[0].iter)
                    if fn is not None and fn.ty == "fn" and isinstance(xs.ty, tuple) and xs.ty[0] == "list" and fn.fn == (xs.ty[1], "bool"):
                        return Val("(pyAny (List.map %s %s))" % (fn.lean, xs.lean), "bool")
            if f.id in self.gen.FUNCS and self.gen.FUNCS[f.id]["kind"] == "func":
                raise self.err("`%s` is used as a value (it returns nothing)" % _d(e), e)
        if isinstance(f, ast.Call) and _d(f) == "type(%s)" % (self.selfname or "\0"):
            # type(self)(target, "x")
            if len(e.args) == 2 and not e.keywords and isinstance(e.args[1], ast.Constant) and e.args[1].value in MODES:
                t = self.coerce(self.ex(e.args[0]), "recpath", e)
                return Val(self.act("pyNewRecord %s.cls %s Mode.%s" % (self.self_val().lean, t.lean, MODES[e.args[1].value]), "W"), "obj")
            raise self.err("`%s`: expected type(self)(<record path>, <mode literal>)" % _d(e), e)
        if isinstance(f, ast.Attribute):
            recv, m = f.value, f.attr
            if src == "h5py.Empty" and len(e.args) == 1 and not e.keywords and isinstance(e.args[0], ast.Constant) and e.args[0].value is None:
                return Val("E.empty", "val")
            if self.kwname and _is_name(recv, self.kwname) and m == "pop":
                return self.kwpop(e)
            if src == "IH5UBExtManifest.get" and len(e.args) == 1 and not e.keywords:
                v = self.notnone(self.ex(e.args[0]))
                if v.ty == "ub":
                    return Val("%s.ext" % v.lean, ("opt", "ext"))
                raise self.err("IH5UBExtManifest.get of a %s" % (v.ty,), e)
            if src == "IH5Skeleton.for_record" and len(e.args) == 1 and not e.keywords:
                v = self.ex(e.args[0])
                if v.ty == "obj":
                    return Val("(pySkeletonForRecord %s)" % v.lean, "skel")
            if src == "IH5Manifest.from_userblock":
                if len(e.args) == 1:
                    d = self.kw(e, ["skeleton", "exts"], npos=1)
                    ub = self.coerce(self.notnone(self.ex(e.args[0])), "ub", e)
                    sk = self.coerce(self.ex(d["skeleton"]), "skel", e)
                    xs = self.coerce(self.ex(d["exts"]), "exts", e)
                    return Val(self.act("pyManifestFromUserblock %s %s %s" % (ub.lean, sk.lean, xs.lean), "W"), "manifest")
            if src == "IH5Manifest.parse_file" and len(e.args) == 1 and not e.keywords:
                v = self.coerce(self.ex(e.args[0]), "fname", e)
                return Val(self.act("pyParseManifest %s" % v.lean, "W"), "manifest", aux=None)
            if src == "IH5MFRecord._create" and 1 <= len(e.args) <= 2:
                kws = {k.arg: k.value for k in e.keywords}
                args = list(e.args) + ([kws.pop("truncate")] if "truncate" in kws else [])
                if not kws and len(args) <= 2:
                    t = self.coerce(self.ex(args[0]), "recpath", e)
                    tr = self.coerce(self.ex(args[1]), "bool", e) if len(args) == 2 else Val("false", "bool")
                    return Val(self.act("pyCreate Cls.IH5MFRecord %s %s" % (t.lean, tr.lean), "W"), "obj")
            if m == "_manifest_filepath" and len(e.args) == 1 and not e.keywords and isinstance(recv, ast.Name) and recv.id in (self.selfname, self.clsname):
                v = self.coerce(self.ex(e.args[0]), "fname", e)
                return Val("(pyManifestFilepath %s)" % v.lean, "fname")
            if m == "copy":
                return self.copy_update(self.ex(recv), e)
            if m == "items" and not e.args and not e.keywords:
                v = self.ex(recv)
                if v.ty == "skelroot":
                    return Val(v.lean, ("list", ("tuple", "path", "skelinfo")))
                if v.ty == "attrs":
                    return Val("(pyAttrsItems %s %s)" % (v.aux, v.lean), ("list", ("tuple", "key", "val")))
            if m == "keys" and not e.args and not e.keywords:
                v = self.ex(recv)
                if v.ty == "skelattrs":
                    return Val(v.lean, ("list", "key"))
                if v.ty == "node":
                    return Val("(pyKeys %s %s)" % (self.obj_lean(v.owner, e), v.lean), ("list", "key"))
                if v.ty == "obj":
                    return Val("(pyKeys %s [])" % v.lean, ("list", "key"))
            if m == "_ublock" and len(e.args) == 1 and not e.keywords:
                i = self.coerce(self.ex(e.args[0]), "int", e)
                if _is_name(recv, self.selfname or "\0"):
                    return Val(self.act("pyUblock %s" % i.lean, "W"), "ub", ref=True)
                o = self.ex(recv)
                if o.ty == "obj":
                    return Val(self.act("pyIdx %s.ubs %s" % (o.lean, i.lean), "E"), "ub", ref=True)
            if _is_super_call(e, m) or _is_name(recv, self.selfname or "\0"):
                if any(k.arg is None for k in e.keywords) or e.keywords:
                    raise self.err("keyword arguments in `%s`" % _d(e), e)
                return self.gen.call_method(self, m, [self.ex(a) for a in e.args], e, is_super=_is_super_call(e, m))
        if isinstance(f, ast.Name) and f.id == "IH5UBExtManifest":
            d = self.kw(e, list(EXT_FIELDS))
            parts = []
            for k in EXT_FIELDS:
                fl, t = EXT_FIELDS[k]
                parts.append("%s := %s" % (fl, self.coerce(self.ex(d[k]), t, e).lean))
            return Val("({ %s } : Ext)" % ", ".join(parts), "ext")
        raise self.err("unsupported call `%s`" % _d(e), e)

    def kwpop(self, e):
        if len(e.args) != 2 or e.keywords or not (isinstance(e.args[0], ast.Constant) and isinstance(e.args[0].value, str)):
            raise self.err("`%s`: expected kwargs.pop(\"name\", default)" % _d(e), e)
        name = e.args[0].value
        known = {"__is_stub__": "bool", "manifest_exts": ("opt", "exts")}
        if name not in known:
            raise self.err("keyword `%s` is not in the dictionary" % name, e)
        ty = known[name]
        d = self.coerce(self.ex(e.args[1]), ty, e)
        if any(n == name for n, _, _, _ in self.kwparams):
            raise self.err("keyword `%s` popped twice" % name, e)
        ln = "kw_" + name
        self.kwparams.append((name, ln, ty, d.lean))
        return Val("(%s.getD %s)" % (ln, d.lean), ty)

    # ------------------------------------------------------------------ statements
    VARS = "\0VARS\0"

    def note_mut(self, name):
        for fr in self.loops:
            if name in fr["outer"]:
                fr["muts"].add(name)

    def read_later(self, name, node):
        end = getattr(node, "end_lineno", node.lineno)
        return any(isinstance(n, ast.Name) and n.id == name and isinstance(n.ctx, ast.Load) and n.lineno > end for n in ast.walk(self.fn))

    def check_shared_exts(self, v, node, what):
        """an in-place change of the `ub_exts` dict of `v`: nobody else may see it"""
        if v.ref:
            raise self.err("%s changes a user block that is stored in the record object (aliasing is not in the dictionary)" % what, node)
        for r in sorted(v.shares):
            if r == v.aux:
                continue
            if r == "self" or (r in self.env and self.env[r].param) or self.read_later(r, node):
                raise self.err("%s changes an extension dict that is shared with `%s` (shallow copy)" % (what, r), node)

    def local_obj(self, e, node):
        if isinstance(e, ast.Name) and e.id in self.env and self.env[e.id].ty == "obj" and e.id in self.bound:
            return e.id
        raise self.err("`%s` is not a local record object" % _d(e), node)

    def rebind_obj(self, name, txt, kind, ind):
        self.note_mut(name)
        return ["%s%s ← %s" % (ind, self.env[name].lean, self.stmt_act(txt, kind))]

    def assign_name(self, name, v, ind, node):
        if v.ty == ("opt", None):
            raise self.err("`%s = None` without a type" % name, node)
        if v.ty in ("attrs", "skelroot", "skelattrs", "ubexts"):
            raise self.err("`%s` is bound to a %s (only used in place in the dictionary)" % (name, v.ty), node)
        if v.ty == "obj" and not v.lean.startswith("(←"):
            raise self.err("`%s = %s`: a second name for a record object (aliasing is not in the dictionary)" % (name, v.lean), node)
        if self.in_try:
            raise self.err("assignment to `%s` inside try/except" % name, node)
        if name in self.env and name in self.bound:
            old = self.env[name]
            if old.param and not (name in self.inout):
                raise self.err("parameter `%s` is rebound" % name, node)
            if is_opt(old.ty) and not is_opt(v.ty):
                v = self.coerce(v, old.ty, node)
            if old.ty != v.ty:
                raise self.err("`%s` changes its type from %s to %s" % (name, old.ty, v.ty), node)
            self.note_mut(name)
            self.env[name] = Var(old.lean, v.ty, owner=v.owner, shares=v.shares - {name}, ref=v.ref, param=old.param)
            return ["%s%s := %s" % (ind, old.lean, v.lean)]
        if name in (self.selfname, self.clsname, self.kwname):
            raise self.err("`%s` is rebound" % name, node)
        ln = lname(name)
        self.env[name] = Var(ln, v.ty, owner=v.owner, shares=v.shares - {name}, ref=v.ref)
        self.bound.add(name)
        return ["%slet mut %s := %s" % (ind, ln, v.lean)]

    def raise_stmt(self, s, ind):
        exc = s.exc
        if s.cause is not None:
            raise self.err("`raise … from …`", s)
        if isinstance(exc, ast.Name) and exc.id in self.env and self.env[exc.id].ty == "err":
            return ["%sthrow %s" % (ind, self.env[exc.id].lean)]
        if isinstance(exc, ast.Call) and _is_name(exc.func, "ValueError") and len(exc.args) == 1 and not exc.keywords:
            m = exc.args[0]
            if isinstance(m, ast.Constant) and isinstance(m.value, str):
                if m.value in MESSAGES:
                    return ["%sthrow (PyErr.valueError Msg.%s)" % (ind, MESSAGES[m.value])]
                raise self.err("exception message %r is not in the table MESSAGES" % m.value, s)
        raise self.err("`%s`: only `raise ValueError(<literal message>)` and re-raising are in the dictionary" % _d(s), s)

    def stmt(self, s, ind):
        if isinstance(s, ast.Expr) and isinstance(s.value, ast.Constant) and isinstance(s.value.value, str):
            return []
        if isinstance(s, ast.Pass):
            return []
        if isinstance(s, (ast.Assign, ast.AnnAssign)):
            return self.assign(s, ind)
        if isinstance(s, ast.Expr) and isinstance(s.value, ast.Call):
            return self.exprstmt(s.value, ind, s)
        if isinstance(s, ast.If):
            c = self.truth(self.ex(s.test), s)
            out = ["%sif %s then" % (ind, c.lean)]
            out += self.branch(s.body, ind + "  ")
            if s.orelse:
                if len(s.orelse) == 1 and isinstance(s.orelse[0], ast.If):
                    sub = self.stmt(s.orelse[0], ind)
                    out.append("%selse %s" % (ind, sub[0].lstrip()))
                    out += sub[1:]
                else:
                    out.append("%selse" % ind)
                    out += self.branch(s.orelse, ind + "  ")
            return out
        if isinstance(s, ast.For):
            return self.forloop(s, ind)
        if isinstance(s, ast.With):
            return self.withstmt(s, ind)
        if isinstance(s, ast.Try):
            return self.trystmt(s, ind)
        if isinstance(s, ast.FunctionDef):
            return self.localdef(s, ind)
        if isinstance(s, ast.Raise):
            return self.raise_stmt(s, ind)
        if isinstance(s, ast.Assert):
            if s.msg is not None:
                raise self.err("assert with a message", s)
            c = self.truth(self.ex(s.test), s)
            return ["%sif (!%s) then" % (ind, c.lean), "%s  throw PyErr.assertionError" % ind]
        if isinstance(s, ast.Continue):
            if not self.loops:
                raise self.err("continue outside a loop", s)
            return ["%sreturn %s" % (ind, self.VARS)]
        if isinstance(s, ast.Return):
            if self.loops:
                raise self.err("return inside a loop", s)
            if self.inout:
                if s.value is not None and not (isinstance(s.value, ast.Constant) and s.value.value is None):
                    raise self.err("a function that changes its argument `%s` returns a value" % self.inout[0], s)
                return ["%sreturn %s" % (ind, self.env[self.inout[0]].lean)]
            if s.value is None:
                if self.ret_ty != "unit":
                    raise self.err("bare return", s)
                return ["%sreturn ()" % ind]
            v = self.ex(s.value)
            if v.ty == "obj" and self.ret_ty == "obj":
                return ["%sreturn %s" % (ind, v.lean)]
            v = self.coerce(v, self.ret_ty, s)
            return ["%sreturn %s" % (ind, v.lean)]
        raise self.err("unsupported statement `%s`" % _d(s).split("\n")[0], s)

    def branch(self, body, ind):
        saved_env, saved_bound = dict(self.env), set(self.bound)
        out = self.block(body, ind)
        # names first bound inside a branch are not visible afterwards (Lean scoping)
        new_env = {}
        for k, v in saved_env.items():
            new_env[k] = self.env.get(k, v) if k in saved_bound else v
        self.env, self.bound = new_env, saved_bound
        return out

    def block(self, body, ind):
        out = []
        for s in body:
            out += self.stmt(s, ind)
        if not out:
            out = ["%spure ()" % ind]
        return out

    def localdef(self, s, ind):
        """`def f(x): <assignments>; return <expr>` used with map(): a pure local function on user blocks"""
        a = s.args
        if a.vararg or a.kwarg or a.kwonlyargs or a.posonlyargs or a.defaults or len(a.args) != 1 or s.decorator_list:
            raise self.err("local function `%s`: only one plain parameter is in the dictionary" % s.name, s)
        if s.name in self.env:
            raise self.err("local function `%s` shadows a name" % s.name, s)
        x = a.args[0].arg
        saved_env, saved_bound, saved_monad = dict(self.env), set(self.bound), self.monad
        self.env[x] = Var(lname(x), "ub", param=True)
        self.monad = "pure"
        lets = []
        body = strip_doc(s.body)
        try:
            if not body or not isinstance(body[-1], ast.Return) or body[-1].value is None:
                raise self.err("local function `%s` does not end in `return <expr>`" % s.name, s)
            for st in body[:-1]:
                if not (isinstance(st, ast.Assign) and len(st.targets) == 1 and isinstance(st.targets[0], ast.Name)):
                    raise self.err("local function `%s`: statement `%s`" % (s.name, _d(st)), st)
                n = st.targets[0].id
                if n in self.env:
                    raise self.err("local function `%s` rebinds `%s`" % (s.name, n), st)
                v = self.ex(st.value)
                self.env[n] = Var(lname(n), v.ty, shares=v.shares)
                lets.append("let %s := %s" % (lname(n), v.lean))
            r = self.truth(self.ex(body[-1].value), s)
            for t in lets + [r.lean]:
                if "(←" in t:
                    raise self.err("local function `%s` can raise / reads the state" % s.name, s)
        finally:
            self.env, self.bound, self.monad = saved_env, saved_bound, saved_monad
        ln = lname(s.name)
        self.env[s.name] = Var(ln, "fn", fn=("ub", "bool"))
        out = ["%slet %s := fun (%s : PUB) => (" % (ind, ln, lname(x))]
        out += ["%s  %s" % (ind, t) for t in lets]
        out.append("%s  %s)" % (ind, r.lean))
        return out

    def assign(self, s, ind):
        if isinstance(s, ast.Assign):
            if len(s.targets) != 1:
                raise self.err("multiple assignment targets", s)
            tgt, val = s.targets[0], s.value
        else:
            tgt, val = s.target, s.value
            if val is None:
                return []
        if isinstance(tgt, ast.Name):
            return self.assign_name(tgt.id, self.ex(val), ind, s)
        if isinstance(tgt, ast.Attribute):
            # self._manifest = mf
            if _is_name(tgt.value, self.selfname or "\0"):
                if tgt.attr == "_manifest":
                    v = self.coerce(self.ex(val), ("opt", "manifest"), s)
                    if isinstance(val, ast.Name) and val.id in self.env:
                        old = self.env[val.id]
                        self.env[val.id] = Var(old.lean, old.ty, owner=old.owner, shares=old.shares, ref=True, param=old.param)
                    return ["%s%s" % (ind, self.stmt_act("pySetManifest %s" % v.lean, "W"))]
                raise self.err("assignment to `self.%s` is not in the dictionary" % tgt.attr, s)
            # <local>.field = value
            if isinstance(tgt.value, ast.Name) and tgt.value.id in self.env and tgt.value.id in self.bound:
                x = tgt.value.id
                old = self.env[x]
                if old.param:
                    raise self.err("assignment to a field of the parameter `%s` (callers pass values)" % x, s)
                if old.ref:
                    raise self.err("assignment to a field of `%s`, which is stored in the record object (aliasing is not in the dictionary)" % x, s)
                if old.ty == "ub" and tgt.attr in ("hdf5_hashsum", "prev_patch"):
                    v = self.coerce(self.ex(val), UB_FIELDS[tgt.attr][1], s)
                    self.note_mut(x)
                    return ["%s%s := PUB.with_%s %s %s" % (ind, old.lean, tgt.attr, old.lean, v.lean)]
                if old.ty == "manifest" and tgt.attr == "manifest_exts":
                    v = self.coerce(self.ex(val), "exts", s)
                    self.note_mut(x)
                    return ["%s%s := Manifest.with_manifest_exts %s %s" % (ind, old.lean, old.lean, v.lean)]
            raise self.err("unsupported assignment `%s`" % _d(s), s)
        if isinstance(tgt, ast.Subscript) and not isinstance(tgt.slice, ast.Slice):
            # ds[k].attrs[a] = v  /  node.attrs[k] = v  /  ds[k] = v
            if isinstance(tgt.value, ast.Attribute) and tgt.value.attr == "attrs":
                holder = tgt.value.value
                k = self.ex(tgt.slice)
                if k.ty != "key":
                    raise self.err("attribute name `%s` (%s)" % (_d(tgt.slice), k.ty), s)
                v = self.coerce(self.ex(val), "val", s)
                if isinstance(holder, ast.Subscript) and not isinstance(holder.slice, ast.Slice):
                    o = self.local_obj(holder.value, s)
                    p = self.path_of(holder.slice)
                    return self.rebind_obj(o, "pyItemAttrSet %s %s %s %s" % (self.env[o].lean, p.lean, k.lean, v.lean), "E", ind)
                if isinstance(holder, ast.Name) and holder.id in self.env and self.env[holder.id].ty == "node":
                    nd = self.env[holder.id]
                    o = self.local_obj(ast.Name(id=nd.owner, ctx=ast.Load()), s)
                    return self.rebind_obj(o, "pyNodeAttrSet %s %s %s %s" % (self.env[o].lean, nd.lean, k.lean, v.lean), "E", ind)
            else:
                o = self.local_obj(tgt.value, s)
                p = self.path_of(tgt.slice)
                v = self.coerce(self.ex(val), "val", s)
                return self.rebind_obj(o, "pySetItem %s %s %s" % (self.env[o].lean, p.lean, v.lean), "E", ind)
        raise self.err("unsupported assignment `%s`" % _d(s), s)

    def exprstmt(self, c, ind, s):
        f = c.func
        if isinstance(f, ast.Name) and f.id in self.gen.done and self.gen.done[f.id]["inout"]:
            # init_stub_skeleton(target, skel): a translated function that changes its first argument
            d = self.gen.done[f.id]
            if c.keywords or len(c.args) != len(d["params"]):
                raise self.err("arguments of `%s`" % _d(c), s)
            o = self.local_obj(c.args[0], s)
            args = [self.env[o].lean] + [self.coerce(self.ex(a), t, s).lean for a, t in zip(c.args[1:], d["params"][1:])]
            return self.rebind_obj(o, "%s E %s" % (d["lean"], " ".join(args)), "E", ind)
        if isinstance(f, ast.Name) and f.id == "h5_copy_from_to" and len(c.args) == 3 and not c.keywords:
            src = self.ex(c.args[0])
            trg = self.ex(c.args[1])
            name = self.ex(c.args[2])
            if src.ty != "node" or trg.ty != "node" or name.ty != "key":
                raise self.err("`%s`: expected (source node, target node, child name)" % _d(c), s)
            o = self.local_obj(ast.Name(id=trg.owner, ctx=ast.Load()), s)
            if src.owner == o:
                raise self.err("`%s`: source and target in the same record object" % _d(c), s)
            return self.rebind_obj(o, "pyH5CopyFromTo %s %s %s %s %s" % (self.obj_lean(src.owner, s), src.lean, self.env[o].lean, trg.lean, name.lean), "E", ind)
        if isinstance(f, ast.Attribute):
            recv, m = f.value, f.attr
            is_self = _is_name(recv, self.selfname or "\0")
            if m == "update" and len(c.args) == 1 and not c.keywords and isinstance(c.args[0], ast.Name):
                # <ext>.update(ub)
                ext = self.ex(recv)
                x = c.args[0].id
                if ext.ty == "ext" and x in self.env and self.env[x].ty == "ub" and x in self.bound:
                    old = self.env[x]
                    if old.param:
                        raise self.err("`%s` changes the parameter `%s` (callers pass values)" % (_d(c), x), s)
                    self.check_shared_exts(Val(old.lean, "ub", shares=old.shares, ref=old.ref, aux=x), s, "`%s`" % _d(c))
                    self.note_mut(x)
                    return ["%s%s := pyExtUpdate %s %s" % (ind, old.lean, ext.lean, old.lean)]
            if m == "save" and len(c.args) == 1 and not c.keywords:
                v = self.ex(recv)
                p = self.coerce(self.ex(c.args[0]), "fname", s)
                if v.ty == "manifest":
                    return ["%s%s" % (ind, self.stmt_act("pySaveManifest %s %s" % (p.lean, v.lean), "W"))]
                if v.ty == "ub":
                    return ["%s%s" % (ind, self.stmt_act("pySaveUB %s %s" % (p.lean, v.lean), "W"))]
            if is_self and m == "_expect_open" and not c.args and not c.keywords:
                return ["%s%s" % (ind, self.stmt_act("pyExpectOpen", "W"))]
            if m == "_set_ublock" and len(c.args) == 2 and not c.keywords:
                i = self.coerce(self.ex(c.args[0]), "int", s)
                ub = self.coerce(self.ex(c.args[1]), "ub", s)
                if isinstance(c.args[1], ast.Name) and c.args[1].id in self.env:
                    old = self.env[c.args[1].id]
                    self.env[c.args[1].id] = Var(old.lean, old.ty, shares=old.shares, ref=True, param=old.param)
                if is_self:
                    return ["%s%s" % (ind, self.stmt_act("pySetUblock %s %s" % (i.lean, ub.lean), "W"))]
                o = self.local_obj(recv, s)
                return self.rebind_obj(o, "pyObjSetUblock %s %s %s" % (self.env[o].lean, i.lean, ub.lean), "E", ind)
            if m == "create_group" and len(c.args) == 1 and not c.keywords and not is_self:
                o = self.local_obj(recv, s)
                p = self.path_of(c.args[0])
                return self.rebind_obj(o, "pyCreateGroup %s %s" % (self.env[o].lean, p.lean), "E", ind)
            if m == "commit_patch" and not is_self and not _is_super_call(c, m):
                o = self.local_obj(recv, s)
                if c.args or any(k.arg is None for k in c.keywords):
                    raise self.err("arguments of `%s`" % _d(c), s)
                call = self.gen.commit_call(self, {k.arg: k.value for k in c.keywords}, None, s)
                self.note_mut(o)
                return ["%s%s := (← pyOn %s (%s)).2" % (ind, self.env[o].lean, self.env[o].lean, call)]
            if _is_super_call(c, "commit_patch"):
                if c.args or len(c.keywords) != 1 or c.keywords[0].arg is not None or not _is_name(c.keywords[0].value, self.kwname or "\0"):
                    raise self.err("`%s`: expected super().commit_patch(**kwargs)" % _d(c), s)
                return ["%s%s" % (ind, self.stmt_act("pyBaseCommit E kwargs", "W"))]
            if is_self or _is_super_call(c, m):
                v = self.ex(c)
                if v.ty != "unit":
                    raise self.err("`%s` used as a statement" % _d(c), s)
                return ["%s%s" % (ind, v.aux)]
        raise self.err("unsupported statement `%s`" % _d(c), s)

    def forloop(self, s, ind):
        if s.orelse:
            raise self.err("for/else", s)
        it = self.ex(s.iter)
        if not (isinstance(it.ty, tuple) and it.ty[0] == "list"):
            raise self.err("loop over a %s: `%s`" % (it.ty, _d(s.iter)), s)
        el = it.ty[1]
        saved_env, saved_bound = dict(self.env), set(self.bound)
        if isinstance(s.target, ast.Name):
            names, tys = [s.target.id], [el]
        elif isinstance(s.target, ast.Tuple) and all(isinstance(t, ast.Name) for t in s.target.elts) and isinstance(el, tuple) and el[0] == "tuple" \
                and len(el) - 1 == len(s.target.elts):
            names, tys = [t.id for t in s.target.elts], list(el[1:])
        else:
            raise self.err("loop target `%s` for elements of type %s" % (_d(s.target), el), s)
        for n, t in zip(names, tys):
            if n in self.env:
                raise self.err("loop variable `%s` shadows a name" % n, s)
            self.env[n] = Var(lname(n), t, param=True)
        frame = dict(outer=set(saved_bound), muts=set())
        self.loops.append(frame)
        try:
            body = self.block(s.body, ind + "  ")
        finally:
            self.loops.pop()
        self.env = {k: (self.env.get(k, v) if k in saved_bound else v) for k, v in saved_env.items()}
        self.bound = saved_bound
        muts = sorted(frame["muts"])
        for m in muts:
            self.note_mut(m)
        pat = lname(names[0]) if len(names) == 1 else "(%s)" % ", ".join(lname(n) for n in names)
        if not muts:
            vs, lam_vs = "()", "_"
        elif len(muts) == 1:
            vs = lam_vs = self.env[muts[0]].lean
        else:
            vs = lam_vs = "(%s)" % ", ".join(self.env[m].lean for m in muts)
        head = "%spyFor %s %s (fun %s %s => do" % ("let _ ← " if not muts else vs + " ← ", it.lean, vs, pat, lam_vs)
        out = [ind + head]
        out += ["%s  let mut %s := %s" % (ind, self.env[m].lean, self.env[m].lean) for m in muts]
        out += [l.replace(self.VARS, vs) for l in body]
        out.append("%s  return %s)" % (ind, vs))
        return out

    def withstmt(self, s, ind):
        if len(s.items) != 1 or s.items[0].optional_vars is None or not isinstance(s.items[0].optional_vars, ast.Name):
            raise self.err("only `with <new record> as <name>:` is in the dictionary", s)
        name = s.items[0].optional_vars.id
        v = self.ex(s.items[0].context_expr)
        if v.ty != "obj" or not v.lean.startswith("(← pyNewRecord"):
            raise self.err("`with %s`: not a newly created record" % _d(s.items[0].context_expr), s)
        if name in self.env:
            raise self.err("`with … as %s` rebinds a name" % name, s)
        out = self.assign_name(name, v, ind, s)
        # names bound in the body stay visible afterwards (Python scoping; same `do` block in Lean)
        out += self.block(s.body, ind)
        # __exit__: close() commits with the commit_patch of the object's class (the exit on an exception is not modelled)
        call = self.gen.commit_call(self, {}, None, s)
        self.note_mut(name)
        out.append("%s%s := (← pyOn %s (pyClose (%s))).2" % (ind, self.env[name].lean, self.env[name].lean, call))
        return out

    def trystmt(self, s, ind):
        if s.orelse or s.finalbody or len(s.handlers) != 1:
            raise self.err("only try/except with one handler is in the dictionary", s)
        h = s.handlers[0]
        if not (_is_name(h.type, "ValueError") and h.name):
            raise self.err("only `except ValueError as <name>` is in the dictionary", s)
        if h.name in self.env:
            raise self.err("`except … as %s` shadows a name" % h.name, s)
        if self.loops:
            raise self.err("try inside a loop", s)
        self.in_try = True
        try:
            body = self.block(s.body, ind + "  ")
            self.env[h.name] = Var(lname(h.name), "err", param=True)
            handler = self.block(h.body, ind + "      ")
            del self.env[h.name]
        finally:
            self.in_try = False
        e = lname(h.name)
        return (["%stry" % ind] + body + ["%scatch %s =>" % (ind, e), "%s  match %s with" % (ind, e),
                                          "%s  | PyErr.valueError _ => do" % ind] + handler + ["%s  | _ => throw %s" % (ind, e)])

    # ------------------------------------------------------------------ whole function
    def translate(self, lean_name, doc):
        self.loops = []
        body = strip_doc(self.fn.body)
        lines = []
        for n in self.inout:
            lines.append("  let mut %s := %s" % (self.env[n].lean, self.env[n].lean))
        lines += self.block(body, "  ")
        if self.inout:
            lines.append("  return %s" % self.env[self.inout[0]].lean)
        elif lines[-1].strip() != "pure ()" and self.ret_ty == "unit" and lines[-1].lstrip().startswith(("let ", )):
            lines.append("  pure ()")
        ps = ["(E : Env V)"]
        ps += ["(%s : %s)" % (ln, lty(ty)) for _, ln, ty in self.params]
        self.kwparams.sort()  # the order of the `kwargs.pop` statements does not matter
        ps += ["(%s : Option (%s))" % (ln, lty(ty)) for _, ln, ty, _ in self.kwparams]
        if self.kwname:
            ps.append("(kwargs : List String)")
        rt = lty("obj" if self.inout else self.ret_ty)
        m = "PyM V (%s)" % rt if self.monad == "W" else "Except PyErr (%s)" % rt
        return "/-- %s -/\ndef %s %s :\n    %s := do\n%s\n" % (doc, lean_name, " ".join(ps), m, "\n".join(lines))


class Gen:
    # python function name -> kind (for calls by plain name)
    FUNCS = {"init_stub_skeleton": dict(kind="func"), "init_stub_base": dict(kind="func")}

    def __init__(self):
        self.trees = {f: _src(f) for f in (REC, MFS, SKL)}
        self.done = {}     # key -> dict(lean, params, ret, monad, inout, kw)
        self.out = [HEADER]
        self.errors = []

    # ------------------------------------------------------------------ lookup
    def method(self, file, cls, name, decorator=None):
        c = find_class(self.trees[file], cls)
        fns = [n for n in c.body if isinstance(n, (ast.FunctionDef, ast.AsyncFunctionDef)) and n.name == name]
        if len(fns) != 1 or not isinstance(fns[0], ast.FunctionDef):
            raise TranslateError("%s.%s: %d definitions" % (cls, name, len(fns)))
        decos = [_d(d) for d in fns[0].decorator_list]
        if decos != ([decorator] if decorator else []):
            raise TranslateError("%s.%s: decorators %s, expected %s" % (cls, name, decos, decorator))
        return fns[0]

    def has_method(self, file, cls, name):
        return any(isinstance(n, (ast.FunctionDef, ast.AsyncFunctionDef)) and n.name == name for n in find_class(self.trees[file], cls).body)

    def func(self, file, name):
        fns = [n for n in self.trees[file].body if isinstance(n, (ast.FunctionDef, ast.AsyncFunctionDef)) and n.name == name]
        if len(fns) != 1 or not isinstance(fns[0], ast.FunctionDef) or fns[0].decorator_list:
            raise TranslateError("%s: %d definitions" % (name, len(fns)))
        return fns[0]

    # ------------------------------------------------------------------ calls between translated methods
    def need(self, fn, key, node):
        d = self.done.get(key)
        if d is None:
            raise fn.err("`%s` is not translated" % key, node)
        return d

    def call_method(self, fn, name, args, node, is_super=False):
        """`self.<name>(args)` / `super().<name>(args)` / the property `self.manifest`"""
        cls = fn.qual.split(".")[0]
        if name == "manifest" and not is_super:
            if cls != "IH5MFRecord":
                raise fn.err("`self.manifest` outside IH5MFRecord", node)
            d = self.need(fn, "IH5MFRecord.manifest", node)
            return Val(fn.act("%s E" % d["lean"], "W"), "manifest", ref=True)
        if name == "_fresh_manifest" and not is_super and not args:
            if cls != "IH5MFRecord":
                raise fn.err("`self._fresh_manifest` outside IH5MFRecord", node)
            d = self.need(fn, "IH5MFRecord._fresh_manifest", node)
            return Val(fn.act("%s E" % d["lean"], "W"), "manifest")
        if name == "_fixes_after_merge" and not is_super:
            d = self.need(fn, "dispatch__fixes_after_merge", node)
            if len(args) != 2:
                raise fn.err("arguments of `%s`" % _d(node), node)
            a = [fn.coerce(args[0], "fname", node), fn.coerce(args[1], "ub", node)]
            txt = "%s E %s %s" % (d["lean"], a[0].lean, a[1].lean)
            return Val("()", "unit", aux=fn.stmt_act(txt, "W"))
        if name == "merge_files" and is_super and cls == "IH5MFRecord":
            d = self.need(fn, "IH5Record.merge_files", node)
            if len(args) != 1:
                raise fn.err("arguments of `%s`" % _d(node), node)
            a = fn.coerce(args[0], "recpath", node)
            return Val(fn.act("%s E %s" % (d["lean"], a.lean), "W"), "fname")
        raise fn.err("call of `%s%s` is not in the dictionary" % ("super()." if is_super else "self.", name), node)

    def commit_call(self, fn, kws, kwargs, node):
        """Lean text of `<obj>.commit_patch(**kws)` (run with `pyOn`): dispatch on the class of the object"""
        d = self.need(fn, "dispatch_commit_patch", node)
        args = []
        for name, ln, ty, dflt in d["kw"]:
            if name in kws:
                v = fn.coerce(fn.ex(kws.pop(name)), ty, node)
                if "(←" in v.lean:
                    raise fn.err("keyword argument `%s` can raise / reads the state" % name, node)
                args.append("(some %s)" % v.lean)
            else:
                args.append("none")
        if kws:
            raise fn.err("keyword arguments %s of commit_patch are not in the dictionary" % sorted(kws), node)
        return "%s E %s []" % (d["lean"], " ".join(args))

    # ------------------------------------------------------------------ emission
    def emit(self, key, thunk):
        try:
            thunk()
        except TranslateError as e:
            self.errors.append(str(e) if str(e).startswith(key) else "%s: %s" % (key, e))
            self.out.append("/-! NOT TRANSLATED `%s`: %s -/\n" % (key, str(e).replace("-/", "- /")))
        except Exception as e:  # noqa: BLE001  (a shape the translator did not foresee: an obligation, never a crash)
            msg = "%s: not understood (%s: %s)" % (key, type(e).__name__, e)
            self.errors.append(msg)
            self.out.append("/-! NOT TRANSLATED `%s`: %s -/\n" % (key, msg.replace("-/", "- /")))

    def one(self, key, file, cls, name, params, ret, monad, deco=None, inout=(), kind="method"):
        def th():
            node = self.method(file, cls, name, deco) if cls else self.func(file, name)
            qual = "%s.%s" % (cls, name) if cls else name
            f = Fn(self, qual, node, params, ret, monad, selfname=(kind == "method") or None, clsname=(kind == "classmethod") or None,
                   inout=())
            f.inout = [f.params[i][0] for i in inout]
            doc = "`%s` (%s, l. %d-%d)" % (qual, file, node.lineno, node.end_lineno)
            txt = f.translate(key, doc)
            self.done[key] = dict(lean=key, params=params, ret=ret, monad=monad, inout=bool(inout), kw=list(f.kwparams), has_kwargs=bool(f.kwname))
            self.out.append(txt)
        self.emit(key, th)

    def dispatch(self, key, base_key, mf_key, sig, call_args, ret):
        """dynamic dispatch of `self.<method>` on the class of the object"""
        b, m = self.done.get(base_key), self.done.get(mf_key)
        if b is None or m is None:
            self.errors.append("%s: not generated (a method it dispatches to is not translated)" % key)
            self.out.append("/-! NOT TRANSLATED `%s` -/\n" % key)
            return
        self.out.append("/-- `self.%s(…)`: the method of the class of `self` -/\ndef %s (E : Env V) %s :\n    PyM V (%s) := do\n"
                        "  match (← pySelf).cls with\n  | .IH5Record => %s E %s\n  | .IH5MFRecord => %s E %s\n" % (
                            key.split("dispatch_")[1], key, sig, lty(ret), b["lean"], call_args, m["lean"], call_args))
        self.done[key] = dict(lean=key, kw=[])

    def run(self):
        self.one("init_stub_skeleton", SKL, None, "init_stub_skeleton", ["obj", "skel"], "unit", "E", inout=(0,), kind="func")
        self.one("init_stub_base", SKL, None, "init_stub_base", ["obj", "ub", "skel"], "unit", "E", inout=(0,), kind="func")
        self.one("IH5MFRecord.manifest", MFS, "IH5MFRecord", "manifest", [], "manifest", "W", deco="property")
        self.one("IH5MFRecord._fresh_manifest", MFS, "IH5MFRecord", "_fresh_manifest", [], "manifest", "W")
        fx = ["fname", "ub"]
        self.one("IH5Record._fixes_after_merge", REC, "IH5Record", "_fixes_after_merge", fx, "unit", "W")
        if self.has_method(MFS, "IH5MFRecord", "_fixes_after_merge"):
            self.one("IH5MFRecord._fixes_after_merge", MFS, "IH5MFRecord", "_fixes_after_merge", fx, "unit", "W")
            mfk = "IH5MFRecord._fixes_after_merge"
        else:
            mfk = "IH5Record._fixes_after_merge"
        self.dispatch("dispatch__fixes_after_merge", "IH5Record._fixes_after_merge", mfk, "(file : FName) (ub : PUB)", "file ub", "unit")
        # commit_patch: the base-class method is the dictionary's `pyBaseCommit`
        self.one("IH5MFRecord.commit_patch", MFS, "IH5MFRecord", "commit_patch", [], "unit", "W")
        cp = self.done.get("IH5MFRecord.commit_patch")
        if cp is not None and cp["has_kwargs"]:
            sig = " ".join("(%s : Option (%s))" % (ln, lty(ty)) for _, ln, ty, _ in cp["kw"]) + " (kwargs : List String)"
            names = ", ".join("(\"%s\", %s.isSome)" % (n, ln) for n, ln, _, _ in cp["kw"])
            args = " ".join(ln for _, ln, _, _ in cp["kw"]) + " kwargs"
            self.out.append("/-- `obj.commit_patch(**kw)`: the method of the class of the object (the base class knows no keyword) -/\n"
                            "def dispatch_commit_patch (E : Env V) %s :\n    PyM V (Unit) := do\n  match (← pySelf).cls with\n"
                            "  | .IH5Record => pyBaseCommit E (pyKwNames [%s] ++ kwargs)\n  | .IH5MFRecord => IH5MFRecord.commit_patch E %s\n" % (sig, names, args))
            self.done["dispatch_commit_patch"] = dict(lean="dispatch_commit_patch", kw=cp["kw"])
        else:
            self.errors.append("dispatch_commit_patch: not generated")
            self.out.append("/-! NOT TRANSLATED `dispatch_commit_patch` -/\n")
        self.one("IH5Record.merge_files", REC, "IH5Record", "merge_files", ["recpath"], "fname", "W")
        if self.has_method(MFS, "IH5MFRecord", "merge_files"):
            self.one("IH5MFRecord.merge_files", MFS, "IH5MFRecord", "merge_files", ["recpath"], "fname", "W")
            mk = "IH5MFRecord.merge_files"
        else:
            mk = "IH5Record.merge_files"
        self.dispatch("dispatch_merge_files", "IH5Record.merge_files", mk, "(target : Nat)", "target", "fname")
        self.one("IH5MFRecord.create_stub", MFS, "IH5MFRecord", "create_stub", ["recpath", "fname"], "obj", "W", deco="classmethod", kind="classmethod")


def gen_mergefns():
    g = Gen()
    g.run()
    g.out.append("end %s\n" % NS)
    return "\n".join(g.out), g.errors


def _path(lean_mod):
    return os.path.join(lean_mod.LEAN, "MetadorModel", "Gen", "MergeFns.lean")


def write_stub(lean_mod, why):
    """what is written when the translator itself fails: no definitions, so that the bridge cannot build"""
    text = HEADER + "\n/-! NOT TRANSLATED: %s -/\n\nend %s\n" % (why.replace("-/", "- /"), NS)
    lean_mod.write_if_changed(_path(lean_mod), text)


def write(lean_mod):
    """regenerate Gen/MergeFns.lean; returns an info string"""
    try:
        text, errors = gen_mergefns()
    except Exception as e:  # noqa: BLE001
        write_stub(lean_mod, "%s: %s" % (type(e).__name__, e))
        if isinstance(e, TranslateError):
            raise
        raise TranslateError("%s: %s" % (type(e).__name__, e))
    changed = lean_mod.write_if_changed(_path(lean_mod), text)
    if errors:
        # what could be translated is written (so that only the bridge modules of the affected functions fail)
        raise TranslateError("; ".join(errors))
    return "Gen/MergeFns.lean %s (%d lines)" % ("rewritten" if changed else "unchanged", text.count("\n"))


if __name__ == "__main__":
    _t, _e = gen_mergefns()
    print(_t)
    print("\n".join("NOT TRANSLATED " + x for x in _e))
