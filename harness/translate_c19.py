"""Python-AST -> Lean translation of the pure core of `util/hashsums.py` (property C19).

Regenerates `lean/MetadorModel/Gen/HashsumsFns.lean` from the current source of
`envshim.REPO` (honours METADOR_REPO) on every `./check C19`. The bridge theorems of
`lean/MetadorModel/Bridge/HashsumsFns.lean` (re-checked by `lake build` on every run) state
that the generated definitions equal the hand-written model of `Model/Hashsums.lean`, so that
the theorems of `Props/C19.lean` (which are about the model) are theorems about what the
source says now.

What is translated (src/metador_core/util/hashsums.py, line numbers of the pinned tree)
--------------------------------------------------------------------------------------
* `DEF_HASH_ALG` (line 36)                         -> `Gen.HashsumsFns.DEF_HASH_ALG`
* `rel_symlink` (lines 58-69), whole body           -> `Gen.HashsumsFns.rel_symlink`
* `dir_hashsums` (lines 72-117), whole body:
    - the function frame (`ret = {}`, the `for` over `dir.rglob("*")`, `return ret`)
                                                    -> `dir_hashsums` / `dir_hashsums_loop0`
    - the loop body (lines 84-115: the `is_file`/`is_symlink` tests and their ORDER, `fname`
      / `relpath.parent`, the `rel_symlink` call and the `ValueError`, `"symlink:" + str(..)`,
      the `file_hashsum` call, `curr = ret`, `assert`, `curr[fname] = val`)
                                                    -> `dir_hashsums_body0`
    - the inner loop (lines 104-109: `str(relpath).split("/")`, the `"."` skip with
      `continue`, `if seg not in curr: curr[seg] = dict()`, `curr = curr[seg]`)
                                                    -> `dir_hashsums_body1` / `_loop1`
    - the default `alg=DEF_HASH_ALG`                -> `dir_hashsums_d`

The translation is structural: every `if/elif/else` becomes an `if … then … else`, every
`for` a structurally recursive function over the list iterated (`…_loop<i>`, with its body as
`…_body<i>`; the variables the body re-binds are the loop state), `continue` / `return` /
`raise` end the enclosing block, `try … except E` is a `match` on the raised exception class,
`x is None` + exit (and `assert x is not None`) is a `match` on the `Option` that narrows `x`
afterwards, every call that can raise is sequenced with `Py.bind` in Python's evaluation order
(left to right, arguments first; `and`/`or` operands after the first must be effect free).
Loops are numbered in the order in which they start, tuples of re-bound variables are ordered
by first assignment, so the text does not depend on the names of locals.

Value dictionary (fixed; Lean side: `lean/MetadorModel/Model/HashsumsPy.lean`, which has the
same table with the definitions)
--------------------------------------------------------------------------------------
    the hashed directory (`Path` parameter 1 of both functions)  FsTree
    `d.rglob("*")`                                  d.entries  (order = whatever rglob yields)
    a yielded entry / parameter 2 of rel_symlink    Entry
    `p.is_file()` / `p.is_symlink()`                p.node.isFile / p.node.isSymlink
    `p.relative_to(d)`  (p yielded by d.rglob)      p.path
    `str(p)` -> `os.readlink(..)`                   osReadlink p          (OSError if no link)
    `p.parent / <text read from p>`                 parentJoin p text
    `(..).resolve()` / `d.resolve()`                Unresolved.resolve / FsTree.resolve (data:
                                                    the OS's answer is part of the `sym` node)
    `a.relative_to(b)` on resolved paths            pyRelativeTo a b      (ValueError)
    `r.name`, `r.parent`, `str(r)` (relative path)  pathName, pathParent, pathStr
    `str(x)`, x Optional[Path]                      pyStrOptPath x        ("None" for None)
    `s.split("/")`                                  splitSlash s
    `a + b` (str), `a == b`, `a != b` (str)         a ++ b, a == b, a != b
    `and` / `or` / `not` on bool                    && / || / !
    `x is None` / `x is not None`                   x.isNone / x.isSome (false/true if x cannot
                                                    be None)
    `None` / value stored in an Optional variable   none / some v
    `{}` / `dict()`                                 HT.node []
    `ret` (the dict the function builds)            HT
    `curr = ret`, `curr = curr[k]`                  Cursor [] , pyGetItem ret curr k
                                                    (TypeError on a str, KeyError)
    `k in curr` / `k not in curr`                   pyContains ret curr k  (substring test when
                                                    curr rests on a str value)
    `curr[k] = dict()` / `curr[k] = <str>`          pySetItem ret curr k (.node [] / .leaf s)
                                                    (TypeError when curr rests on a str)
    `rel_symlink(d, p)`                             the generated rel_symlink
    `file_hashsum(p, alg)`                          pyFileHashsum hl p alg
    `raise E(...)`                                  .error .e   (message not translated)
    `assert c`                                      AssertionError unless c

NOT translated (tied to the source by the correspondence run / the oracle only)
--------------------------------------------------------------------------------------
* `hashsum`, `qualified_hashsum`, `file_hashsum` (lines 18-47): hashing, translated for C17 by
  `Model/Bytes.lean`'s own bridge; here `file_hashsum(path, alg)` is the dictionary entry
  `pyFileHashsum` = `qualifiedHashsum hl (bytes behind path) alg`.
* pathlib / os: `rglob`, `is_file`, `is_symlink`, `readlink`, `resolve`, `relative_to`,
  `name`, `parent`, `str`, `str.split` are dictionary entries (models), not translated text.
* exception messages (f-strings), type annotations, docstrings, comments.
* that `rglob("*")` yields each entry below `dir` once (`FsTree.WF`, checked by the harness).

Mutation tests of the tie (scratch worktree, `METADOR_REPO=… ./check C19 --tier quick`)
--------------------------------------------------------------------------------------
Behaviour-changing edits — bridge module no longer builds (named in the obligations), exit 1,
each also with a failing input from the oracle: `is_file` tested before `is_sym` (the pinned
order, F10); `curr[seg] = dict()` without the `not in` test; the `"."` skip removed;
`"symlink:"` -> `"link:"`; the `raise ValueError` for outside links removed; `fname`/`parent`
only for `is_file`; `relative_to(base.resolve().parent)` in `rel_symlink`.
Behaviour-preserving edits that keep the tie green: renaming all locals; comments, a string
used as comment, splitting `is_file, is_sym = …` into two statements; reordering the
independent initialisations; `is_sym or is_file`; `not (seg in curr)`; the `"."` skip written
as `if seg != ".": <rest of the body>` instead of `continue`; `leaf = is_file or is_sym` as a
local; `elif is_file` written as a second `if is_file and not is_sym`; `if sym_trg is not
None: … else: raise`.
Behaviour-preserving edits that BREAK the tie (undischarged `translate:C19` + bridge
obligations, exit 1 with `no-failing-input-found`): anything outside the accepted shapes, e.g.
deleting `assert fname is not None` (the key of `curr[fname] = val` is then `Optional[str]`
for the translator, and a `None` key has no counterpart in the model's dict), f-strings for
values, `a if c else b`, `while` loops, comprehensions, `dict.setdefault`, `os.path` instead
of pathlib, a second live alias into `ret`, `break`, `return` inside a loop, truthiness tests
of non-bools.
Seeded changes: C19-s1 (`rel_symlink` via `os.path.realpath`/`startswith`) is refused by the
translator (no dictionary entry for `os.path`) -> `translate:C19` and all bridge theorems
undischarged, next to the oracle's failing input; C19-s2 (directories skipped with `continue`)
translates, the proof of `gen_loop_body` fails and with it the bridge module; C19-s3 / C19-s4 change `file_hashsum` /
`qualified_hashsum`, which are not translated here (dictionary entry `pyFileHashsum`; C17's
translation covers them) — caught by oracle and correspondence only.
When the translation fails the generated file is replaced by a stub without definitions, so
no text from an earlier state of the source stays behind.
"""
import ast
import os
import re

from . import lean
from . import translate as tr
from .translate import TranslateError, find_func, strip_doc, lean_str, module_str_constants

SRC = "src/metador_core/util/hashsums.py"
OUT = os.path.join(lean.LEAN, "MetadorModel", "Gen", "HashsumsFns.lean")

# positional parameter types / result type of the translated functions
SIGS = {
    "rel_symlink": (["rootdir", "entry"], ("opt", "ppath")),
    "dir_hashsums": (["rootdir", "str"], "dict"),
}
EXC = {"ValueError": "valueError", "TypeError": "typeError", "KeyError": "keyError", "OSError": "osError",
       "AssertionError": "assertionError"}

RESERVED = set("""
if then else match with fun let def do at from in end open namespace theorem have show by where instance
structure inductive class deriving section variable universe import export mutual private protected
partial unsafe macro syntax notation infix infixl infixr prefix postfix return for unless try catch
finally throw true false none some Type Prop Sort ok error hl rest_ x_ r_ Py Str Path Name Entry FsTree HT
Cursor LinkText Unresolved PyErr Err Node Cfg
osReadlink parentJoin pyRelativeTo pyStrOptPath pyFileHashsum pyContains pySetItem pyGetItem strContains
pathStr pathName pathParent splitSlash joinSlash relativeTo dget dset put strLt liftE liftErr noneStr
symlinkPrefix DEF_HASH_ALG rel_symlink dir_hashsums
""".split())


def ident(name):
    if name in RESERVED or re.fullmatch(r"t\d+", name) or not re.fullmatch(r"[A-Za-z_][A-Za-z0-9_]*", name) or name.startswith("__"):
        return name + "'"
    return name


def lty(t):
    if isinstance(t, tuple):
        k = t[0]
        if k == "opt":
            return "(Option %s)" % lty(t[1])
        if k == "entry":
            return "Entry"
        if k == "cursor":
            return "Cursor"
        if k == "linktext":
            return "LinkText"
        if k == "unresolved":
            return "Unresolved"
        if k == "list":
            return "(List %s)" % lty(t[1])
    return {"bool": "Bool", "str": "Str", "ppath": "Path", "rootdir": "FsTree", "dict": "HT", "unit": "Unit",
            "?": "_"}.get(t) or _bad("no Lean type for %r" % (t,))


def _bad(msg):
    raise TranslateError(msg)


def src_of(node):
    try:
        return ast.unparse(node)[:90]
    except Exception:  # pragma: no cover
        return type(node).__name__


def is_none_const(e):
    return isinstance(e, ast.Constant) and e.value is None


def none_test(e):
    """`X is None` -> (X, True); `X is not None` -> (X, False); else None"""
    if isinstance(e, ast.Compare) and len(e.ops) == 1 and isinstance(e.left, ast.Name) and is_none_const(e.comparators[0]):
        if isinstance(e.ops[0], ast.Is):
            return e.left.id, True
        if isinstance(e.ops[0], ast.IsNot):
            return e.left.id, False
    return None


def terminates(body):
    if not body:
        return False
    s = body[-1]
    if isinstance(s, (ast.Return, ast.Raise, ast.Continue)):
        return True
    if isinstance(s, ast.If):
        return terminates(s.body) and terminates(s.orelse)
    if isinstance(s, ast.Try):
        return terminates(s.body) and all(terminates(h.body) for h in s.handlers) and not s.orelse and not s.finalbody
    return False


class Fn:
    """Translator of one function. Run twice: pass 1 finds the types of the locals (a local
    that is assigned `None` somewhere is an `Option`), pass 2 emits."""

    def __init__(self, gen, fn):
        self.gen = gen
        self.fn = fn
        self.name = fn.name
        self.declared = {}
        self.order = []  # python names in order of first definition

    # ------------------------------------------------------------------ set-up per pass
    def start(self):
        self.env = {}
        self.tmp = 0
        self.loops = 0
        self.defs = []
        self.uses_hl = False
        self.live = {}  # dict root -> name through which it may be used now
        self.ctx = []  # enclosing loops: list of carried-variable lists
        self.in_if = 0  # depth of fall-through branches being translated
        a = self.fn.args
        ptys, self.rty = SIGS[self.name]
        if a.vararg or a.kwarg or a.kwonlyargs or a.posonlyargs or len(a.args) != len(ptys):
            _bad("%s: expected %d positional parameters" % (self.name, len(ptys)))
        self.params = []
        for arg, t in zip(a.args, ptys):
            if t == "entry":
                t = ("entry", None)
            self.define(arg.arg, t)
            self.params.append(arg.arg)
        self.aliases = self.scan_aliases()

    def define(self, name, ty):
        if name not in self.order:
            self.order.append(name)
        d = self.declared.get(name)
        if d is None:
            d = ("opt", "?") if ty == "none" else ty
        elif d == ty or ty == ("opt", "?"):
            pass
        elif d == ("opt", "?") and ty != "none":
            d = ty if isinstance(ty, tuple) and ty[0] == "opt" else ("opt", ty)
        elif isinstance(d, tuple) and d[0] == "opt" and (ty == "none" or ty == d[1]):
            pass
        elif ty == "none":
            d = ("opt", d)
        elif isinstance(ty, tuple) and ty[0] == "opt" and ty[1] == d:
            d = ty
        elif isinstance(d, tuple) and isinstance(ty, tuple) and d[0] == ty[0] == "cursor" and d[1] == ty[1]:
            pass
        else:
            _bad("%s: variable %s is assigned values of type %r and %r" % (self.name, name, d, ty))
        self.declared[name] = d
        self.env[name] = d
        return d

    def scan_aliases(self):
        """python name -> dict root it aliases into (syntactic, whole function)"""
        roots = set()
        al = {}
        assigns = []
        for n in ast.walk(self.fn):
            if isinstance(n, ast.Assign) and len(n.targets) == 1 and isinstance(n.targets[0], ast.Name):
                assigns.append((n.targets[0].id, n.value))
            elif isinstance(n, ast.AnnAssign) and isinstance(n.target, ast.Name) and n.value is not None:
                assigns.append((n.target.id, n.value))
        for t, v in assigns:
            if self.is_newdict(v):
                roots.add(t)
                al[t] = t
        for _ in range(len(assigns) + 1):
            for t, v in assigns:
                src = None
                if isinstance(v, ast.Name):
                    src = v.id
                elif isinstance(v, ast.Subscript) and isinstance(v.value, ast.Name):
                    src = v.value.id
                if src in al:
                    if t in al and al[t] != al[src]:
                        _bad("%s: %s aliases into two different dicts" % (self.name, t))
                    if t in roots and al[src] != t:
                        _bad("%s: dict %s is re-bound to an alias" % (self.name, t))
                    al[t] = al[src]
        return al

    @staticmethod
    def is_newdict(v):
        if isinstance(v, ast.Dict) and not v.keys:
            return True
        return isinstance(v, ast.Call) and isinstance(v.func, ast.Name) and v.func.id == "dict" and not v.args and not v.keywords

    # ------------------------------------------------------------------ helpers
    def newtmp(self):
        self.tmp += 1
        return "t%d" % (self.tmp - 1)

    def nm(self, py):
        return ident(py)

    def coerce(self, text, frm, to):
        if frm == to or to == "?" or frm == "?":
            return text
        if isinstance(to, tuple) and to[0] == "opt":
            if frm == "none":
                return "none"
            if isinstance(frm, tuple) and frm[0] == "opt":
                if frm[1] == "?" or to[1] == "?" or frm[1] == to[1]:
                    return text
            elif frm == to[1] or to[1] == "?":
                return "(some %s)" % text
        if isinstance(to, tuple) and isinstance(frm, tuple) and to[0] == frm[0] == "cursor" and to[1] == frm[1]:
            return text
        if isinstance(to, tuple) and isinstance(frm, tuple) and to[0] == frm[0] == "entry":
            return text
        _bad("%s: a value of type %r is used where %r is expected (%s)" % (self.name, frm, to, text[:40]))

    def tuple_of(self, vs, typed=False):
        """Lean tuple of the current values of python variables vs, at their declared types"""
        if not vs:
            return "()"
        parts = [self.coerce(self.nm(v), self.env[v], self.declared[v]) for v in vs]
        return parts[0] if len(parts) == 1 else "(" + ", ".join(parts) + ")"

    def tuple_pat(self, vs):
        if not vs:
            return "()"
        return self.nm(vs[0]) if len(vs) == 1 else "(" + ", ".join(self.nm(v) for v in vs) + ")"

    def tuple_ty(self, vs):
        if not vs:
            return "Unit"
        return " × ".join(lty(self.declared[v]) for v in vs) if len(vs) > 1 else lty(self.declared[vs[0]])

    def rebind(self, vs):
        for v in vs:
            self.env[v] = self.declared[v]

    def assigned(self, body):
        """python names (re)bound by the statements, dict roots written through aliases included"""
        out = []

        def add(n):
            if n not in out:
                out.append(n)

        def tgt(t):
            if isinstance(t, ast.Name):
                add(t.id)
            elif isinstance(t, (ast.Tuple, ast.List)):
                for x in t.elts:
                    tgt(x)
            elif isinstance(t, ast.Subscript) and isinstance(t.value, ast.Name):
                if t.value.id not in self.aliases:
                    _bad("%s: store into %s, which is not a dict built here" % (self.name, t.value.id))
                add(self.aliases[t.value.id])
            else:
                _bad("%s: unsupported assignment target %s" % (self.name, src_of(t)))

        for s in body:
            for n in ast.walk(s):
                if isinstance(n, ast.Assign):
                    for t in n.targets:
                        tgt(t)
                elif isinstance(n, (ast.AnnAssign, ast.AugAssign)):
                    tgt(n.target)
                elif isinstance(n, ast.For):
                    tgt(n.target)
                elif isinstance(n, (ast.NamedExpr, ast.Delete, ast.With, ast.Global, ast.Nonlocal)):
                    _bad("%s: unsupported statement/expression %s" % (self.name, type(n).__name__))
        return out

    def used(self, body):
        out = set()
        for s in body:
            for n in ast.walk(s):
                if isinstance(n, ast.Name):
                    out.add(n.id)
                    if n.id in self.aliases:
                        out.add(self.aliases[n.id])
        return out

    # ------------------------------------------------------------------ expressions
    def cursor_of(self, name, write):
        """Lean (root, cursor) texts for a python name that is a dict root or an alias into one"""
        t = self.env.get(name)
        if t == "dict":
            root = name
            cur = "([] : Cursor)"
        elif isinstance(t, tuple) and t[0] == "cursor":
            root = t[1]
            cur = self.nm(name)
        else:
            _bad("%s: %s is not a dict here" % (self.name, name))
        if root not in self.env:
            _bad("%s: dict %s is not in scope" % (self.name, root))
        live = self.live.get(root, root)
        if name != live and (write or name != root):
            _bad("%s: %s is used while %s is the live alias into %s" % (self.name, name, live, root))
        return root, cur

    def pure(self, e, what):
        n = len(self.pre)
        r = self.ex(e)
        if len(self.pre) != n:
            _bad("%s: %s must be free of calls that can raise: %s" % (self.name, what, src_of(e)))
        return r

    def hoist(self, code, ty):
        t = self.newtmp()
        self.pre.append((t, code))
        return t, ty

    def ex(self, e):
        """-> (lean text, type); calls that can raise are hoisted into self.pre in evaluation order"""
        if isinstance(e, ast.Name):
            if e.id in self.env:
                t = self.env[e.id]
                if t == "dict" and self.live.get(e.id, e.id) != e.id:
                    pass  # the whole dict as a value (e.g. `return ret`) is fine
                return self.nm(e.id), t
            if e.id in self.gen.consts:
                self.gen.used_consts.add(e.id)
                return e.id, "str"
            _bad("%s: unknown name %s" % (self.name, e.id))
        if isinstance(e, ast.Constant):
            if e.value is None:
                return "none", "none"
            if isinstance(e.value, bool):
                return ("true" if e.value else "false"), "bool"
            if isinstance(e.value, str):
                return lean_str(e.value), "str"
            _bad("%s: unsupported constant %r" % (self.name, e.value))
        if self.is_newdict(e):
            return "(HT.node [])", "newdict"
        if isinstance(e, ast.BoolOp):
            parts = [self.ex(e.values[0])] + [self.pure(v, "operand of and/or after the first") for v in e.values[1:]]
            if any(t != "bool" for _, t in parts):
                _bad("%s: and/or on non-bool operands: %s" % (self.name, src_of(e)))
            sym = " && " if isinstance(e.op, ast.And) else " || "
            return "(" + sym.join(p for p, _ in parts) + ")", "bool"
        if isinstance(e, ast.UnaryOp) and isinstance(e.op, ast.Not):
            v, t = self.ex(e.operand)
            if t != "bool":
                _bad("%s: `not` on a non-bool: %s" % (self.name, src_of(e)))
            return "(!%s)" % v, "bool"
        if isinstance(e, ast.BinOp):
            l, lt = self.ex(e.left)
            r, rt = self.ex(e.right)
            if isinstance(e.op, ast.Add) and lt == rt == "str":
                return "(%s ++ %s)" % (l, r), "str"
            if isinstance(e.op, ast.Div) and isinstance(lt, tuple) and isinstance(rt, tuple) and lt[0] == "entryparent" and rt[0] == "linktext" and lt[1] == rt[1]:
                return "(parentJoin %s %s)" % (self.nm(lt[1]), r), ("unresolved", lt[1])
            _bad("%s: unsupported operator in %s (%r, %r)" % (self.name, src_of(e), lt, rt))
        if isinstance(e, ast.Compare):
            if len(e.ops) != 1:
                _bad("%s: chained comparison %s" % (self.name, src_of(e)))
            op = e.ops[0]
            if isinstance(op, (ast.Is, ast.IsNot)):
                if not is_none_const(e.comparators[0]):
                    _bad("%s: `is` with something else than None: %s" % (self.name, src_of(e)))
                v, t = self.ex(e.left)
                isn = isinstance(op, ast.Is)
                if t == "none":
                    return ("true" if isn else "false"), "bool"
                if isinstance(t, tuple) and t[0] == "opt":
                    return "(%s.%s)" % (v, "isNone" if isn else "isSome"), "bool"
                return ("false" if isn else "true"), "bool"
            if isinstance(op, (ast.In, ast.NotIn)):
                k, kt = self.ex(e.left)
                c = e.comparators[0]
                if kt != "str" or not isinstance(c, ast.Name):
                    _bad("%s: unsupported membership test %s" % (self.name, src_of(e)))
                root, cur = self.cursor_of(c.id, write=False)
                t, _ = self.hoist("pyContains %s %s %s" % (self.nm(root), cur, k), "bool")
                return (t if isinstance(op, ast.In) else "(!%s)" % t), "bool"
            l, lt = self.ex(e.left)
            r, rt = self.ex(e.comparators[0])
            if isinstance(op, (ast.Eq, ast.NotEq)) and lt == rt and lt in ("str", "bool", "ppath"):
                return "(%s %s %s)" % (l, "==" if isinstance(op, ast.Eq) else "!=", r), "bool"
            _bad("%s: unsupported comparison %s (%r, %r)" % (self.name, src_of(e), lt, rt))
        if isinstance(e, ast.Subscript):
            if not isinstance(e.value, ast.Name):
                _bad("%s: unsupported subscript %s" % (self.name, src_of(e)))
            k, kt = self.ex(e.slice)
            if kt != "str":
                _bad("%s: dict key of type %r in %s" % (self.name, kt, src_of(e)))
            root, cur = self.cursor_of(e.value.id, write=False)
            return self.hoist("pyGetItem %s %s %s" % (self.nm(root), cur, k), ("cursor", root))
        if isinstance(e, ast.Attribute):
            v, t = self.ex(e.value)
            if e.attr == "parent":
                if t == "ppath":
                    return "(pathParent %s)" % v, "ppath"
                if isinstance(t, tuple) and t[0] == "entry" and isinstance(e.value, ast.Name):
                    return v, ("entryparent", e.value.id)
            if e.attr == "name" and t == "ppath":
                return "(pathName %s)" % v, "str"
            _bad("%s: unsupported attribute %s (receiver %r)" % (self.name, src_of(e), t))
        if isinstance(e, ast.Call):
            return self.call(e)
        _bad("%s: unsupported expression %s" % (self.name, src_of(e)))

    def call(self, e):
        if e.keywords:
            _bad("%s: keyword arguments in %s" % (self.name, src_of(e)))
        f = e.func
        if isinstance(f, ast.Name):
            if f.id == "str" and len(e.args) == 1:
                v, t = self.ex(e.args[0])
                if t == "ppath":
                    return "(pathStr %s)" % v, "str"
                if t == ("opt", "ppath"):
                    return "(pyStrOptPath %s)" % v, "str"
                if t == "str":
                    return v, "str"
                if isinstance(t, tuple) and t[0] == "entry" and isinstance(e.args[0], ast.Name):
                    return v, ("entrystr", e.args[0].id)
                _bad("%s: str() of a value of type %r" % (self.name, t))
            if f.id in SIGS and f.id != "dir_hashsums":
                ptys, rty = SIGS[f.id]
                if len(e.args) != len(ptys):
                    _bad("%s: wrong number of arguments in %s" % (self.name, src_of(e)))
                args = [self.ex(a) for a in e.args]
                for (v, t), want in zip(args, ptys):
                    if (t[0] if isinstance(t, tuple) else t) != want:
                        _bad("%s: argument of type %r where %r is expected in %s" % (self.name, t, want, src_of(e)))
                # the entry must be an entry of that very directory
                if f.id == "rel_symlink":
                    if not (isinstance(e.args[0], ast.Name) and args[1][1] == ("entry", e.args[0].id)):
                        _bad("%s: %s — the second argument must be an entry yielded by the first" % (self.name, src_of(e)))
                return self.hoist("%s %s" % (f.id, " ".join(v for v, _ in args)), rty)
            if f.id == "file_hashsum" and len(e.args) == 2:
                (p, pt), (a, at) = self.ex(e.args[0]), self.ex(e.args[1])
                if not (isinstance(pt, tuple) and pt[0] == "entry" and at == "str"):
                    _bad("%s: unsupported arguments in %s" % (self.name, src_of(e)))
                self.uses_hl = True
                return self.hoist("pyFileHashsum hl %s %s" % (p, a), "str")
            _bad("%s: call of unknown function %s" % (self.name, src_of(e)))
        if isinstance(f, ast.Attribute):
            # os.readlink(str(p))
            if isinstance(f.value, ast.Name) and f.value.id == "os" and "os" not in self.env:
                if f.attr == "readlink" and len(e.args) == 1:
                    v, t = self.ex(e.args[0])
                    who = None
                    if isinstance(t, tuple) and t[0] == "entrystr":
                        who = t[1]
                    elif isinstance(t, tuple) and t[0] == "entry" and isinstance(e.args[0], ast.Name):
                        who = e.args[0].id
                    if who is not None:
                        return self.hoist("osReadlink %s" % self.nm(who), ("linktext", who))
                _bad("%s: unsupported os call %s" % (self.name, src_of(e)))
            base = f.value
            while isinstance(base, ast.Attribute):
                base = base.value
            if isinstance(base, ast.Name) and base.id not in self.env and base.id not in self.gen.consts:
                _bad("%s: call into a module/object the translator has no dictionary entry for: %s" % (self.name, src_of(e)))
            recv, rt = self.ex(f.value)
            k = rt[0] if isinstance(rt, tuple) else rt
            m = f.attr
            if k == "entry" and m in ("is_file", "is_symlink") and not e.args:
                return "%s.node.%s" % (recv, {"is_file": "isFile", "is_symlink": "isSymlink"}[m]), "bool"
            if m == "relative_to" and len(e.args) == 1:
                a, at = self.ex(e.args[0])
                if k == "entry" and at == "rootdir" and isinstance(e.args[0], ast.Name) and rt[1] == e.args[0].id:
                    return "%s.path" % recv, "ppath"
                if rt == "ppath" and at == "ppath":
                    return self.hoist("pyRelativeTo %s %s" % (recv, a), "ppath")
                _bad("%s: unsupported relative_to: %s (%r, %r)" % (self.name, src_of(e), rt, at))
            if m == "resolve" and not e.args:
                if k == "unresolved":
                    return "%s.resolve" % recv, "ppath"
                if rt == "rootdir":
                    return "%s.resolve" % recv, "ppath"
            if m == "rglob" and rt == "rootdir" and len(e.args) == 1 and isinstance(e.args[0], ast.Constant) and e.args[0].value == "*" and isinstance(f.value, ast.Name):
                return "%s.entries" % recv, ("list", ("entry", f.value.id))
            if m == "split" and rt == "str" and len(e.args) == 1 and isinstance(e.args[0], ast.Constant) and e.args[0].value == "/":
                return "(splitSlash %s)" % recv, ("list", "str")
            _bad("%s: unsupported method call %s (receiver %r)" % (self.name, src_of(e), rt))
        _bad("%s: unsupported call %s" % (self.name, src_of(e)))

    # ------------------------------------------------------------------ statements
    def flush(self, ind):
        """Lean lines that sequence the hoisted calls of the statement being translated"""
        out = "".join("%sPy.bind (%s) fun %s =>\n" % (ind, code, t) for t, code in self.pre)
        self.pre = []
        return out

    def assign_name(self, name, v, t, ind):
        if t == "newdict":
            t = "dict"
            self.live[name] = name
        elif t == "dict":  # alias of the root
            t = ("cursor", self.aliases.get(name) or _bad("alias scan missed %s" % name))
            root = t[1]
            if root == name:
                _bad("%s: dict %s is re-bound" % (self.name, name))
            v = "([] : Cursor)"
            self.live[root] = name
        elif isinstance(t, tuple) and t[0] == "cursor":
            self.live[t[1]] = name
        elif isinstance(t, tuple) and t[0] in ("entrystr", "entryparent"):
            _bad("%s: intermediate pathlib value stored in %s" % (self.name, name))
        d = self.define(name, t)
        return "%slet %s : %s := %s\n" % (ind, self.nm(name), lty(d), self.coerce(v, t, d))

    def simple(self, s, ind):
        """non-branching statement -> Lean text that ends in a newline and expects a continuation"""
        self.pre = []
        if isinstance(s, ast.AnnAssign):
            if s.value is None or not isinstance(s.target, ast.Name):
                _bad("%s: unsupported annotated assignment %s" % (self.name, src_of(s)))
            v, t = self.ex(s.value)
            return self.flush(ind) + self.assign_name(s.target.id, v, t, ind)
        if isinstance(s, ast.Assign):
            if len(s.targets) != 1:
                _bad("%s: chained assignment %s" % (self.name, src_of(s)))
            tg = s.targets[0]
            if isinstance(tg, ast.Name):
                v, t = self.ex(s.value)
                return self.flush(ind) + self.assign_name(tg.id, v, t, ind)
            if isinstance(tg, ast.Tuple) and isinstance(s.value, ast.Tuple) and len(tg.elts) == len(s.value.elts) and all(isinstance(x, ast.Name) for x in tg.elts):
                names = [x.id for x in tg.elts]
                if len(set(names)) != len(names) or any(isinstance(n, ast.Name) and n.id in names for v in s.value.elts for n in ast.walk(v)):
                    _bad("%s: tuple assignment whose right side mentions its targets: %s" % (self.name, src_of(s)))
                vals = [self.ex(v) for v in s.value.elts]
                out = self.flush(ind)
                for n, (v, t) in zip(names, vals):
                    out += self.assign_name(n, v, t, ind)
                return out
            if isinstance(tg, ast.Subscript) and isinstance(tg.value, ast.Name):
                # Python evaluates the value first, then the key
                v, t = self.ex(s.value)
                k, kt = self.ex(tg.slice)
                if kt != "str":
                    _bad("%s: dict key of type %r in %s" % (self.name, kt, src_of(s)))
                if t == "newdict":
                    val = v
                elif t == "str":
                    val = "(HT.leaf %s)" % v
                else:
                    _bad("%s: value of type %r stored in the result dict: %s" % (self.name, t, src_of(s)))
                root, cur = self.cursor_of(tg.value.id, write=True)
                out = self.flush(ind)
                out += "%sPy.bind (pySetItem %s %s %s %s) fun %s =>\n" % (ind, self.nm(root), cur, k, val, self.nm(root))
                return out
            _bad("%s: unsupported assignment %s" % (self.name, src_of(s)))
        if isinstance(s, ast.Pass):
            return ""
        if isinstance(s, ast.Expr) and isinstance(s.value, ast.Constant) and isinstance(s.value.value, str):
            return ""  # a string used as comment
        _bad("%s: unsupported statement %s" % (self.name, src_of(s)))

    def exc_of(self, e):
        if isinstance(e, ast.Call):
            e = e.func
        if isinstance(e, ast.Name) and e.id in EXC:
            return EXC[e.id]
        _bad("%s: unsupported exception %s" % (self.name, src_of(e)))

    def block(self, body, k, ind):
        """statements -> Lean expression of type `Py <result of the enclosing def>`;
        k() gives the text for falling off the end."""
        if not body:
            return ind + k()
        s, rest = body[0], body[1:]
        if isinstance(s, (ast.Return, ast.Continue)) and self.in_if:
            _bad("%s: return/continue inside a branch that otherwise falls through" % self.name)
        if isinstance(s, ast.Return):
            if self.ctx:
                _bad("%s: return inside a loop" % self.name)
            self.pre = []
            if s.value is None:
                v, t = "none", "none"
            else:
                v, t = self.ex(s.value)
            return self.flush(ind) + ind + ".ok %s" % self.coerce(v, t, self.rty)
        if isinstance(s, ast.Raise):
            if s.exc is None or s.cause is not None:
                _bad("%s: unsupported raise %s" % (self.name, src_of(s)))
            return ind + ".error .%s" % self.exc_of(s.exc)
        if isinstance(s, ast.Continue):
            if not self.ctx:
                _bad("%s: continue outside a loop" % self.name)
            return ind + ".ok %s" % self.tuple_of(self.ctx[-1])
        if isinstance(s, ast.Assert):
            nt = none_test(s.test)
            if nt and not nt[1] and isinstance(self.env.get(nt[0]), tuple) and self.env[nt[0]][0] == "opt":
                x = nt[0]
                inner = self.env[x][1]
                self.env[x] = inner
                return "%smatch %s with\n%s| none => .error .assertionError\n%s| some %s =>\n%s" % (
                    ind, self.nm(x), ind, ind, self.nm(x), self.block(rest, k, ind))
            self.pre = []
            c, t = self.ex(s.test)
            if t != "bool":
                _bad("%s: assert on a non-bool %s" % (self.name, src_of(s)))
            return self.flush(ind) + "%sif %s then\n%s\n%selse .error .assertionError" % (ind, c, self.block(rest, k, ind + "  "), ind)
        if isinstance(s, ast.If):
            return self.stmt_if(s, rest, k, ind)
        if isinstance(s, ast.For):
            return self.stmt_for(s, rest, k, ind)
        if isinstance(s, ast.Try):
            return self.stmt_try(s, rest, k, ind)
        return self.simple(s, ind) + self.block(rest, k, ind)

    def branch(self, body, k, ind, narrow=None):
        """translate a branch in a copy of the environment"""
        saved_env, saved_live = dict(self.env), dict(self.live)
        if narrow:
            self.env[narrow[0]] = narrow[1]
        txt = self.block(body, k, ind)
        live = self.live
        self.env, self.live = saved_env, saved_live
        return txt, live

    def stmt_if(self, s, rest, k, ind):
        nt = none_test(s.test)
        narrow_then = narrow_else = None
        opt = None
        if nt and isinstance(self.env.get(nt[0]), tuple) and self.env[nt[0]][0] == "opt":
            x, isn = nt
            opt = x
            if isn:
                narrow_else = (x, self.env[x][1])
            else:
                narrow_then = (x, self.env[x][1])
        self.pre = []
        c, t = self.ex(s.test)
        if t != "bool":
            _bad("%s: `if` on a value of type %r (truthiness is not translated): %s" % (self.name, t, src_of(s.test)))
        head = self.flush(ind)
        i2 = ind + "  "
        tb, eb = terminates(s.body), terminates(s.orelse)

        def emit(a, b):
            if opt:
                x = self.nm(opt)
                first, second = ("none", "some %s" % x) if nt[1] else ("some %s" % x, "none")
                return "%s%smatch %s with\n%s| %s =>\n%s\n%s| %s =>\n%s" % (head, ind, x, ind, first, a, ind, second, b)
            return "%s%sif %s then\n%s\n%selse\n%s" % (head, ind, c, a, ind, b)

        if tb or eb:
            if tb and eb:
                a, _ = self.branch(s.body, k, i2, narrow_then)
                b, _ = self.branch(s.orelse, k, i2, narrow_else)
                return emit(a, b)
            if tb:
                a, _ = self.branch(s.body, k, i2, narrow_then)
                if narrow_else:
                    self.env[narrow_else[0]] = narrow_else[1]
                b = self.block(list(s.orelse) + list(rest), k, i2)
                return emit(a, b)
            b, _ = self.branch(s.orelse, k, i2, narrow_else)
            if narrow_then:
                self.env[narrow_then[0]] = narrow_then[1]
            a = self.block(list(s.body) + list(rest), k, i2)
            return emit(a, b)
        # both branches fall through: the variables they re-bind are the value of the `if`
        av = self.assigned(s.body) + [v for v in self.assigned(s.orelse) if v not in self.assigned(s.body)]
        vs = [v for v in self.order if v in av and v in self.env]
        for v in av:
            if v not in self.env and v not in self.order:
                self.order.append(v)
        fin = lambda: ".ok %s" % self.tuple_of(vs)  # noqa: E731
        # inside the branches `continue`/`return`/`raise` would not fall through, so k is local
        self.in_if += 1
        a, la = self.branch(s.body, fin, i2 + "  ", narrow_then)
        b, lb = self.branch(s.orelse, fin, i2 + "  ", narrow_else)
        self.in_if -= 1
        for root in set(la) | set(lb):
            if la.get(root, self.live.get(root)) != lb.get(root, self.live.get(root)):
                _bad("%s: the branches of `if %s` leave different live aliases into %s" % (self.name, src_of(s.test), root))
            self.live[root] = la.get(root, self.live.get(root))
        self.rebind(vs)
        if opt:
            x = self.nm(opt)
            first, second = ("none", "some %s" % x) if nt[1] else ("some %s" % x, "none")
            cond = "%s%sPy.bind (match %s with\n%s| %s =>\n%s\n%s| %s =>\n%s) fun %s =>\n" % (
                head, ind, x, i2, first, a, i2, second, b, self.tuple_pat(vs))
        else:
            cond = "%s%sPy.bind (if %s then\n%s\n%selse\n%s) fun %s =>\n" % (head, ind, c, a, i2, b, self.tuple_pat(vs))
        return cond + self.block(rest, k, ind)

    def stmt_try(self, s, rest, k, ind):
        if s.orelse or s.finalbody or not s.handlers:
            _bad("%s: unsupported try statement (else/finally)" % self.name)
        if self.ctx or self.in_if:
            _bad("%s: try statement inside a loop or a fall-through branch" % self.name)
        if not terminates([s]):
            _bad("%s: try statement whose paths do not all end in return/raise" % self.name)
        if rest:
            _bad("%s: unreachable statements after try" % self.name)
        i2 = ind + "    "
        body, _ = self.branch(s.body, k, i2)
        out = "%smatch (\n%s\n%s  : Py %s) with\n" % (ind, body, ind, lty(self.rty))
        for h in s.handlers:
            if h.name is not None or h.type is None:
                _bad("%s: unsupported except clause" % self.name)
            types = h.type.elts if isinstance(h.type, ast.Tuple) else [h.type]
            hb, _ = self.branch(h.body, k, i2)
            out += "%s| %s =>\n%s\n" % (ind, " | ".join(".error .%s" % self.exc_of(t) for t in types), hb)
        out += "%s| r_ => r_" % ind
        return out

    def stmt_for(self, s, rest, k, ind):
        if s.orelse:
            _bad("%s: for-else" % self.name)
        if not isinstance(s.target, ast.Name):
            _bad("%s: unsupported loop target %s" % (self.name, src_of(s.target)))
        for n in ast.walk(s):
            if isinstance(n, ast.Break):
                _bad("%s: break" % self.name)
        self.pre = []
        it, ity = self.ex(s.iter)
        if not (isinstance(ity, tuple) and ity[0] == "list"):
            _bad("%s: loop over a value of type %r: %s" % (self.name, ity, src_of(s.iter)))
        head = self.flush(ind)
        idx = self.loops
        self.loops += 1
        target = s.target.id
        av = self.assigned(s.body)
        if target in self.env:
            _bad("%s: loop variable %s re-uses an existing name" % (self.name, target))
        carried = [v for v in self.order if v in av and v in self.env and v != target]
        used = self.used(s.body)
        free = [v for v in self.order if v in used and v in self.env and v not in carried and v != target]
        call_free = " ".join(self.coerce(self.nm(v), self.env[v], self.declared[v]) for v in free)
        call_carried = " ".join(self.coerce(self.nm(v), self.env[v], self.declared[v]) for v in carried)
        # ---- the body as its own definition
        saved = (self.env, self.live, self.ctx, self.uses_hl, self.in_if)
        self.env = {v: self.declared[v] for v in free + carried}
        self.live = dict(saved[1])
        self.ctx = saved[2] + [carried]
        self.uses_hl = False
        self.in_if = 0
        if target not in self.order:
            self.order.append(target)
        elem = ity[1]
        self.declared[target] = elem
        self.env[target] = elem
        body = self.block(list(s.body), lambda: ".ok %s" % self.tuple_of(carried), "  ")
        uses_hl = self.uses_hl
        live_after = self.live
        locals_ = [v for v in self.env if v not in free and v not in carried]
        self.env, _, self.ctx, outer_hl, self.in_if = saved
        self.live = dict(saved[1])
        for root, l in live_after.items():
            if l in locals_:
                self.live[root] = root  # the alias is out of scope for the translator after the loop
            elif l != saved[1].get(root, root) and root in saved[0]:
                _bad("%s: a loop body changes the live alias into %s from %s to %s" % (self.name, root, saved[1].get(root, root), l))
            elif root not in saved[0]:
                self.live.pop(root, None)
        self.uses_hl = outer_hl or uses_hl
        hl_sig = "{σ : Type} (hl : HashLib σ) " if uses_hl else ""
        hl_arg = "hl " if uses_hl else ""
        sig = hl_sig + " ".join("(%s : %s)" % (self.nm(v), lty(self.declared[v])) for v in free + carried)
        bname = "%s_body%d" % (self.name, idx)
        lname = "%s_loop%d" % (self.name, idx)
        tty = self.tuple_ty(carried)
        self.defs.append("/-- body of the %s `for` loop of `%s` (`for %s in %s`) -/\ndef %s %s (%s : %s) : Py (%s) :=\n%s\n" % (
            _ordinal(idx), self.name, target, src_of(s.iter), bname, sig, self.nm(target), lty(elem), tty, body))
        fa = " ".join(self.nm(v) for v in free)
        ca = " ".join(self.nm(v) for v in carried)
        self.defs.append(
            "def %s %s : List %s → Py (%s)\n  | [] => .ok %s\n  | x_ :: rest_ =>\n    Py.bind (%s %s%s x_) fun %s =>\n    %s %s%s rest_\n" % (
                lname, sig, lty(elem), tty, self.tuple_pat(carried) if carried else "()",
                bname, hl_arg, _sp(fa, ca), self.tuple_pat(carried),
                lname, hl_arg, _sp(fa, ca)))
        self.rebind(carried)
        out = head + "%sPy.bind (%s %s%s %s) fun %s =>\n" % (ind, lname, hl_arg, _sp(call_free, call_carried), it, self.tuple_pat(carried))
        return out + self.block(rest, k, ind)

    # ------------------------------------------------------------------ whole function
    def run(self):
        self.start()
        body = strip_doc(self.fn.body)

        def fall_off():
            if self.rty == "none" or (isinstance(self.rty, tuple) and self.rty[0] == "opt"):
                return ".ok none"
            _bad("%s: the function may fall off its end" % self.name)

        text = self.block(list(body), fall_off, "  ")
        hl_sig = "{σ : Type} (hl : HashLib σ) " if self.uses_hl else ""
        ptys = SIGS[self.name][0]
        sig = hl_sig + " ".join("(%s : %s)" % (self.nm(p), lty(("entry", None) if t == "entry" else t)) for p, t in zip(self.params, ptys))
        self.defs.append("/-- `%s` (line %d) -/\ndef %s %s : Py %s :=\n%s\n" % (self.name, self.fn.lineno, self.name, sig, lty(self.rty), text))
        return self.defs


def _sp(a, b):
    return " ".join(x for x in (a, b) if x)


def _ordinal(i):
    return ["first", "second", "third", "fourth"][i] if i < 4 else "%dth" % (i + 1)


class Gen:
    def __init__(self):
        self.tree = tr.parse_source(SRC)
        self.consts = module_str_constants(self.tree)
        self.used_consts = set()

    def function(self, name):
        fn = find_func(self.tree, name)
        if fn.decorator_list:
            _bad("%s: decorated" % name)
        f = Fn(self, fn)
        f.run()  # pass 1: types of the locals
        if any("?" in repr(t) for t in f.declared.values()):
            _bad("%s: a local is only ever None" % name)
        defs = f.run()  # pass 2
        return f, defs

    def generate(self):
        out = [
            "import MetadorModel.Model.HashsumsPy",
            "/-! GENERATED on every run by harness/translate_c19.py from",
            "    %s (DEF_HASH_ALG, rel_symlink, dir_hashsums). Do not edit. -/" % SRC,
            "namespace MetadorModel.Gen.HashsumsFns",
            "open MetadorModel.Bytes MetadorModel.Hashsums MetadorModel.HashsumsPy",
            "",
        ]
        body = []
        f1, d1 = self.function("rel_symlink")
        f2, d2 = self.function("dir_hashsums")
        body += d1 + d2
        # default arguments of dir_hashsums
        a = f2.fn.args
        defaults = [None] * (len(a.args) - len(a.defaults)) + list(a.defaults)
        if defaults[0] is not None:
            _bad("dir_hashsums: default value for the directory")
        if defaults[1] is not None:
            d = defaults[1]
            if isinstance(d, ast.Name) and d.id in self.consts:
                self.used_consts.add(d.id)
                dv = d.id
            elif isinstance(d, ast.Constant) and isinstance(d.value, str):
                dv = lean_str(d.value)
            else:
                _bad("dir_hashsums: unsupported default %s" % src_of(d))
            hl = "{σ : Type} (hl : HashLib σ) " if f2.uses_hl else ""
            body.append("/-- `dir_hashsums(dir)` with the default algorithm -/\ndef dir_hashsums_d %s(dir : FsTree) : Py HT :=\n  dir_hashsums %sdir %s\n" % (
                hl, "hl " if f2.uses_hl else "", dv))
        self.has_default = defaults[1] is not None
        self.uses_hl = f2.uses_hl
        for c in sorted(self.used_consts | {"DEF_HASH_ALG"} & set(self.consts)):
            out.append("def %s : Str := %s" % (c, lean_str(self.consts[c])))
        out.append("")
        out += body
        out.append("end MetadorModel.Gen.HashsumsFns\n")
        return "\n".join(out)


def gen_hashsums_fns():
    return Gen().generate()


def write():
    """regenerate Gen/HashsumsFns.lean; -> True when the text changed.
    When the source is no longer understood, the generated file is replaced by a stub without
    definitions (so that no text translated from an earlier state of the source stays behind and
    the bridge module cannot build) and the TranslateError is passed on."""
    try:
        text = gen_hashsums_fns()
    except TranslateError as e:
        lean.write_if_changed(OUT, "import MetadorModel.Model.HashsumsPy\n/-! GENERATED by harness/translate_c19.py: the translation of\n    %s FAILED:\n    %s -/\n" % (
            SRC, str(e).replace("-/", "- /")))
        raise
    return lean.write_if_changed(OUT, text)


if __name__ == "__main__":  # pragma: no cover
    print(gen_hashsums_fns())
