"""Python-`ast` -> Lean translation of the pure core of `src/metador_core/util/diff.py` (C18).

`gen_diff_checked()` parses the file of `envshim.REPO` (honours `METADOR_REPO`) and returns the text
of `lean/MetadorModel/Gen/Diff.lean` (+ the list of translation errors); `harness/props/c18.py::
translate` writes it on every `./check C18` run. The hand-written modules `lean/MetadorModel/Bridge/
Diff*.lean` (re-checked by `lake build` on every run, one module per function so that a changed
function breaks its own obligation) prove that every generated function equals the hand-written
model function of `Model/Diff.lean` the C18 theorems are about.

Translated (pinned source lines of /repo)          bridge theorem (namespace MetadorModel.Bridge.Diff)
--------------------------------------------------------------------------------------------------
    DiffNode._type        l. 54-62     gen_type            Gen._type self e = ok (objType e)
    DiffNode.prev_type    l. 64-66     gen_prev_curr_type  = ok (objType d.prev)
    DiffNode.curr_type    l. 68-70     gen_prev_curr_type  = ok (objType d.curr)
    DiffNode.children     l. 72-76     gen_children        = ok (children d)
    DiffNode.nodes        l. 78-93     gen_nodes           for a node with its three dicts in ANY insertion
                                                           order: the records listed = nodes (canon d)
    DiffNode.status       l. 95-105    gen_status          = ok (Rec.status d.rec')
    DiffNode.compare      l. 107-175   gen_compare(_top)   for EVERY iteration order of sets / input dicts:
                                                           canon (result) = compareAt path prev curr
    DirDiff.get           l. 207-223   gen_get             = ok (get root p)   (any root)
    compositions                       gen_nodes_compare   compare(..).nodes()  lists nodesO (compareAt ..)
                                       gen_get_compare     canon (compare(..).get(p)) = get (compare a b) p
  `canon d` = d with every bucket, recursively, in ascending order of the paths (the model's nodes are
  of that form: `canon_sorted`). Hypotheses of the theorems: the two entries are well-formed (`wf`: the
  directories are key-sorted association lists = Python dicts) and the recursion limit (`fuel`)
  exceeds the nesting depth; `ord` returns a permutation of its argument (`PermOrd`).

How: *structurally*, statement by statement. Every function becomes a Lean `do` block in the
monad `Except PyErr`; a Python exception is `throw`, so nothing is idealised away:

    if / elif / else          if c then .. else ..; statements after an `if` that may `return`
                              are copied into the branches that fall through (early return)
    `if x is None` on an Optional variable / `self.<attr>`, `assert x is not None`
                              `match x with | none => .. | some x => ..` (x has the narrowed type after)
    assert e                  if !e then throw PyErr.assertionError else ..
    x = e, x: T = e           let py_x := e      (every local is prefixed `py_`: renaming-proof, no keyword clash)
    x.attr[k] = v             let py_x <- py_x.setAttr k v   (in-place update of the object = rebinding)
    xs.append(v), xs += ys    let py_xs := py_xs ++ [v] / py_xs ++ ys
    for x in e: body          List.foldlM over the loop state (= variables assigned in the body that
                              exist before the loop); with a `return` in the body: `forRet`.
                              If `e` is a set, or the items()/keys() of one of the two snapshots, the loop
                              runs over `ord _ e`: Python leaves that order open, so `ord : IterOrd` is a
                              parameter of the function and the bridge theorems hold for every permutation
    while xs: x = xs.pop(); body   (xs not otherwise used in body)  = for x in reversed(xs): body; xs = []
    a and b, a or b, not a    && || ! on `bool(..)` of the operands (see truthiness below); as values
                              `a or b` = if bool(a) then a else b
    a if c else b             if c then a else b
    return e                  pure e      (falling off the end = pure none)
    recursive call            extra leading argument `fuel : Nat` = the interpreter's remaining
                              recursion depth; `fuel = 0` raises `RecursionError`

Value dictionary (fixed; the Lean side is `lean/MetadorModel/Py/DiffPy.lean`)
----------------------------------------------------------------------------
    None | str | dict entry (prev, curr, entity)   Option DirTree: none / some (.file s) / some (.dir es),
                                                   `es` = association list sorted strictly by key
                                                   (unique keys, `==` independent of insertion order)
    value stored in such a dict                    DirTree   (`some v` where an entry is expected)
    isinstance(x, dict), isinstance(x, str)        isDict x, isStr x
    x is None, x is not None                       x.isNone, x.isSome  (or a `match`, see above)
    bool(x): entry / list, dict, set / Optional[DiffNode], Optional[ObjType] / str / int
                                                   truthy x (None, "" and {} are falsy) / !x.isEmpty /
                                                   x.isSome / x != "" / x != 0
    x == y on entries                              pyEq x y (entry-wise on the sorted lists; str != dict)
    x.find(s)                                      strFind x s  = Paths.pyFind (first index or -1; the
                                                   comparison `== 0` is kept), AttributeError on non-str
    x.items(), x.keys(), x[k]                      items x, keys x (AttributeError on non-dict),
                                                   getItem x k (KeyError / TypeError)
    set(xs), a - b, a | b                          pySet xs (drop repeats), setDiff, setUnion on duplicate-free
                                                   lists (membership semantics; iteration see `for` above)
    pathlib.Path (relative)                        Diff.Path = list of components; Path("") = []
    p / k                                          pathJoin p k = p ++ [k]  (k a single file name)
    p == q, sort key x.path                        pathEq, pathLt (lexicographic, components by code point)
    Path(p), p.is_absolute(), list(p.parents)      p, false, parents p
    DiffNode(path=, prev=, curr=)                  mkNode (empty removed/modified/added)
    n.path n.prev n.curr n.removed n.modified n.added   the fields of DNode
    Dict[Path, DiffNode] (the three buckets)       List DNode in insertion order; the key of an entry is the
                                                   path of the node stored under it. `d[key] = x` replaces the
                                                   value of an existing key in place, else appends; with
                                                   `x.path != key` it leaves the dictionary: PyErr.unrepresentable
    d.values(), d.get(k)                           values d, bucketGet d k
    sorted(xs, key=lambda x: x.path)               sortedByPath xs (stable insertion sort)
    itertools.chain(*xss), next((x for x in xs if c), None)   chain, nextOrNone
    [.. for x in xs], (.. for x in xs)             List.map
    xs.pop()                                       listPop xs (IndexError on [])
    DiffNode.Status.X, DiffNode.ObjType.X          Diff.Status.X, Diff.ObjType.X
    DirDiff (self of `get`)                        its `_diff_root : Option DNode`
  Parameter and result types are fixed per function by position (`SIGS`); parameter names are free.

NOT translated (tied to the model by the correspondence run of `harness/props/c18.py` only)
-------------------------------------------------------------------------------------------
    * `DirDiff.compare` (allocates the object, calls `DiffNode.compare(prev, curr, Path(""))`),
      `DirDiff.is_empty`, `DirDiff.status`, `DirDiff.annotate`, `dir_paths` (file system);
    * pydantic's validation in `DiffNode(...)` (taken as the identity on None/str/dict/Path);
    * that `pathlib` orders sibling paths by the code points of the last component and that
      Lean's `String` order is that order (ASCII names in the generators);
    * `assert` statements are taken to be active (no `python -O`);
    * anything outside the table: `TranslateError` -> the function becomes a stub raising
      `PyErr.untranslated`, `translate:C18` and the function's bridge theorem are reported as
      undischarged obligations (never a crash).

Model deviations found by the bridge and repaired in `Model/Diff.lean`: `Rec.status` of a node with
`prev = curr = None` was `.invalid`; the source tests `prev is None` first and answers `added`
(unreachable from `compare`, the C18 theorems were unaffected). `objType` (the model of `_type`) did
not exist and was added.

Robustness (tried on a scratch copy, see the builder's report). The generated text depends on the
syntax tree only, so comments, docstrings, formatting, type annotations and renamed locals or
parameters give alpha-equivalent Lean and the bridge stays green; so do reordered independent
assignments, the three key loops of `compare` in any order, `x if c else y` versus an if-statement,
`elif/else` versus a chain of `if .. return`, inlining `same_dir`. Rewrites the bridge does NOT
survive although harmless: anything that changes the *shape* of a loop (e.g. one loop over
`prev_keys | curr_keys` with a three-way `if` instead of three loops, a comprehension instead of a
loop), reordering the `isinstance` case distinction of `compare`, or a construct outside the table
above (`TranslateError`).
"""
import ast

from .translate import TranslateError, find_class, find_func, parse_source, strip_doc

SRC = "src/metador_core/util/diff.py"

# --------------------------------------------------------------------------- types
OTREE = ("opt", "tree")
ONODE = ("opt", "node")
OTYPE = ("opt", "objtype")
NONE = ("opt", None)  # the literal None


def lean_ty(t):
    if isinstance(t, Hole):
        t = t.resolved()
    if isinstance(t, tuple):
        if t[0] == "opt":
            return "Option %s" % lean_ty_atom(t[1])
        if t[0] in ("list", "unord"):
            return "List %s" % lean_ty_atom(t[1])
        if t[0] == "prod":
            return "%s × %s" % (lean_ty_atom(t[1]), lean_ty_atom(t[2]))
    return {"tree": "DirTree", "node": "DNode", "path": "Path", "str": "String", "bool": "Bool", "int": "Int",
            "objtype": "ObjType", "status": "Status"}[t]


def lean_ty_atom(t):
    s = lean_ty(t)
    return "(%s)" % s if " " in s else s


class Hole:
    """element type of `[]`, fixed by the first use"""

    def __init__(self):
        self.t = None

    def resolved(self):
        if self.t is None:
            raise TranslateError("element type of an empty list literal never determined")
        return self.t


def norm(t):
    if isinstance(t, Hole):
        return norm(t.t) if t.t is not None else t
    if isinstance(t, tuple):
        return tuple(norm(x) if i else x for i, x in enumerate(t))
    return t


def unify(a, b):
    """most specific common type or None"""
    a, b = norm(a), norm(b)
    if a == b:
        return a
    if isinstance(a, Hole):
        a.t = b
        return b
    if isinstance(b, Hole):
        b.t = a
        return a
    if isinstance(a, tuple) and isinstance(b, tuple) and a[0] == b[0] and len(a) == len(b):
        if a[0] == "opt":
            if a[1] is None:
                return b
            if b[1] is None:
                return a
        parts = [unify(x, y) for x, y in zip(a[1:], b[1:])]
        if any(p is None for p in parts):
            return None
        return (a[0],) + tuple(parts)
    if isinstance(a, tuple) and a[0] == "opt" and (a[1] is None or unify(a[1], b) is not None):
        return ("opt", b if a[1] is None else unify(a[1], b))
    if isinstance(b, tuple) and b[0] == "opt" and (b[1] is None or unify(b[1], a) is not None):
        return ("opt", a if b[1] is None else unify(b[1], a))
    return None


def coerce(lean, frm, to, what="value"):
    """Lean text of `lean : frm` used where `to` is expected (T -> Option T only)."""
    frm, to = norm(frm), norm(to)
    if frm == to:
        return lean
    if isinstance(frm, Hole):
        frm.t = to
        return lean
    if isinstance(to, Hole):
        to.t = frm
        return lean
    if isinstance(to, tuple) and to[0] == "opt":
        if isinstance(frm, tuple) and frm[0] == "opt":
            if frm[1] is None:
                return lean  # `none`
            if unify(frm[1], to[1]) is not None:
                return lean
        elif unify(frm, to[1]) is not None:
            return "(some %s)" % lean
    if isinstance(frm, tuple) and isinstance(to, tuple) and frm[0] == to[0] == "list" and unify(frm[1], to[1]) is not None:
        return lean
    raise TranslateError("%s of type %s used as %s" % (what, frm, to))


def lean_string(s):
    if not all(32 <= ord(c) < 127 for c in s):
        raise TranslateError("non-ASCII string constant %r" % s)
    return '"%s"' % s.replace("\\", "\\\\").replace('"', '\\"')


# signatures by position (parameter names are free): (self type, [parameter types], result type)
SIGS = {
    "_type": ("node", [OTREE], OTYPE),
    "prev_type": ("node", [], OTYPE),
    "curr_type": ("node", [], OTYPE),
    "children": ("node", [], ("list", "node")),
    "nodes": ("node", [], ("list", "node")),
    "status": ("node", [], "status"),
    "compare": ("cls", [OTREE, OTREE, "path"], ONODE),
    "get": ("dirdiff", ["path"], ONODE),
}
NODE_FIELDS = {"path": "path", "prev": OTREE, "curr": OTREE,
               "removed": ("list", "node"), "modified": ("list", "node"), "added": ("list", "node")}
BUCKETS = ("removed", "modified", "added")
ENUMS = {"Status": ("status", ["removed", "modified", "added", "unchanged"]),
         "ObjType": ("objtype", ["directory", "file", "symlink"])}


class NeedsOrd(Exception):
    """the function iterates over a set / an input dict (or calls one that does): translate it again
    with the iteration order as a parameter"""


class Env:
    def __init__(self, vars=None, narrowed=None):
        self.vars = dict(vars or {})  # python name -> type
        self.narrowed = dict(narrowed or {})  # unparse(expr) -> (lean name, type)

    def copy(self):
        return Env(self.vars, self.narrowed)


def mangle(name):
    return "py_" + name


class Fn:
    """Translator of one function body."""

    def __init__(self, name, fn, props, recursive, with_ord=()):
        self.with_ord = set(with_ord)  # names of functions that take the iteration order `ord`
        self.uses_ord = False
        self.name = name
        self.fn = fn
        self.props = props  # names of @property methods of the class
        self.recursive = recursive  # set of names of functions with a fuel argument
        self.self_kind, self.ptys, self.rty = SIGS[name]
        self.counter = 0
        self.selfname = None
        self.patches = []  # (placeholder, Hole)

    def fresh(self, p="t"):
        self.counter += 1
        return "%s%d" % (p, self.counter)

    # ------------------------------------------------------------------ expressions
    def ex(self, e, env, binds, want=None):
        """-> (lean text, type); effectful sub-expressions are bound first (appended to binds)."""
        key = ast.unparse(e) if isinstance(e, (ast.Name, ast.Attribute)) else None
        if key is not None and key in env.narrowed:
            return env.narrowed[key]
        if isinstance(e, ast.Name):
            if e.id in env.vars:
                return mangle(e.id), env.vars[e.id]
            raise TranslateError("%s: unknown name %s" % (self.name, e.id))
        if isinstance(e, ast.Constant):
            v = e.value
            if v is None:
                return "none", NONE
            if isinstance(v, bool):
                return ("true" if v else "false"), "bool"
            if isinstance(v, str):
                return lean_string(v), "str"
            if isinstance(v, int):
                return "(%d : Int)" % v, "int"
            raise TranslateError("%s: unsupported constant %r" % (self.name, v))
        if isinstance(e, ast.Attribute):
            return self.attribute(e, env, binds)
        if isinstance(e, ast.Call):
            return self.call(e, env, binds)
        if isinstance(e, ast.Subscript):
            base, bt = self.ex(e.value, env, binds)
            idx, it = self.ex(e.slice, env, binds)
            if norm(bt) in (OTREE, "tree") and it == "str":
                t = self.fresh()
                binds.append("let %s ← getItem %s %s" % (t, coerce(base, bt, OTREE), idx))
                return t, "tree"
            raise TranslateError("%s: unsupported subscript %s" % (self.name, ast.unparse(e)))
        if isinstance(e, ast.Compare):
            return self.compare_(e, env, binds), "bool"
        if isinstance(e, ast.BoolOp):
            vals = []
            for i, v in enumerate(e.values):
                b2 = []
                vals.append(self.ex(v, env, b2))
                if b2 and i > 0:
                    raise TranslateError("%s: operand of and/or that can raise: %s" % (self.name, ast.unparse(v)))
                binds += b2
            if all(t == "bool" for _, t in vals):
                sym = " && " if isinstance(e.op, ast.And) else " || "
                return "(" + sym.join(l for l, _ in vals) + ")", "bool"
            # value semantics: `a or b` = a if bool(a) else b ; `a and b` = b if bool(a) else a
            ty = vals[0][1]
            for _, t in vals[1:]:
                ty = unify(ty, t)
                if ty is None:
                    raise TranslateError("%s: and/or over different types: %s" % (self.name, ast.unparse(e)))
            out, _ = vals[-1][0], None
            out = coerce(vals[-1][0], vals[-1][1], ty)
            for l, t in reversed(vals[:-1]):
                a = coerce(l, t, ty)
                if isinstance(e.op, ast.Or):
                    out = "(if %s then %s else %s)" % (self.truth(l, t), a, out)
                else:
                    out = "(if %s then %s else %s)" % (self.truth(l, t), out, a)
            return out, ty
        if isinstance(e, ast.UnaryOp) and isinstance(e.op, ast.Not):
            return "(!%s)" % self.cond(e.operand, env, binds), "bool"
        if isinstance(e, ast.IfExp):
            c = self.cond(e.test, env, binds)
            b1, b2 = [], []
            a, at = self.ex(e.body, env, b1)
            b, bt = self.ex(e.orelse, env, b2)
            if b1 or b2:
                raise TranslateError("%s: conditional expression with a branch that can raise" % self.name)
            ty = unify(at, bt)
            if ty is None:
                raise TranslateError("%s: conditional expression over different types" % self.name)
            return "(if %s then %s else %s)" % (c, coerce(a, at, ty), coerce(b, bt, ty)), ty
        if isinstance(e, ast.BinOp):
            l, lt = self.ex(e.left, env, binds)
            r, rt = self.ex(e.right, env, binds)
            lt, rt = norm(lt), norm(rt)
            if isinstance(e.op, ast.Div) and lt == "path" and rt == "str":
                return "(pathJoin %s %s)" % (l, r), "path"
            if isinstance(e.op, ast.Sub) and lt == rt == ("unord", "str"):
                return "(setDiff %s %s)" % (l, r), lt
            if isinstance(e.op, ast.BitOr) and lt == rt == ("unord", "str"):
                return "(setUnion %s %s)" % (l, r), lt
            if isinstance(e.op, ast.Add) and isinstance(lt, tuple) and lt[0] == "list" and isinstance(rt, tuple) and rt[0] == "list":
                ty = unify(lt, rt)
                if ty is not None:
                    return "(%s ++ %s)" % (l, r), ty
            raise TranslateError("%s: unsupported operator in %s (%s, %s)" % (self.name, ast.unparse(e), lt, rt))
        if isinstance(e, ast.List):
            if not e.elts:
                h = Hole()
                ph = "«HOLE%d»" % len(self.patches)
                self.patches.append((ph, h))
                return "([] : List %s)" % ph, ("list", h)
            parts = [self.ex(x, env, binds) for x in e.elts]
            ty = parts[0][1]
            for _, t in parts[1:]:
                ty = unify(ty, t)
                if ty is None:
                    raise TranslateError("%s: list literal over different types: %s" % (self.name, ast.unparse(e)))
            return "[" + ", ".join(coerce(l, t, ty) for l, t in parts) + "]", ("list", ty)
        raise TranslateError("%s: unsupported expression %s" % (self.name, ast.unparse(e)[:100]))

    def attribute(self, e, env, binds):
        # DiffNode.Status.added / DiffNode.ObjType.file / cls.Status.added
        if isinstance(e.value, ast.Attribute) and e.value.attr in ENUMS and isinstance(e.value.value, ast.Name):
            ty, members = ENUMS[e.value.attr]
            if e.attr not in members:
                raise TranslateError("%s: unknown member %s" % (self.name, ast.unparse(e)))
            if ty == "status" and e.attr == "unchanged":
                raise TranslateError("%s: Status.unchanged has no counterpart in the model" % self.name)
            return "%s.%s" % ({"status": "Status", "objtype": "ObjType"}[ty], e.attr), ty
        base, bt = self.ex(e.value, env, binds)
        bt = norm(bt)
        if bt == "node" and e.attr in NODE_FIELDS:
            return "%s.%s" % (base, e.attr), NODE_FIELDS[e.attr]
        if bt == "node" and e.attr in self.props:
            t = self.fresh()
            if e.attr in self.with_ord:
                self.uses_ord = True
            binds.append("let %s ← %s %s%s" % (t, e.attr, "ord " if e.attr in self.with_ord else "", base))
            return t, SIGS[e.attr][2]
        if bt == "dirdiff" and e.attr == "_diff_root":
            return base, ONODE
        if bt == "path" and e.attr == "parents":
            return "(parents %s)" % base, ("list", "path")
        raise TranslateError("%s: unsupported attribute %s of %s" % (self.name, e.attr, bt))

    def call(self, e, env, binds):
        f = e.func
        if e.keywords and not (isinstance(f, ast.Name) and f.id in ("cls", "DiffNode", "sorted")):
            raise TranslateError("%s: keyword arguments in %s" % (self.name, ast.unparse(e)[:80]))
        if isinstance(f, ast.Name):
            if f.id == "isinstance" and len(e.args) == 2 and isinstance(e.args[1], ast.Name) and e.args[1].id in ("dict", "str"):
                x, t = self.ex(e.args[0], env, binds)
                if norm(t) not in (OTREE, "tree", NONE):
                    raise TranslateError("%s: isinstance on %s" % (self.name, t))
                return "(%s %s)" % ("isDict" if e.args[1].id == "dict" else "isStr", coerce(x, t, OTREE)), "bool"
            if f.id in ("cls", "DiffNode") and not e.args:
                if f.id == "cls" and self.self_kind != "cls":
                    raise TranslateError("%s: cls outside a classmethod" % self.name)
                kw = {k.arg: k.value for k in e.keywords}
                if set(kw) != {"path", "prev", "curr"}:
                    raise TranslateError("%s: DiffNode(...) with fields %s" % (self.name, sorted(kw)))
                parts = []
                for k, ty in (("path", "path"), ("prev", OTREE), ("curr", OTREE)):  # evaluation order irrelevant (pure)
                    b2 = []
                    x, t = self.ex(kw[k], env, b2)
                    if b2:
                        raise TranslateError("%s: DiffNode(...) argument that can raise" % self.name)
                    parts.append(coerce(x, t, ty, "DiffNode(%s=…)" % k))
                return "(mkNode %s)" % " ".join(parts), "node"
            if f.id == "set" and len(e.args) == 1:
                x, t = self.ex(e.args[0], env, binds)
                if norm(t) in (("list", "str"), ("unord", "str")):
                    return "(pySet %s)" % x, ("unord", "str")
            if f.id == "list" and len(e.args) == 1:
                x, t = self.ex(e.args[0], env, binds)
                if isinstance(norm(t), tuple) and norm(t)[0] == "list":
                    return x, t
            if f.id == "Path" and len(e.args) == 1:
                x, t = self.ex(e.args[0], env, binds)
                if t == "path":
                    return x, t
            if f.id == "sorted" and len(e.args) == 1 and len(e.keywords) == 1 and e.keywords[0].arg == "key":
                lam = e.keywords[0].value
                if (isinstance(lam, ast.Lambda) and len(lam.args.args) == 1 and isinstance(lam.body, ast.Attribute)
                        and isinstance(lam.body.value, ast.Name) and lam.body.value.id == lam.args.args[0].arg and lam.body.attr == "path"):
                    x, t = self.ex(e.args[0], env, binds)
                    if norm(t) == ("list", "node"):
                        return "(sortedByPath %s)" % x, t
            if f.id == "next" and len(e.args) == 2 and isinstance(e.args[0], ast.GeneratorExp) and isinstance(e.args[1], ast.Constant) and e.args[1].value is None:
                g = e.args[0]
                if len(g.generators) == 1 and not g.generators[0].is_async and isinstance(g.generators[0].target, ast.Name) and isinstance(g.elt, ast.Name) and g.elt.id == g.generators[0].target.id and len(g.generators[0].ifs) == 1:
                    xs, t = self.ex(g.generators[0].iter, env, binds)
                    t = norm(t)
                    if isinstance(t, tuple) and t[0] == "list":
                        env2 = env.copy()
                        v = g.generators[0].target.id
                        env2.vars[v] = t[1]
                        env2.narrowed.pop(v, None)
                        b2 = []
                        c = self.cond(g.generators[0].ifs[0], env2, b2)
                        if b2:
                            raise TranslateError("%s: generator condition that can raise" % self.name)
                        return "(nextOrNone (fun %s => %s) %s)" % (mangle(v), c, xs), ("opt", t[1])
            raise TranslateError("%s: unsupported call %s" % (self.name, ast.unparse(e)[:100]))
        if isinstance(f, ast.Attribute):
            # itertools.chain(*gen) / chain(a, b, ..)
            if f.attr == "chain" and isinstance(f.value, ast.Name) and f.value.id == "itertools":
                if len(e.args) == 1 and isinstance(e.args[0], ast.Starred):
                    xs, t = self.ex_listlike(e.args[0].value, env, binds)
                    t = norm(t)
                    if isinstance(t, tuple) and t[0] == "list" and isinstance(t[1], tuple) and t[1][0] == "list":
                        return "(chain %s)" % xs, t[1]
                elif e.args and not any(isinstance(a, ast.Starred) for a in e.args):
                    parts = [self.ex(a, env, binds) for a in e.args]
                    ty = parts[0][1]
                    for _, t in parts[1:]:
                        ty = unify(ty, t)
                    if ty is not None and isinstance(norm(ty), tuple) and norm(ty)[0] == "list":
                        return "(chain [%s])" % ", ".join(l for l, _ in parts), ty
                raise TranslateError("%s: unsupported itertools.chain call" % self.name)
            # cls.compare(..) / DiffNode.compare(..)
            if isinstance(f.value, ast.Name) and f.value.id in ("cls", "DiffNode") and f.attr in SIGS and SIGS[f.attr][0] == "cls":
                return self.call_fn(f.attr, None, e.args, env, binds)
            recv, rt = self.ex(f.value, env, binds)
            rt = norm(rt)
            if rt == "node" and f.attr in SIGS and SIGS[f.attr][0] == "node" and f.attr not in self.props:
                return self.call_fn(f.attr, recv, e.args, env, binds)
            if rt in (OTREE, "tree"):
                r = coerce(recv, rt, OTREE)
                if f.attr == "find" and len(e.args) == 1:
                    a, at = self.ex(e.args[0], env, binds)
                    if at == "str":
                        t = self.fresh()
                        binds.append("let %s ← strFind %s %s" % (t, r, a))
                        return t, "int"
                if f.attr == "items" and not e.args:
                    t = self.fresh()
                    binds.append("let %s ← items %s" % (t, r))
                    return t, ("unord", ("prod", "str", "tree"))
                if f.attr == "keys" and not e.args:
                    t = self.fresh()
                    binds.append("let %s ← keys %s" % (t, r))
                    return t, ("unord", "str")
            if rt == ("list", "node"):
                if f.attr == "values" and not e.args:
                    return "(values %s)" % recv, rt
                if f.attr == "get" and len(e.args) == 1:
                    a, at = self.ex(e.args[0], env, binds)
                    if at == "path":
                        return "(bucketGet %s %s)" % (recv, a), ONODE
            if rt == "path":
                if f.attr == "is_absolute" and not e.args:
                    return "(isAbsolute %s)" % recv, "bool"
            raise TranslateError("%s: unsupported call %s" % (self.name, ast.unparse(e)[:100]))
        raise TranslateError("%s: unsupported call %s" % (self.name, ast.unparse(e)[:100]))

    def ex_listlike(self, e, env, binds):
        """a generator expression / list comprehension `(elt for x in xs)` as List.map"""
        if isinstance(e, (ast.GeneratorExp, ast.ListComp)) and len(e.generators) == 1 and not e.generators[0].ifs and isinstance(e.generators[0].target, ast.Name):
            xs, t = self.ex(e.generators[0].iter, env, binds)
            t = norm(t)
            if isinstance(t, tuple) and t[0] == "list":
                v = e.generators[0].target.id
                env2 = env.copy()
                env2.vars[v] = t[1]
                env2.narrowed.pop(v, None)
                b2 = []
                body, bt = self.ex(e.elt, env2, b2)
                if b2:
                    raise TranslateError("%s: comprehension element that can raise" % self.name)
                return "(List.map (fun %s => %s) %s)" % (mangle(v), body, xs), ("list", bt)
        return self.ex(e, env, binds)

    def call_fn(self, name, recv, args, env, binds):
        kind, ptys, rty = SIGS[name]
        if len(args) != len(ptys):
            raise TranslateError("%s: call of %s with %d arguments" % (self.name, name, len(args)))
        parts = []
        if name in self.with_ord:
            parts.append("ord")
            self.uses_ord = True
        if name in self.recursive:
            if self.name != name:
                raise TranslateError("%s: call of the recursive function %s from another function" % (self.name, name))
            parts.append("fuel")
        if recv is not None:
            parts.append(recv)
        for a, ty in zip(args, ptys):
            x, t = self.ex(a, env, binds)
            parts.append(coerce(x, t, ty, "argument of %s" % name))
        t = self.fresh()
        binds.append("let %s ← %s %s" % (t, name, " ".join(parts)))
        return t, rty

    def truth(self, lean, ty):
        ty = norm(ty)
        if ty == "bool":
            return lean
        if ty in (OTREE, "tree"):
            return "(truthy %s)" % coerce(lean, ty, OTREE)
        if ty == NONE:
            return "false"
        if isinstance(ty, tuple) and ty[0] in ("list", "unord"):
            return "(!(%s).isEmpty)" % lean
        if isinstance(ty, tuple) and ty[0] == "opt" and ty[1] in ("node", "objtype"):
            return "(%s).isSome" % lean
        if ty in ("node", "objtype", "status"):
            return "true"
        if ty == "str":
            return "(%s != \"\")" % lean
        if ty == "int":
            return "(%s != 0)" % lean
        raise TranslateError("%s: truth value of %s" % (self.name, ty))

    def cond(self, e, env, binds):
        """`e` in boolean context"""
        if isinstance(e, ast.BoolOp):
            parts = []
            for i, v in enumerate(e.values):
                b2 = []
                parts.append(self.cond(v, env, b2))
                if b2 and i > 0:
                    raise TranslateError("%s: operand of and/or that can raise: %s" % (self.name, ast.unparse(v)))
                binds += b2
            return "(" + (" && " if isinstance(e.op, ast.And) else " || ").join(parts) + ")"
        if isinstance(e, ast.UnaryOp) and isinstance(e.op, ast.Not):
            return "(!%s)" % self.cond(e.operand, env, binds)
        l, t = self.ex(e, env, binds)
        return self.truth(l, t)

    def compare_(self, e, env, binds):
        if len(e.ops) != 1:
            raise TranslateError("%s: chained comparison" % self.name)
        op = e.ops[0]
        l, lt = self.ex(e.left, env, binds)
        r, rt = self.ex(e.comparators[0], env, binds)
        lt, rt = norm(lt), norm(rt)
        if isinstance(op, (ast.Is, ast.IsNot)):
            if rt != NONE:
                raise TranslateError("%s: `is` with something else than None" % self.name)
            if isinstance(lt, tuple) and lt[0] == "opt":
                return "(%s).%s" % (l, "isNone" if isinstance(op, ast.Is) else "isSome")
            # a value that cannot be None
            return "false" if isinstance(op, ast.Is) else "true"
        if isinstance(op, (ast.Eq, ast.NotEq)):
            neg = "!" if isinstance(op, ast.NotEq) else ""
            ty = unify(lt, rt)
            if ty is None:
                raise TranslateError("%s: == between %s and %s" % (self.name, lt, rt))
            a, b = coerce(l, lt, ty), coerce(r, rt, ty)
            if ty in (OTREE, "tree"):
                return "(%spyEq %s %s)" % (neg, coerce(a, ty, OTREE), coerce(b, ty, OTREE))
            if ty == "path":
                return "(%spathEq %s %s)" % (neg, a, b)
            if ty in ("int", "str", "objtype", "status", OTYPE, "bool"):
                return "(%s %s %s)" % (a, "!=" if neg else "==", b)
            raise TranslateError("%s: == on %s" % (self.name, ty))
        if isinstance(op, (ast.Lt, ast.LtE, ast.Gt, ast.GtE)) and lt == rt == "int":
            sym = {ast.Lt: "<", ast.LtE: "≤", ast.Gt: ">", ast.GtE: "≥"}[type(op)]
            return "(decide (%s %s %s))" % (l, sym, r)
        raise TranslateError("%s: unsupported comparison %s" % (self.name, ast.unparse(e)))

    # ------------------------------------------------------------------ statements
    @staticmethod
    def has_return(stmts):
        return any(isinstance(n, ast.Return) for s in stmts for n in ast.walk(s))

    def assigned(self, stmts):
        """names (re)bound by the statements, in first-occurrence order"""
        out = []

        def add(n):
            if n not in out:
                out.append(n)

        for s in stmts:
            if isinstance(s, ast.Assign):
                for t in s.targets:
                    self._targets(t, add)
            elif isinstance(s, (ast.AnnAssign, ast.AugAssign)):
                self._targets(s.target, add)
            elif isinstance(s, ast.Expr) and isinstance(s.value, ast.Call) and isinstance(s.value.func, ast.Attribute) and isinstance(s.value.func.value, ast.Name) and s.value.func.attr in ("append", "pop"):
                add(s.value.func.value.id)
            elif isinstance(s, ast.If):
                for n in self.assigned(s.body) + self.assigned(s.orelse):
                    add(n)
            elif isinstance(s, (ast.For, ast.While)):
                self._targets(getattr(s, "target", None), add)
                for n in self.assigned(s.body):
                    add(n)
        return out

    def _targets(self, t, add):
        if t is None:
            return
        if isinstance(t, ast.Name):
            add(t.id)
        elif isinstance(t, ast.Tuple):
            for x in t.elts:
                self._targets(x, add)
        elif isinstance(t, ast.Subscript):
            # x.attr[k] = v rebinds x
            v = t.value
            while isinstance(v, (ast.Attribute, ast.Subscript)):
                v = v.value
            if isinstance(v, ast.Name):
                add(v.id)

    def bind(self, env, name, ty):
        env.vars[name] = ty
        for k in [k for k in env.narrowed if k == name or k.startswith(name + ".")]:
            del env.narrowed[k]

    def simple(self, s, env, ind):
        """a statement without control flow -> lines (binds + let); updates env"""
        pad = "  " * ind
        binds = []
        out = None
        if isinstance(s, ast.Expr) and isinstance(s.value, ast.Constant) and isinstance(s.value.value, str):
            return []  # docstring / string statement
        if isinstance(s, ast.Pass):
            return []
        if isinstance(s, (ast.Assign, ast.AnnAssign)) and (isinstance(s, ast.AnnAssign) or len(s.targets) == 1):
            tgt = s.target if isinstance(s, ast.AnnAssign) else s.targets[0]
            if s.value is None:
                return []
            if isinstance(tgt, ast.Name):
                v, t = self.ex(s.value, env, binds)
                if norm(t) == NONE:
                    raise TranslateError("%s: variable %s bound to a bare None" % (self.name, tgt.id))
                self.bind(env, tgt.id, t)
                out = "let %s := %s" % (mangle(tgt.id), v)
            elif (isinstance(tgt, ast.Subscript) and isinstance(tgt.value, ast.Attribute) and isinstance(tgt.value.value, ast.Name)
                  and tgt.value.attr in BUCKETS):
                obj = tgt.value.value.id
                o, ot = self.ex(tgt.value.value, env, binds)
                if norm(ot) != "node" or obj not in env.vars:
                    raise TranslateError("%s: item assignment on %s" % (self.name, ot))
                k, kt = self.ex(tgt.slice, env, binds)
                v, vt = self.ex(s.value, env, binds)
                if kt != "path" or norm(vt) != "node":
                    raise TranslateError("%s: %s[%s] = %s" % (self.name, ast.unparse(tgt.value), kt, vt))
                out = "let %s ← %s.set%s %s %s" % (mangle(obj), o, tgt.value.attr.capitalize(), k, v)
        elif isinstance(s, ast.AugAssign) and isinstance(s.op, ast.Add) and isinstance(s.target, ast.Name):
            x, xt = self.ex(s.target, env, binds)
            v, vt = self.ex(s.value, env, binds)
            ty = unify(xt, vt)
            if ty is not None and isinstance(norm(ty), tuple) and norm(ty)[0] == "list":
                self.bind(env, s.target.id, ty)
                out = "let %s := %s ++ %s" % (mangle(s.target.id), x, v)
        elif isinstance(s, ast.Expr) and isinstance(s.value, ast.Call) and isinstance(s.value.func, ast.Attribute) and isinstance(s.value.func.value, ast.Name) and not s.value.keywords:
            name = s.value.func.value.id
            x, xt = self.ex(s.value.func.value, env, binds)
            xt = norm(xt)
            if isinstance(xt, tuple) and xt[0] == "list" and name in env.vars:
                if s.value.func.attr == "append" and len(s.value.args) == 1:
                    v, vt = self.ex(s.value.args[0], env, binds)
                    ety = unify(xt[1], vt)
                    if ety is not None:
                        self.bind(env, name, ("list", ety))
                        out = "let %s := %s ++ [%s]" % (mangle(name), x, coerce(v, vt, ety))
                elif s.value.func.attr == "pop" and not s.value.args:
                    t = self.fresh()
                    binds.append("let %s ← listPop %s" % (t, x))
                    out = "let %s := %s.1" % (mangle(name), t)
        if out is None:
            raise TranslateError("%s: unsupported statement `%s`" % (self.name, ast.unparse(s)[:100]))
        return [pad + b for b in binds] + [pad + out]

    def ret_value(self, e, env, ind, mode):
        pad = "  " * ind
        binds = []
        if e is None:
            v, t = "none", NONE
        else:
            v, t = self.ex(e, env, binds)
        v = coerce(v, t, self.rty, "return value")
        if mode == "loop":
            v = "(Sum.inl %s)" % v
        return [pad + b for b in binds] + [pad + "pure %s" % v]

    def narrowing(self, test, env):
        """`X is None` / `X is not None` with X a variable or attribute chain of Optional type
        -> (expr node, positive?)"""
        if isinstance(test, ast.Compare) and len(test.ops) == 1 and isinstance(test.ops[0], (ast.Is, ast.IsNot)) \
                and isinstance(test.comparators[0], ast.Constant) and test.comparators[0].value is None \
                and isinstance(test.left, (ast.Name, ast.Attribute)):
            try:
                b = []
                _, t = self.ex(test.left, env.copy(), b)
            except TranslateError:
                return None
            t = norm(t)
            if not b and isinstance(t, tuple) and t[0] == "opt" and t[1] is not None:
                return test.left, isinstance(test.ops[0], ast.IsNot)
        return None

    def narrow_env(self, env, expr, lean_name, ty):
        env2 = env.copy()
        if isinstance(expr, ast.Name):
            env2.vars[expr.id] = ty
            env2.narrowed.pop(expr.id, None)
        else:
            env2.narrowed[ast.unparse(expr)] = (lean_name, ty)
        return env2

    def block(self, stmts, env, ind, tail, mode):
        """statements, then `tail(env, ind)` if control falls off their end -> lines"""
        pad = "  " * ind
        if not stmts:
            return tail(env, ind)
        s, rest = stmts[0], list(stmts[1:])
        if isinstance(s, ast.Return):
            return self.ret_value(s.value, env, ind, mode)
        if isinstance(s, ast.Assert):
            nr = self.narrowing(s.test, env)
            if nr and nr[1]:
                expr = nr[0]
                x, t = self.ex(expr, env, [])
                nm = mangle(expr.id) if isinstance(expr, ast.Name) else self.fresh()
                env2 = self.narrow_env(env, expr, nm, norm(t)[1])
                return [pad + "match %s with" % x, pad + "| none => throw PyErr.assertionError", pad + "| some %s =>" % nm] + \
                    self.block(rest, env2, ind + 1, tail, mode)
            binds = []
            c = self.cond(s.test, env, binds)
            return [pad + b for b in binds] + [pad + "if !%s then" % c, pad + "  throw PyErr.assertionError", pad + "else"] + \
                self.block(rest, env, ind + 1, tail, mode)
        if isinstance(s, ast.If):
            if self.has_return([s]):
                return self.if_(s, env, ind, lambda body, e2, i2: self.block(list(body) + rest, e2, i2, tail, mode))
            # no return inside: the branches only rebind variables
            names = [n for n in self.assigned([s]) if n in env.vars or (n in self.assigned(s.body) and n in self.assigned(s.orelse))]
            if not names:
                raise TranslateError("%s: if statement without effect: %s" % (self.name, ast.unparse(s.test)))
            envs = []

            def join_tail(e2, i2):
                envs.append(e2)
                missing = [n for n in names if n not in e2.vars]
                if missing:
                    raise TranslateError("%s: %s not bound on every path" % (self.name, missing))
                return ["  " * i2 + "pure " + self.tuple_([mangle(n) for n in names])]

            lines = self.if_(s, env, ind + 1, lambda body, e2, i2: self.block(list(body), e2, i2, join_tail, "none"))
            st = self.fresh("s")
            for n in names:
                ty = envs[0].vars[n]
                for e2 in envs[1:]:
                    ty = unify(ty, e2.vars[n])
                    if ty is None:
                        raise TranslateError("%s: %s has different types after the branches" % (self.name, n))
                self.bind(env, n, ty)
            if len(names) == 1:
                head = [pad + "let %s ← (do" % mangle(names[0])]
                post = []
            else:
                head = [pad + "let %s ← (do" % st]
                post = [pad + "let %s := %s" % (mangle(n), self.proj(st, i, len(names))) for i, n in enumerate(names)]
            lines[-1] += ")"
            return head + lines + post + self.block(rest, env, ind, tail, mode)
        if isinstance(s, ast.While):
            s = self.while_as_for(s)
            # falls through to the for translation; afterwards the popped list is empty
        if isinstance(s, tuple):  # (For node, emptied list name)
            for_node, emptied = s
            return self.for_(for_node, env, ind, rest, tail, mode, emptied)
        if isinstance(s, ast.For):
            return self.for_(s, env, ind, rest, tail, mode, None)
        if isinstance(s, (ast.Raise, ast.Break, ast.Continue, ast.With, ast.Try, ast.FunctionDef, ast.Delete, ast.Global, ast.Nonlocal)):
            raise TranslateError("%s: unsupported statement `%s`" % (self.name, ast.unparse(s)[:80]))
        lines = self.simple(s, env, ind)
        return lines + self.block(rest, env, ind, tail, mode)

    def if_(self, s, env, ind, branch):
        """`branch(body, env, ind)` -> lines of a branch. Result: lines of the Lean conditional."""
        pad = "  " * ind
        nr = self.narrowing(s.test, env)
        if nr:
            expr, positive = nr
            x, t = self.ex(expr, env, [])
            nm = mangle(expr.id) if isinstance(expr, ast.Name) else self.fresh()
            env_some = self.narrow_env(env, expr, nm, norm(t)[1])
            some_body, none_body = (s.body, s.orelse) if positive else (s.orelse, s.body)
            return [pad + "match %s with" % x, pad + "| none =>"] + branch(none_body, env.copy(), ind + 1) + \
                [pad + "| some %s =>" % nm] + branch(some_body, env_some, ind + 1)
        binds = []
        c = self.cond(s.test, env, binds)
        return [pad + b for b in binds] + [pad + "if %s then" % c] + branch(s.body, env.copy(), ind + 1) + \
            [pad + "else"] + branch(s.orelse, env.copy(), ind + 1)

    def while_as_for(self, s):
        """`while xs: x = xs.pop(); BODY` with xs not mentioned in BODY = `for x in reversed(xs): BODY; xs = []`"""
        if (isinstance(s.test, ast.Name) and not s.orelse and s.body and isinstance(s.body[0], ast.Assign) and len(s.body[0].targets) == 1
                and isinstance(s.body[0].targets[0], ast.Name)):
            v = s.body[0].value
            xs = s.test.id
            if (isinstance(v, ast.Call) and isinstance(v.func, ast.Attribute) and v.func.attr == "pop" and not v.args and not v.keywords
                    and isinstance(v.func.value, ast.Name) and v.func.value.id == xs):
                rest = s.body[1:]
                if not any(isinstance(n, ast.Name) and n.id == xs for st in rest for n in ast.walk(st)) \
                        and not any(isinstance(n, (ast.Break, ast.Continue)) for st in rest for n in ast.walk(st)):
                    f = ast.For(target=s.body[0].targets[0], iter=ast.Name(id=xs, ctx=ast.Load()), body=rest, orelse=[], lineno=s.lineno, col_offset=0)
                    f._reversed = True
                    return (f, xs)
        raise TranslateError("%s: unsupported while loop (only `while xs: x = xs.pop(); ...`)" % self.name)

    @staticmethod
    def tuple_(names):
        return names[0] if len(names) == 1 else "(" + ", ".join(names) + ")"

    @staticmethod
    def proj(st, i, n):
        # right-nested pairs: (a, b, c) = (a, (b, c))
        if n == 1:
            return st
        return st + ".2" * i + (".1" if i < n - 1 else "")

    def for_(self, s, env, ind, rest, tail, mode, emptied):
        pad = "  " * ind
        if s.orelse or any(isinstance(n, (ast.Break, ast.Continue)) for st in s.body for n in ast.walk(st)):
            raise TranslateError("%s: for loop with else/break/continue" % self.name)
        binds = []
        xs, xt = self.ex(s.iter, env, binds)
        xt = norm(xt)
        if not (isinstance(xt, tuple) and xt[0] in ("list", "unord")):
            raise TranslateError("%s: loop over %s" % (self.name, xt))
        if xt[0] == "unord":
            # a set / the items or keys of an input dict: the iteration order is a parameter
            xs = "(ord _ %s)" % xs
            self.uses_ord = True
        if getattr(s, "_reversed", False):
            xs = "(%s).reverse" % xs
        ety = xt[1]
        x = self.fresh("x")
        st = self.fresh("s")
        env_b = env.copy()
        pad2 = "  " * (ind + 2)
        tgt_lines = []
        if isinstance(s.target, ast.Name):
            self.bind(env_b, s.target.id, ety)
            tgt_lines.append(pad2 + "let %s := %s" % (mangle(s.target.id), x))
        elif isinstance(s.target, ast.Tuple) and all(isinstance(t, ast.Name) for t in s.target.elts) and isinstance(ety, tuple) and ety[0] == "prod" and len(s.target.elts) == 2:
            for i, t in enumerate(s.target.elts):
                self.bind(env_b, t.id, ety[1 + i])
                tgt_lines.append(pad2 + "let %s := %s.%d" % (mangle(t.id), x, i + 1))
        else:
            raise TranslateError("%s: unsupported loop target %s over %s" % (self.name, ast.unparse(s.target), ety))
        tnames = [n.id for n in ast.walk(s.target) if isinstance(n, ast.Name)]
        state = [n for n in self.assigned(s.body) if n in env.vars and n not in tnames]
        if not state:
            raise TranslateError("%s: for loop without effect" % self.name)
        with_ret = self.has_return(s.body)
        if with_ret and mode != "fn":
            raise TranslateError("%s: return inside a nested loop" % self.name)
        unpack = [pad2 + "let %s := %s" % (mangle(n), self.proj(st, i, len(state))) for i, n in enumerate(state)] if len(state) > 1 else []
        stname = st if len(state) > 1 else mangle(state[0])
        types_before = {n: env.vars[n] for n in state}

        def loop_tail(e2, i2):
            for n in state:
                if unify(e2.vars[n], types_before[n]) is None:
                    raise TranslateError("%s: loop changes the type of %s" % (self.name, n))
            v = self.tuple_([mangle(n) for n in state])
            return ["  " * i2 + ("pure (Sum.inr %s)" % v if with_ret else "pure %s" % v)]

        body = self.block(list(s.body), env_b, ind + 2, loop_tail, "loop" if with_ret else "none")
        init = self.tuple_([mangle(n) for n in state])
        lines = [pad + b for b in binds]
        res = self.fresh("r") if with_ret else stname
        comb = "forRet" if with_ret else "List.foldlM"
        lines.append(pad + "let %s ← %s (fun %s %s => do" % (res, comb, stname, x))
        lines += unpack + tgt_lines + body
        lines[-1] += ")"
        lines.append(pad + "    " + ("%s %s" % (xs, init) if with_ret else "%s %s" % (init, xs)))
        # after the loop: the state variables keep their types; the loop variables are dropped from
        # the environment (Python keeps their last value; a later use is reported, not mistranslated)
        for n in state:
            self.bind(env, n, types_before[n])
        for n in tnames:
            env.vars.pop(n, None)
        after = []
        if len(state) > 1:
            after = [pad + "let %s := %s" % (mangle(n), self.proj(st, i, len(state))) for i, n in enumerate(state)]
        if emptied is not None:
            after.append(pad + "let %s := ([] : %s)" % (mangle(emptied), lean_ty(env.vars[emptied])))
        if with_ret:
            inner = self.block(rest, env, ind + 1, tail, mode)
            return lines + [pad + "match %s with" % res, pad + "| Sum.inl %s => pure %s" % (res, res), pad + "| Sum.inr %s =>" % stname] + \
                ["  " + a for a in after] + inner
        return lines + after + self.block(rest, env, ind, tail, mode)

    # ------------------------------------------------------------------ function
    def translate(self):
        fn = self.fn
        a = fn.args
        if a.vararg or a.kwarg or a.kwonlyargs or a.defaults or a.posonlyargs:
            raise TranslateError("%s: unsupported parameter list" % self.name)
        names = [x.arg for x in a.args]
        if len(names) != 1 + len(self.ptys):
            raise TranslateError("%s: expected %d parameters, found %d" % (self.name, 1 + len(self.ptys), len(names)))
        decos = [d.id if isinstance(d, ast.Name) else getattr(d, "attr", "?") for d in fn.decorator_list]
        want = {"cls": ["classmethod"], "node": ["property"] if self.name in ("prev_type", "curr_type") else [], "dirdiff": []}[self.self_kind]
        if decos != want:
            raise TranslateError("%s: decorators %s, expected %s" % (self.name, decos, want))
        env = Env()
        params = []
        if self.self_kind == "cls":
            env.vars[names[0]] = "cls"
        else:
            env.vars[names[0]] = self.self_kind
            params.append((mangle(names[0]), "DNode" if self.self_kind == "node" else "Option DNode"))
        for n, t in zip(names[1:], self.ptys):
            env.vars[n] = t
            params.append((mangle(n), lean_ty(t)))
        if isinstance(self.rty, tuple) and self.rty[0] == "opt":
            def tail(e2, i2):
                return ["  " * i2 + "pure none"]
        else:
            def tail(e2, i2):
                raise TranslateError("%s: control can fall off the end of the function" % self.name)
        rec = self.name in self.recursive
        body = self.block(strip_doc(fn.body), env, 2 if rec else 1, tail, "fn")
        text = "\n".join(body)
        for ph, h in self.patches:
            text = text.replace(ph, lean_ty_atom(h.resolved()))
        rty = "M %s" % lean_ty_atom(self.rty)
        ordp = "(ord : IterOrd) " if self.name in self.with_ord else ""
        if self.uses_ord and not ordp:
            raise NeedsOrd(self.name)
        if rec:
            head = "def %s %s: Nat → %s → %s\n" % (self.name, ordp, " → ".join(lean_ty_atom_s(t) for _, t in params), rty)
            head += "  | 0, %s => throw PyErr.recursionError\n" % ", ".join("_" for _ in params)
            head += "  | fuel + 1, %s => do\n" % ", ".join(p for p, _ in params)
        else:
            head = "def %s %s%s : %s := do\n" % (self.name, ordp, " ".join("(%s : %s)" % p for p in params), rty)
        return head + text + "\n"


def lean_ty_atom_s(s):
    return "(%s)" % s if " " in s else s


ORDER = ["_type", "prev_type", "curr_type", "children", "nodes", "status", "compare", "get"]


def is_recursive(name, fn):
    """does the function call itself (`x.name(...)`; for the methods of DirDiff only `self.name(...)`,
    dicts have a `get` too)"""
    selfname = fn.args.args[0].arg if fn.args.args else None
    for n in ast.walk(fn):
        if isinstance(n, ast.Call) and isinstance(n.func, ast.Attribute) and n.func.attr == name:
            if SIGS[name][0] != "dirdiff" or (isinstance(n.func.value, ast.Name) and n.func.value.id == selfname):
                return True
    return False


def stub(name, recursive, why, with_ord=("compare",)):
    """a definition of the right type for a function that could not be translated: the functions
    calling it still compile, its own bridge theorem cannot be proved"""
    kind, ptys, rty = SIGS[name]
    tys = (["IterOrd"] if name in with_ord else []) + (["Nat"] if name in recursive else []) + \
        ({"node": ["DNode"], "dirdiff": ["Option DNode"], "cls": []}[kind]) + [lean_ty_atom(t) for t in ptys]
    return "/- NOT TRANSLATED: %s -/\ndef %s : %s → M %s :=\n  %sthrow PyErr.untranslated\n" % (
        why.replace("-/", "- /"), name, " → ".join(tys), lean_ty_atom(rty), "fun %s => " % " ".join("_" for _ in tys))


def gen_diff_checked():
    """-> (text of Gen/Diff.lean, list of translation errors). A function that cannot be translated
    becomes a stub raising `PyErr.untranslated`, so that only its own bridge obligation breaks."""
    tree = parse_source(SRC)
    node = find_class(tree, "DiffNode")
    dirdiff = find_class(tree, "DirDiff")
    # the fields the dictionary relies on
    fields = {n.target.id: ast.unparse(n.annotation) for n in node.body if isinstance(n, ast.AnnAssign) and isinstance(n.target, ast.Name)}
    for f in NODE_FIELDS:
        if f not in fields:
            raise TranslateError("DiffNode has no field %s" % f)
    for en, (_, members) in ENUMS.items():
        c = find_class(node, en)
        found = [t.id for n in c.body if isinstance(n, ast.Assign) for t in n.targets if isinstance(t, ast.Name)]
        if sorted(found) != sorted(members):
            raise TranslateError("members of DiffNode.%s are %s" % (en, found))
    errors = []
    fns = {}
    for name in ORDER:
        try:
            fns[name] = find_func(dirdiff if SIGS[name][0] == "dirdiff" else node, name)
        except TranslateError as e:
            fns[name] = None
            errors.append(str(e))
    props = {n.name for n in node.body if isinstance(n, ast.FunctionDef) and any(isinstance(d, ast.Name) and d.id == "property" for d in n.decorator_list)}
    recursive = {n for n in ORDER if (fns[n] is not None and is_recursive(n, fns[n])) or (fns[n] is None and n in ("nodes", "compare"))}
    out = [
        "import MetadorModel.Py.DiffPy",
        "/-! GENERATED on every run by harness/translate_c18.py from",
        "    src/metador_core/util/diff.py (DiffNode._type, prev_type, curr_type, children, nodes, status,",
        "    compare; DirDiff.get). Do not edit. -/",
        "set_option linter.unusedVariables false",
        "namespace MetadorModel.Gen.Diff",
        "open MetadorModel.Diff MetadorModel.DiffPy",
        "",
    ]
    with_ord = set()
    for name in ORDER:
        if fns[name] is None:
            out.append(stub(name, recursive, "function not found"))
            continue
        try:
            try:
                out.append(Fn(name, fns[name], props, recursive, with_ord).translate())
            except NeedsOrd:
                with_ord.add(name)
                out.append(Fn(name, fns[name], props, recursive, with_ord).translate())
        except TranslateError as e:
            errors.append(str(e))
            if name == "compare":
                with_ord.add(name)
            out.append(stub(name, recursive, str(e), with_ord))
    out.append("/-- functions with a recursion-depth argument -/")
    out.append("def recursiveFunctions : List String := [%s]" % ", ".join('"%s"' % n for n in ORDER if n in recursive))
    out.append("/-- functions that iterate over a set or an input dict: the iteration order is their first argument -/")
    out.append("def orderParametricFunctions : List String := [%s]\n" % ", ".join('"%s"' % n for n in ORDER if n in with_ord))
    out.append("end MetadorModel.Gen.Diff\n")
    return "\n".join(out), errors


def gen_diff():
    text, errors = gen_diff_checked()
    if errors:
        raise TranslateError("; ".join(errors))
    return text


if __name__ == "__main__":
    t, errs = gen_diff_checked()
    print(t)
    for e in errs:
        print("-- TranslateError:", e)
