"""Python-AST -> Lean translator for the syntactic file discovery and the open-mode dispatch of C03.

Regenerates `lean/MetadorModel/Gen/FindFilesFns.lean` from the current source on every
`./check C03` run (`gen_findfilesfns()`, called by `translate(ctx)` in `harness/props/c03.py`). The
bridge theorems in `lean/MetadorModel/Bridge/FindFilesFns.lean` (`Gen.FindFilesFns.f … = Model f …`)
are re-checked by `lake build` on every run, so the C03 (and C02) theorems, which are about
`Model/FindFiles.lean` and `openRec`/`createPatch` of `Model/Record.lean`, transfer to what the
source says now.

Translated (source lines of the pinned tree; found by name, not by line number)
  src/metador_core/ih5/record.py  class IH5Record
      `_ALLOWED_NAME_CHARS`, `_PATCH_INFIX`, `_FILE_EXT`          (l. 170, 176, 177)
      `_is_valid_record_name`                                      (l. 206-209)
      `_infer_name`                                                (l. 216-218)
      `_next_patch_filepath`                                       (l. 220-226)
      `find_files` (glob + the false-positive regex filter)        (l. 406-427)
      `__init__`, the whole body = the mode dispatch               (l. 451-504)
  src/metador_core/util/types.py  `OpenMode`, `OPEN_MODES`         (l. 25, 28)

Value dictionary (fixed; Lean side: `lean/MetadorModel/Py/RecordPy.lean`, table in its header)
  str ↦ Str (List Char); non-negative int ↦ Nat; `f"{n}"` of an int ↦ pyStrNat n (decimal)
  pathlib.Path (file or record prefix) ↦ its base name (FindFiles.Name); `p.name` ↦ p; `Path(p)` ↦ p;
      `p.parent` ↦ the listing `List Name` of that directory (parameter `<p>_parent` of a pure
      function; `names r.st.disk` = the directory as it is at that moment inside `__init__`);
      `f"{q.parent}/<rest>"` given to `Path(..)` ↦ the base name `<rest>` (a sibling of q)
  `d.glob(pattern)` ↦ pyGlob d g, g = the pattern parsed as a glob (`*`, `?`, literals; via
      fnmatch.translate = `(?s:…)\\Z`); `[p for p in xs if c]` ↦ xs.filter (fun p => c)
  regular expressions: the pattern text is assembled at translation time from the f-string (class
      constants `cls._X` are pasted as text), parsed with Python's own `re._parser`, and its parse
      tree is mapped node by node to `List Item` (LITERAL, IN/NEGATE/RANGE, NOT_LITERAL, ANY,
      MAX_REPEAT {1,∞}/{0,∞}/{0,1} of a one-character atom, AT_BEGINNING, AT_END (`$`: end or before a
      final "\\n"), AT_END_STRING); matching is the generic `matchItems`. `re.match(p, s)` ↦ pyReMatch p s
      (a Bool: "a match object, not None"); `… is not None` / truth value ↦ itself, `… is None` ↦ `!`
  a run-time str pasted into a pattern (`f"^{record.name}[…]"`, `f"{record.name}*…"`) ↦ pyReInterp x /
      pyGlobInterp x = a run of literals. That is what `re`/`glob` do when x has no metacharacter; the
      bridge theorem `gen_find_files_interp_plain` proves it for every x that passed the translated
      `_is_valid_record_name` check that guards the paste (no `re.escape` in the source!)
  `s.split(sep)` (sep a non-empty class constant) ↦ pySplit s sep; `l[0]` on it ↦ pyHead l
  `mode: OpenMode` ↦ Record.Mode, spelled by the fixed table modeStr (r, r+, a, w, w-, x; the translator
      checks that `OpenMode` still is `Literal` of exactly these); `mode == "x"` ↦ modeStr mode == ['x'];
      `mode[0] == "w"` ↦ (modeStr mode).head? == some 'w' (all six are non-empty: no IndexError);
      `mode in OPEN_MODES` ↦ OPEN_MODES.contains (modeStr mode), OPEN_MODES read from util/types.py
  `record: Union[str, Path, List[Path]]` ↦ Record.Target; `isinstance(record, list)` ↦ `match` on the
      constructor (`.list fs` / `.name n`)
  `None` / a list in a variable that is assigned `None` somewhere ↦ Option (List Name);
      truth value of it (`not paths`) ↦ pyTruthy (None and [] are falsy)
  a local that is not bound on the path taken (`path` after `isinstance(record, list)`) ↦ reading it
      raises: `.unboundLocal`
  `self.__files__[k].filename` / `self._ublock(k)` (k an int literal, negative allowed) ↦ first /
      second component of `pyIdx files k` (`Handle.files`; IndexError out of range); `.patch_index` ↦ `.idx`
  raise E(…) ↦ `.error .e` / `pyRaise r .e` (messages dropped): ValueError, FileNotFoundError, …
  inside `__init__` (`self` ↦ the running `Res`: model state + files created/removed/rewritten so far):
      `ret = self._create(p, truncate=t); self.__dict__.update(ret.__dict__)` ↦ pyStep r (pyCreate mfcls p t)
      `ret = self._open(ps, reopen_incomplete_patch=w, **kwargs); self.__dict__.update(ret.__dict__)`
          ↦ pyStep r (pyOpen mfcls ps w)      (`_create`/`_open` themselves: the record MODEL's account)
      `self._allow_patching = b` ↦ pySetAllow r b; `self._has_writable` ↦ pyHasWritable r
      `self.create_patch()` ↦ pyStep r pyCreatePatch;  `self.find_files(p)` ↦ pyCall r (find_files (names r.st.disk) p)
      `super().__init__(self)` ↦ nothing; an exception leaving `__init__` ↦ pyCtor: no new handle
  control: `if/elif/else`, early `return`/`raise`, `a if c else b`, `and`/`or`/`not` on truth values;
      statements after an `if` are translated once per branch (the translation is a tree of cases)

Anything else (other statements, calls, regex operators such as groups, alternation, categories `\\W`,
`re.compile`, flags, loops) raises TranslateError with a message naming what was not understood; the
check records it as the undischarged obligation `translate:C03` and the bridge modules do not build.

NOT translated, tied by the correspondence run / oracle only: `_create`, `_open`, `_check_ublock`,
`create_patch` (apart from the file name it asks `_next_patch_filepath` for), `commit_patch`,
`discard_patch`, `close`, `merge_files`, `delete_files`, `list_records`, `_base_filename`, the user
block codec, the default `mode="r"` of `__init__`, behaviour for mode strings outside `OpenMode`,
what `Path.glob` / `os.scandir` enumerate (the listing is the model's `dir`), exception messages.

Bridge modules (all theorems in namespace MetadorModel.Bridge.FindFilesFns; split so that a broken
obligation is attributed; a function that cannot be translated is left out of Gen/ and only its module fails):
  Bridge/FindFilesFnsDict.lean   lemmas about the dictionary alone (imports nothing generated)
  Bridge/FindFilesFnsName.lean   gen_constants, gen_infer_name, gen_next_patch_filepath, gen_createPatch_path
  Bridge/FindFilesFnsValid.lean  gen_is_valid_record_name
  Bridge/FindFilesFns.lean       gen_find_files, gen_find_files_interp_plain
  Bridge/FindFilesFnsInit.lean   gen_init  (= `openRec`, all targets x modes x disks)

Mutation tests (METADOR_REPO=<scratch worktree> ./check C03 --tier quick)
  behaviour-changing edits, each breaks a bridge theorem (exit 1; the three marked * were run through the
  whole check: oracle hits + replay files): `[^A-Za-z0-9]` in the false-positive filter *, `+` -> `*` and
  `$` -> `\\Z` in the name pattern, `want_rw = mode == "a"` *, `_ublock(0)` for `_ublock(-1)`,
  `truncate=(mode[0] == "w")` *, `if mode == "r"` for `if mode != "a"`, `_PATCH_INFIX = "-p"`, the two
  `split`s of `_infer_name` swapped, `self._allow_patching = want_rw` dropped, glob `NAME.*EXT`,
  `want_rw or not self._has_writable`, `if paths is None` for `if not paths`, `mode == "w"` for `mode[0] == "w"`.
  Seeded change C03-s1 (`re.compile(rf"^{re.escape(record.name)}\\W")`): TranslateError (re.compile / \\W are not
  in the fragment) -> translate:C03, gen_find_files, gen_find_files_interp_plain, gen_init undischarged, exit 1
  with failing inputs. C03-s2/s3/s4 touch `close`, `_open`, `IH5UserBlock.load`: not translated, Gen/ unchanged,
  found by the correspondence / oracle only.
  behaviour-preserving edits that stay green (applied together, exit 0): renamed locals / parameters / loop
  variable, comments and docstrings, reordered independent assignments, annotated locals, intermediate locals
  (`base = …split(..)[0]`, `guard = f"^…"`, `candidates = ….glob(..)`, `m = re.match(..)`),
  `return X is not None` <-> `if X is None: return False / return True`, `re.match(..)` as a condition with or
  without `is not None`, `(mode == "w")` <-> `True if mode == "w" else False`, `if c: raise` + rest <->
  `if c: raise / else: rest`, `if mode != "a": raise / else: create` <-> `if mode == "a": create; return / raise`,
  swapped operands of a pure `or`, a trailing `return` / `pass`.
  Known to break the tie although harmless: a `for` loop with `append` instead of the list comprehension,
  `re.compile(..).match`, `re.escape(record.name)` (would in fact be *safer* than the source), `assert`, logging
  calls, `mode in ("w", "w-")` style tests on tuples, helper functions / new constants the translator does not know.
"""
import ast
import os

from . import envshim  # noqa: F401
from .translate import TranslateError, find_class, strip_doc

RECORD = "src/metador_core/ih5/record.py"
TYPES = "src/metador_core/util/types.py"
GEN_REL = ("MetadorModel", "Gen", "FindFilesFns.lean")

HEADER = """import MetadorModel.Py.RecordPy
/-! GENERATED on every run by harness/translate_c03.py from
    src/metador_core/ih5/record.py (class IH5Record) and src/metador_core/util/types.py.
    Do not edit. Value dictionary: Py/RecordPy.lean. -/
set_option linter.unusedVariables false
namespace MetadorModel.Gen.FindFilesFns
open MetadorModel.FindFiles MetadorModel.Record MetadorModel.RecordPy
"""

MODE_TABLE = {"r": ".r", "r+": ".rp", "a": ".a", "w": ".w", "w-": ".wm", "x": ".x"}
EXC = {"ValueError": ".valueError", "FileNotFoundError": ".fileNotFound", "FileExistsError": ".fileExists",
       "OSError": ".osError", "KeyError": ".keyError", "IndexError": ".indexError",
       "AssertionError": ".assertionError"}
CONST_LEAN = {"_ALLOWED_NAME_CHARS": "ALLOWED_NAME_CHARS", "_PATCH_INFIX": "PATCH_INFIX", "_FILE_EXT": "FILE_EXT"}
PLACEHOLDER0 = 0xE000  # private-use code points stand for pasted run-time strings while a pattern is parsed

# python name -> (lean name, decorators, parameter types after cls/self, result type, may raise)
PURE = {
    "_is_valid_record_name": ("is_valid_record_name", ["classmethod"], "cls", ["str"], "bool", False),
    "_infer_name": ("infer_name", ["classmethod"], "cls", ["path"], "str", False),
    "find_files": ("find_files", ["classmethod"], "cls", ["path+"], "names", True),
    "_next_patch_filepath": ("next_patch_filepath", [], "self_files", [], "path", True),
}
AVAILABLE = set()   # the functions of PURE translated so far in this run
LEAN_TY = {"str": "Str", "bool": "Bool", "nat": "Nat", "path": "Name", "names": "List Name",
           "optnames": "Option (List Name)"}


class UnboundLocal(Exception):
    """reading a local variable that is not bound on the path being translated"""


def _src(rel):
    path = os.path.join(envshim.REPO, rel)
    try:
        return ast.parse(open(path).read(), filename=path)
    except (OSError, SyntaxError) as e:
        raise TranslateError("cannot parse %s: %s" % (rel, e))


def _d(e):
    try:
        return ast.unparse(e)[:100]
    except Exception:  # noqa: BLE001
        return ast.dump(e)[:100]


def lean_char(cp):
    if cp in (0x27, 0x5C):
        return "'\\%s'" % chr(cp)
    if 32 <= cp < 127:
        return "'%s'" % chr(cp)
    if cp == 10:
        return "'\\n'"
    if cp == 9:
        return "'\\t'"
    return "(Char.ofNat %d)" % cp


def lean_str(s):
    if s == "":
        return "([] : Str)"
    return "[" + ", ".join(lean_char(ord(c)) for c in s) + "]"


class V:
    """a translated value: Lean text, dictionary type, and what else is known about it
    const  : the Python str it is known to be (string constants / class constants)
    parent : for a path, the Lean text of the listing of its directory ("DISK" inside __init__:
             the model's directory at the moment of use), or None
    parts  : for an f-string, its pieces [("s", text) | ("e", V)]"""

    def __init__(self, lean, ty, const=None, parent=None, parts=None, isfile=False):
        self.lean, self.ty, self.const, self.parent, self.parts, self.isfile = lean, ty, const, parent, parts, isfile


# --------------------------------------------------------------------------- patterns
def _re_parser():
    try:
        import re._parser as p  # Python >= 3.11
        import re._constants as c
    except ImportError:  # pragma: no cover
        import sre_parse as p
        import sre_constants as c
    return p, c


def _assemble(parts, what):
    """pattern text with one private-use character per pasted run-time string"""
    text, holes = "", {}
    for kind, x in parts:
        if kind == "s":
            if any(ord(ch) >= PLACEHOLDER0 for ch in x):
                raise TranslateError("%s: character outside the supported range in the pattern text" % what)
            text += x
        elif x.const is not None:        # class constant: pasted as text at translation time
            text += x.const
        elif x.ty in ("str", "path"):
            ph = chr(PLACEHOLDER0 + len(holes))
            holes[ord(ph)] = x
            text += ph
        else:
            raise TranslateError("%s: a %s is pasted into the pattern" % (what, x.ty))
    return text, holes


def _class_items(av, what):
    p, c = _re_parser()
    neg, items = False, []
    for j, (op, a) in enumerate(av):
        if op is c.NEGATE and j == 0:
            neg = True
        elif op is c.LITERAL:
            if a >= PLACEHOLDER0:
                raise TranslateError("%s: a run-time string is pasted inside [...]" % what)
            items.append(".chr %s" % lean_char(a))
        elif op is c.RANGE:
            items.append(".range %s %s" % (lean_char(a[0]), lean_char(a[1])))
        else:
            raise TranslateError("%s: unsupported element %s in a character class" % (what, op))
    return ".cls %s [%s]" % ("true" if neg else "false", ", ".join(items))


def _atom(op, av, what):
    p, c = _re_parser()
    if op is c.LITERAL:
        if av >= PLACEHOLDER0:
            return None
        return ".chr %s" % lean_char(av)
    if op is c.NOT_LITERAL:
        return ".cls true [.chr %s]" % lean_char(av)
    if op is c.IN:
        return _class_items(av, what)
    if op is c.ANY:
        return ".dot"
    raise TranslateError("%s: unsupported regular expression operator %s" % (what, op))


def regex_to_lean(parts, what):
    """f-string pieces -> Lean text of a `List Item` (segments joined by ++)"""
    p, c = _re_parser()
    text, holes = _assemble(parts, what)
    try:
        tree = p.parse(text, 0)
    except Exception as e:  # noqa: BLE001  (re.error)
        raise TranslateError("%s: Python cannot parse the pattern %r: %s" % (what, text, e))
    if tree.state.flags & ~c.SRE_FLAG_UNICODE:
        raise TranslateError("%s: inline flags in the pattern" % what)
    segs, cur = [], []

    def flush():
        if cur:
            segs.append("[" + ", ".join(cur) + "]")
            del cur[:]

    for op, av in tree:
        if op is c.AT:
            at = {c.AT_BEGINNING: ".bos", c.AT_END: ".eos", c.AT_END_STRING: ".eosZ"}.get(av)
            if at is None:
                raise TranslateError("%s: unsupported anchor %s" % (what, av))
            cur.append(at)
        elif op is c.MAX_REPEAT:
            lo, hi, sub = av
            if len(sub) != 1:
                raise TranslateError("%s: a quantifier on something longer than one character" % what)
            a = _atom(sub[0][0], sub[0][1], what)
            if a is None:
                raise TranslateError("%s: a quantifier binds to the end of a pasted run-time string" % what)
            q = {(1, c.MAXREPEAT): ".plus", (0, c.MAXREPEAT): ".star", (0, 1): ".opt"}.get((lo, hi))
            if q is None:
                raise TranslateError("%s: unsupported quantifier {%s,%s}" % (what, lo, hi))
            cur.append("%s (%s)" % (q, a))
        else:
            a = _atom(op, av, what)
            if a is None:
                flush()
                segs.append("pyReInterp %s" % holes[av].lean)
            else:
                cur.append(".atom (%s)" % a)
    flush()
    return "(" + " ++ ".join(segs) + ")" if segs else "([] : List Item)"


def glob_to_lean(parts, what):
    text, holes = _assemble(parts, what)
    if text == "":
        raise TranslateError("%s: empty glob pattern" % what)
    segs, cur = [], []

    def flush():
        if cur:
            segs.append("[" + ", ".join(cur) + "]")
            del cur[:]

    for ch in text:
        if ord(ch) in holes:
            flush()
            segs.append("pyGlobInterp %s" % holes[ord(ch)].lean)
        elif ch == "*":
            if cur and cur[-1] == ".star":
                raise TranslateError("%s: `**` in a glob pattern" % what)
            cur.append(".star")
        elif ch == "?":
            cur.append(".qmark")
        elif ch in "[]/\\":
            raise TranslateError("%s: unsupported character %r in a glob pattern" % (what, ch))
        else:
            cur.append(".chr %s" % lean_char(ord(ch)))
    flush()
    return "(" + " ++ ".join(segs) + ")"


# --------------------------------------------------------------------------- expressions
class Tr:
    """translator of one function"""

    def __init__(self, name, consts, open_modes, locals_, opt_vars, mode="pure"):
        self.name, self.consts, self.open_modes = name, consts, open_modes
        self.locals, self.opt_vars, self.mode = locals_, opt_vars, mode
        self.hoists = []      # [(lean temp, Lean text of an `Except Out _` value)]
        self.n = 0
        self.r = None         # current Res variable inside __init__

    def fresh(self, p="t"):
        self.n += 1
        return "%s%d" % (p, self.n)

    def err(self, msg):
        return TranslateError("%s: %s" % (self.name, msg))

    def hoist(self, lean):
        t = self.fresh()
        self.hoists.append((t, lean))
        return t

    def parent_of(self, v):
        if v.parent is None:
            raise self.err("the directory of this path is not known to the translation")
        if v.parent == "DISK":
            return "(names %s.st.disk)" % self.r
        return v.parent

    # ---- truth values
    def truth(self, v):
        if v.ty in ("bool", "match"):
            return v.lean
        if v.ty == "optnames":
            return "(pyTruthy %s)" % v.lean
        if v.ty == "names":
            return "(!(%s).isEmpty)" % v.lean
        if v.ty == "str":
            return "(!(%s).isEmpty)" % v.lean
        if v.ty == "nat":
            return "(%s != 0)" % v.lean
        if v.ty == "none":
            return "false"
        raise self.err("truth value of a %s is not in the dictionary" % v.ty)

    def as_str(self, v):
        """Lean text of type Str"""
        if v.ty in ("str", "path"):
            return v.lean
        if v.ty == "mode":
            return "(modeStr %s)" % v.lean
        if v.ty == "nat":
            return "(pyStrNat %s)" % v.lean
        if v.ty == "tmpl":
            segs = []
            for kind, x in v.parts:
                segs.append(lean_str(x) if kind == "s" else self.as_str(x))
            return "(" + " ++ ".join(segs) + ")" if segs else "([] : Str)"
        raise self.err("a %s used as a string" % v.ty)

    def expr(self, e, env):
        if isinstance(e, ast.Name):
            if e.id in env:
                return env[e.id]
            if e.id in self.locals:
                raise UnboundLocal(e.id)
            if e.id == "OPEN_MODES" and self.open_modes is not None:
                return V("OPEN_MODES", "strs_const")
            raise self.err("unknown name %s" % e.id)
        if isinstance(e, ast.Constant):
            if e.value is True or e.value is False:
                return V("true" if e.value else "false", "bool")
            if e.value is None:
                return V("none", "none")
            if isinstance(e.value, str):
                return V(lean_str(e.value), "str", const=e.value)
            if isinstance(e.value, int) and e.value >= 0:
                return V("%d" % e.value, "nat")
            raise self.err("unsupported constant %r" % (e.value,))
        if isinstance(e, ast.Attribute):
            return self.attribute(e, env)
        if isinstance(e, ast.Subscript):
            return self.subscript(e, env)
        if isinstance(e, ast.Call):
            return self.call(e, env)
        if isinstance(e, ast.JoinedStr):
            return self.fstring(e, env)
        if isinstance(e, ast.Compare):
            return self.compare(e, env)
        if isinstance(e, ast.BoolOp):
            n0 = len(self.hoists)
            vs = []
            for i, x in enumerate(e.values):
                vs.append(self.truth(self.expr(x, env)))
                if i == 0:
                    n0 = len(self.hoists)
            if len(self.hoists) != n0:
                raise self.err("a call that may raise in a short-circuited operand: %s" % _d(e))
            return V("(" + (" && " if isinstance(e.op, ast.And) else " || ").join(vs) + ")", "bool")
        if isinstance(e, ast.UnaryOp) and isinstance(e.op, ast.Not):
            return V("(!%s)" % self.truth(self.expr(e.operand, env)), "bool")
        if isinstance(e, ast.IfExp):
            c = self.truth(self.expr(e.test, env))
            n0 = len(self.hoists)
            a, b = self.expr(e.body, env), self.expr(e.orelse, env)
            if len(self.hoists) != n0:
                raise self.err("a call that may raise in a branch of a conditional expression")
            if a.ty != b.ty:
                raise self.err("conditional expression of a %s and a %s" % (a.ty, b.ty))
            return V("(if %s then %s else %s)" % (c, a.lean, b.lean), a.ty, parent=a.parent if a.parent == b.parent else None)
        if isinstance(e, ast.BinOp) and isinstance(e.op, ast.Add):
            a, b = self.expr(e.left, env), self.expr(e.right, env)
            if a.ty == b.ty == "nat":
                return V("(%s + %s)" % (a.lean, b.lean), "nat")
            if a.ty == b.ty == "str":
                return V("(%s ++ %s)" % (a.lean, b.lean), "str")
            raise self.err("unsupported + on %s, %s" % (a.ty, b.ty))
        if isinstance(e, ast.ListComp):
            return self.listcomp(e, env)
        raise self.err("unsupported expression %s" % _d(e))

    def attribute(self, e, env):
        # class constants through cls / self
        if isinstance(e.value, ast.Name) and e.value.id in env and env[e.value.id].ty in ("cls", "self_files", "self_init"):
            owner = env[e.value.id]
            if e.attr in self.consts:
                if e.attr not in CONST_LEAN:
                    raise self.err("class constant %s is not in the dictionary" % e.attr)
                return V(CONST_LEAN[e.attr], "str", const=self.consts[e.attr])
            if e.attr == "__files__" and owner.ty == "self_files":
                return V(owner.lean, "files")
            if e.attr == "_has_writable" and owner.ty == "self_init":
                return V("(pyHasWritable %s)" % self.r, "bool")
            raise self.err("unsupported attribute %s" % _d(e))
        v = self.expr(e.value, env)
        if v.ty == "path" and e.attr == "name":
            return V(v.lean, "str")
        if v.ty == "path" and e.attr == "parent":
            if v.parent is not None:
                return V(self.parent_of(v), "dir")
            return V(None, "parentdir")
        if v.ty == "file" and e.attr == "filename":
            return V("%s.1" % v.lean, "str", isfile=True)
        if v.ty == "ub" and e.attr == "patch_index":
            return V("%s.idx" % v.lean, "nat")
        raise self.err("unsupported attribute %s (of a %s)" % (_d(e), v.ty))

    @staticmethod
    def int_literal(i):
        if isinstance(i, ast.Constant) and isinstance(i.value, int) and not isinstance(i.value, bool):
            return i.value
        if isinstance(i, ast.UnaryOp) and isinstance(i.op, ast.USub) and isinstance(i.operand, ast.Constant) and isinstance(i.operand.value, int):
            return -i.operand.value
        return None

    def subscript(self, e, env):
        v = self.expr(e.value, env)
        k = self.int_literal(e.slice)
        if k is None:
            raise self.err("unsupported subscript %s" % _d(e))
        if v.ty == "mode" and k == 0:
            return V("(modeStr %s).head?" % v.lean, "optchar")
        if v.ty == "strs" and k == 0:
            return V("(pyHead %s)" % v.lean, "str")
        if v.ty == "files":
            t = self.hoist("pyIdx %s (%d)" % (v.lean, k))
            return V(t, "file")
        raise self.err("unsupported subscript %s (of a %s)" % (_d(e), v.ty))

    def fstring(self, e, env):
        parts = []
        for x in e.values:
            if isinstance(x, ast.Constant) and isinstance(x.value, str):
                parts.append(("s", x.value))
            elif isinstance(x, ast.FormattedValue) and x.conversion == -1 and x.format_spec is None:
                parts.append(("e", self.expr(x.value, env)))
            else:
                raise self.err("unsupported f-string part in %s" % _d(e))
        # f"{q.parent}/<rest>": a sibling of q
        if len(parts) >= 2 and parts[0][0] == "e" and parts[0][1].ty == "parentdir" and parts[1][0] == "s" and parts[1][1].startswith("/"):
            rest = [("s", parts[1][1][1:])] + parts[2:]
            rest = [p for p in rest if not (p[0] == "s" and p[1] == "")]
            if any(k == "s" and "/" in x for k, x in rest):
                raise self.err("a path with further directory components: %s" % _d(e))
            for k, x in rest:
                if k == "e" and x.ty not in ("str", "nat"):
                    raise self.err("a %s is pasted into a file name" % x.ty)
            return V(self.as_str(V(None, "tmpl", parts=rest)), "pathtmpl")
        if any(k == "e" and x.ty == "parentdir" for k, x in parts):
            raise self.err("unsupported use of a directory in %s" % _d(e))
        return V(None, "tmpl", parts=parts)

    def pattern_parts(self, v):
        if v.ty == "tmpl":
            return v.parts
        if v.ty == "str" and v.const is not None:
            return [("s", v.const)]
        if v.ty in ("str", "path"):
            return [("e", v)]
        raise self.err("a %s used as a pattern" % v.ty)

    def call(self, e, env):
        f = e.func
        if isinstance(f, ast.Name) and f.id == "Path" and len(e.args) == 1 and not e.keywords:
            v = self.expr(e.args[0], env)
            if v.ty == "path":
                return v
            if v.ty == "str" and v.isfile:
                return V(v.lean, "path")
            if v.ty == "pathtmpl":
                return V(v.lean, "path")
            raise self.err("Path(..) of a %s" % v.ty)
        if isinstance(f, ast.Attribute) and isinstance(f.value, ast.Name) and f.value.id == "re" and "re" not in env:
            if f.attr == "match" and len(e.args) == 2 and not e.keywords:
                pat = self.expr(e.args[0], env)
                subj = self.expr(e.args[1], env)
                if subj.ty not in ("str", "path"):
                    raise self.err("re.match on a %s" % subj.ty)
                return V("(pyReMatch %s %s)" % (regex_to_lean(self.pattern_parts(pat), self.name), subj.lean), "match")
            raise self.err("unsupported call %s" % _d(e))
        if isinstance(f, ast.Attribute) and isinstance(f.value, ast.Name) and f.value.id in env and env[f.value.id].ty in ("cls", "self_files", "self_init"):
            owner = env[f.value.id]
            if f.attr in PURE:
                if f.attr not in AVAILABLE:
                    raise self.err("calls %s, which could not be translated" % f.attr)
                ln, _, _, ptys, rty, raises = PURE[f.attr]
                if e.keywords or len(e.args) != len(ptys) or owner.ty == "self_files" and PURE[f.attr][2] == "self_files":
                    raise self.err("unsupported call %s" % _d(e))
                args = []
                for a, pt in zip(e.args, ptys):
                    v = self.expr(a, env)
                    if pt == "path+":
                        if v.ty != "path":
                            raise self.err("%s called on a %s" % (f.attr, v.ty))
                        args += [self.parent_of(v), v.lean]
                    elif pt == v.ty or (pt == "str" and v.ty == "path"):
                        args.append(v.lean)
                    else:
                        raise self.err("%s called on a %s" % (f.attr, v.ty))
                txt = "(%s %s)" % (ln, " ".join(args))
                if raises:
                    t = self.hoist(txt[1:-1])
                    return V(t, rty)
                return V(txt, rty)
            if f.attr == "_ublock" and owner.ty == "self_files" and len(e.args) == 1 and not e.keywords:
                k = self.int_literal(e.args[0])
                if k is None:
                    raise self.err("unsupported call %s" % _d(e))
                t = self.hoist("pyIdx %s (%d)" % (owner.lean, k))
                return V("%s.2" % t, "ub")
            raise self.err("unsupported call %s" % _d(e))
        if isinstance(f, ast.Attribute) and not e.keywords:
            recv = self.expr(f.value, env)
            if f.attr == "split" and recv.ty == "str" and len(e.args) == 1:
                sep = self.expr(e.args[0], env)
                if sep.ty != "str" or sep.const is None:
                    raise self.err("split on something that is not a string constant: %s" % _d(e))
                if sep.const == "":
                    raise self.err("split on the empty string raises ValueError: %s" % _d(e))
                return V("(pySplit %s %s)" % (recv.lean, sep.lean), "strs")
            if f.attr == "glob" and recv.ty == "dir" and len(e.args) == 1:
                pat = self.expr(e.args[0], env)
                return V("(pyGlob %s %s)" % (recv.lean, glob_to_lean(self.pattern_parts(pat), self.name)), "names")
        raise self.err("unsupported call %s" % _d(e))

    def compare(self, e, env):
        if len(e.ops) != 1:
            raise self.err("chained comparison %s" % _d(e))
        op = e.ops[0]
        a, b = self.expr(e.left, env), self.expr(e.comparators[0], env)
        if isinstance(op, (ast.Is, ast.IsNot)):
            if b.ty != "none":
                raise self.err("`is` with something other than None: %s" % _d(e))
            pos = isinstance(op, ast.IsNot)
            if a.ty == "match":
                return V(a.lean if pos else "(!%s)" % a.lean, "bool")
            if a.ty == "optnames":
                return V("(%s).%s" % (a.lean, "isSome" if pos else "isNone"), "bool")
            if a.ty == "none":
                return V("false" if pos else "true", "bool")
            raise self.err("`is None` on a %s" % a.ty)
        if isinstance(op, (ast.In, ast.NotIn)):
            if b.ty == "strs_const" and a.ty in ("mode", "str"):
                t = "(%s.contains %s)" % (b.lean, self.as_str(a))
                return V(t if isinstance(op, ast.In) else "(!%s)" % t, "bool")
            raise self.err("unsupported membership test %s" % _d(e))
        if isinstance(op, (ast.Eq, ast.NotEq)):
            sym = "==" if isinstance(op, ast.Eq) else "!="
            if a.ty == "optchar" or b.ty == "optchar":
                if b.ty == "optchar":
                    a, b = b, a
                if b.ty != "str" or b.const is None:
                    raise self.err("unsupported comparison %s" % _d(e))
                if len(b.const) != 1:   # a character never equals a longer (or the empty) string
                    return V("false" if sym == "==" else "true", "bool")
                return V("(%s %s some %s)" % (a.lean, sym, lean_char(ord(b.const))), "bool")
            if a.ty in ("str", "mode", "path") and b.ty in ("str", "mode", "path"):
                return V("(%s %s %s)" % (self.as_str(a), sym, self.as_str(b)), "bool")
            if a.ty == b.ty == "nat":
                return V("(%s %s %s)" % (a.lean, sym, b.lean), "bool")
            if a.ty == b.ty == "bool":
                return V("(%s %s %s)" % (a.lean, sym, b.lean), "bool")
            raise self.err("comparison of a %s with a %s: %s" % (a.ty, b.ty, _d(e)))
        if a.ty == b.ty == "nat":
            sym = {ast.Lt: "<", ast.LtE: "≤", ast.Gt: ">", ast.GtE: "≥"}.get(type(op))
            if sym:
                return V("(decide (%s %s %s))" % (a.lean, sym, b.lean), "bool")
        raise self.err("unsupported comparison %s" % _d(e))

    def listcomp(self, e, env):
        if len(e.generators) != 1:
            raise self.err("nested comprehension")
        g = e.generators[0]
        if g.is_async or not isinstance(g.target, ast.Name):
            raise self.err("unsupported comprehension target")
        it = self.expr(g.iter, env)
        if it.ty != "names":
            raise self.err("comprehension over a %s" % it.ty)
        if not (isinstance(e.elt, ast.Name) and e.elt.id == g.target.id):
            raise self.err("a comprehension that maps its elements: %s" % _d(e))
        env2 = dict(env)
        x = "v_" + g.target.id
        env2[g.target.id] = V(x, "path")
        n0 = len(self.hoists)
        conds = [self.truth(self.expr(c, env2)) for c in g.ifs]
        if len(self.hoists) != n0:
            raise self.err("a call that may raise inside a comprehension")
        if not conds:
            return it
        return V("((%s).filter (fun %s => %s))" % (it.lean, x, " && ".join(conds)), "names")

    # ---- statements shared by both modes
    def exc_of(self, s):
        x = s.exc
        if isinstance(x, ast.Call):
            x = x.func
        if isinstance(x, ast.Name) and x.id in EXC and s.cause is None:
            return EXC[x.id]
        raise self.err("unsupported raise: %s" % _d(s))

    def coerce(self, name, v):
        """value stored in a local: variables that hold `None` somewhere are Optional"""
        if name in self.opt_vars:
            if v.ty == "none":
                return V("none", "optnames")
            if v.ty == "names":
                return V("(some %s)" % v.lean, "optnames")
            if v.ty == "optnames":
                return v
            raise self.err("%s holds None somewhere and a %s elsewhere" % (name, v.ty))
        if v.ty == "none":
            raise self.err("None stored in %s" % name)
        return v

    def bind(self, name, v, env, lines, ind):
        """`name = <v>`: emit the let (where there is Lean text) and extend env"""
        v = self.coerce(name, v)
        ln = "v_" + name
        if v.ty in ("tmpl", "parentdir"):
            lines.append("%s-- %s: %s, expanded where it is used" % (ind, name, "a string template" if v.ty == "tmpl" else "a directory"))
            env[name] = v
            return
        if v.ty not in LEAN_TY and v.ty not in ("pathtmpl", "file", "ub", "strs", "mode", "match", "dir"):
            raise self.err("a %s stored in %s" % (v.ty, name))
        if v.ty == "match":
            v = V(v.lean, "match")
        if v.lean != ln:
            asc = " : %s" % LEAN_TY[v.ty] if v.ty == "optnames" else ""
            lines.append("%slet %s%s := %s" % (ind, ln, asc, v.lean))
        env[name] = V(ln, v.ty, const=None, parent=v.parent, isfile=v.isfile)

    @staticmethod
    def assign_parts(s):
        """(target name, value) of `x = e` / `x: T = e`, else None"""
        if isinstance(s, ast.Assign) and len(s.targets) == 1 and isinstance(s.targets[0], ast.Name):
            return s.targets[0].id, s.value
        if isinstance(s, ast.AnnAssign) and isinstance(s.target, ast.Name) and s.value is not None and s.simple:
            return s.target.id, s.value
        return None

    # ------------------------------------------------------------------ pure functions
    def wrap_hoists(self, lines, ind):
        for t, txt in self.hoists:
            lines.append("%smatch %s with" % (ind, txt))
            lines.append("%s| .error e => .error e" % ind)
            lines.append("%s| .ok %s =>" % (ind, t))
        del self.hoists[:]

    def pure_block(self, stmts, env, ind, rty, raises):
        """Lean lines computing the result of running `stmts` (to the end of the function)"""
        lines = []
        stmts = list(stmts)
        while stmts:
            s = stmts.pop(0)
            try:
                if isinstance(s, ast.Return):
                    if s.value is None:
                        raise self.err("bare return")
                    v = self.expr(s.value, env)
                    if self.hoists and not raises:
                        raise self.err("a call that may raise in a function that is not expected to: %s" % _d(s))
                    self.wrap_hoists(lines, ind)
                    lines.append(ind + self.ret(v, rty, raises))
                    return lines
                if isinstance(s, ast.Raise):
                    if not raises:
                        raise self.err("unexpected raise")
                    lines.append("%s.error %s" % (ind, self.exc_of(s)))
                    return lines
                if isinstance(s, ast.If):
                    c = self.truth(self.expr(s.test, env))
                    if self.hoists and not raises:
                        raise self.err("a call that may raise in a function that is not expected to: %s" % _d(s))
                    self.wrap_hoists(lines, ind)
                    a = self.pure_block(list(s.body) + stmts, dict(env), ind + "  ", rty, raises)
                    b = self.pure_block(list(s.orelse) + stmts, dict(env), ind + "  ", rty, raises)
                    lines.append("%sif %s then" % (ind, c))
                    lines += a
                    lines.append("%selse" % ind)
                    lines += b
                    return lines
                ap = self.assign_parts(s)
                if ap:
                    v = self.expr(ap[1], env)
                    if self.hoists and not raises:
                        raise self.err("a call that may raise in a function that is not expected to: %s" % _d(s))
                    self.wrap_hoists(lines, ind)
                    self.bind(ap[0], v, env, lines, ind)
                    continue
                if isinstance(s, ast.Pass):
                    continue
                raise self.err("unsupported statement %s" % _d(s))
            except UnboundLocal as u:
                if self.hoists or not raises:
                    raise self.err("local %s may be unbound here: %s" % (u, _d(s)))
                lines.append("%s.error .unboundLocal" % ind)
                return lines
        raise self.err("control can fall off the end of the function (returns None)")

    def ret(self, v, rty, raises):
        if rty == "bool" and v.ty in ("bool", "match"):
            txt = v.lean
        elif rty == "path" and v.ty == "path":
            txt = v.lean
        elif rty == "str" and v.ty == "str":
            txt = v.lean
        elif rty == "names" and v.ty == "names":
            txt = v.lean
        else:
            raise self.err("returns a %s, the dictionary says %s" % (v.ty, rty))
        return ".ok %s" % txt if raises else txt

    # ------------------------------------------------------------------ __init__
    def eff_hoists(self, lines, ind):
        for t, txt in self.hoists:
            lines.append("%spyCall %s (%s) fun %s =>" % (ind, self.r, txt, t))
        del self.hoists[:]

    def self_call(self, e, env, names):
        """`self.<m>(...)` with m in names -> m"""
        if isinstance(e, ast.Call) and isinstance(e.func, ast.Attribute) and isinstance(e.func.value, ast.Name) \
                and e.func.value.id in env and env[e.func.value.id].ty == "self_init" and e.func.attr in names:
            return e.func.attr
        return None

    def is_update_from(self, s, env, ret):
        """`self.__dict__.update(<ret>.__dict__)`"""
        if not (isinstance(s, ast.Expr) and isinstance(s.value, ast.Call)):
            return False
        c = s.value
        f = c.func
        if not (isinstance(f, ast.Attribute) and f.attr == "update" and isinstance(f.value, ast.Attribute) and f.value.attr == "__dict__"
                and isinstance(f.value.value, ast.Name) and f.value.value.id in env and env[f.value.value.id].ty == "self_init"):
            return False
        if c.keywords or len(c.args) != 1:
            return False
        a = c.args[0]
        return isinstance(a, ast.Attribute) and a.attr == "__dict__" and isinstance(a.value, ast.Name) and a.value.id == ret

    def eff_block(self, stmts, env, ind):
        """Lean lines (a `Res`) for running `stmts` to the end of `__init__` from the Res `self.r`"""
        lines = []
        stmts = list(stmts)
        while stmts:
            s = stmts.pop(0)
            r_here = self.r
            try:
                if isinstance(s, ast.Return):
                    if s.value is not None and not (isinstance(s.value, ast.Constant) and s.value.value is None):
                        raise self.err("__init__ returns a value")
                    lines.append(ind + self.r)
                    return lines
                if isinstance(s, ast.Raise):
                    lines.append("%spyRaise %s %s" % (ind, self.r, self.exc_of(s)))
                    return lines
                if isinstance(s, ast.Pass):
                    continue
                if isinstance(s, ast.Expr) and isinstance(s.value, ast.Call):
                    c = s.value
                    # super().__init__(...)
                    if isinstance(c.func, ast.Attribute) and c.func.attr == "__init__" and isinstance(c.func.value, ast.Call) \
                            and isinstance(c.func.value.func, ast.Name) and c.func.value.func.id == "super":
                        continue
                    if self.self_call(c, env, {"create_patch"}) and not c.args and not c.keywords:
                        r2 = self.fresh("r")
                        lines.append("%spyStep %s pyCreatePatch fun %s =>" % (ind, self.r, r2))
                        self.r = r2
                        continue
                    raise self.err("unsupported statement %s" % _d(s))
                if isinstance(s, ast.If):
                    t = s.test
                    if isinstance(t, ast.Call) and isinstance(t.func, ast.Name) and t.func.id == "isinstance" and len(t.args) == 2 \
                            and isinstance(t.args[0], ast.Name) and isinstance(t.args[1], ast.Name) and t.args[1].id == "list" \
                            and t.args[0].id in env and env[t.args[0].id].ty == "target":
                        x = t.args[0].id
                        tv = env[x]
                        ea, eb = dict(env), dict(env)
                        ea[x] = V("v_" + x, "names")
                        eb[x] = V("v_" + x, "path", parent="DISK")
                        a = self.eff_branch(list(s.body) + stmts, ea, ind + "  ")
                        b = self.eff_branch(list(s.orelse) + stmts, eb, ind + "  ")
                        lines.append("%smatch %s with" % (ind, tv.lean))
                        lines.append("%s| .list v_%s =>" % (ind, x))
                        lines += a
                        lines.append("%s| .name v_%s =>" % (ind, x))
                        lines += b
                        return lines
                    c = self.truth(self.expr(t, env))
                    self.eff_hoists(lines, ind)
                    a = self.eff_branch(list(s.body) + stmts, dict(env), ind + "  ")
                    b = self.eff_branch(list(s.orelse) + stmts, dict(env), ind + "  ")
                    lines.append("%sif %s then" % (ind, c))
                    lines += a
                    lines.append("%selse" % ind)
                    lines += b
                    return lines
                # self._allow_patching = e
                if isinstance(s, ast.Assign) and len(s.targets) == 1 and isinstance(s.targets[0], ast.Attribute) \
                        and isinstance(s.targets[0].value, ast.Name) and s.targets[0].value.id in env \
                        and env[s.targets[0].value.id].ty == "self_init":
                    if s.targets[0].attr != "_allow_patching":
                        raise self.err("assignment to self.%s is not in the dictionary" % s.targets[0].attr)
                    v = self.expr(s.value, env)
                    if v.ty != "bool":
                        raise self.err("_allow_patching set to a %s" % v.ty)
                    self.eff_hoists(lines, ind)
                    r2 = self.fresh("r")
                    lines.append("%slet %s := pySetAllow %s %s" % (ind, r2, self.r, v.lean))
                    self.r = r2
                    continue
                ap = self.assign_parts(s)
                if ap:
                    name, val = ap
                    m = self.self_call(val, env, {"_create", "_open"})
                    if m:
                        if not stmts or not self.is_update_from(stmts[0], env, name):
                            raise self.err("`%s = self.%s(..)` is not followed by `self.__dict__.update(%s.__dict__)`" % (name, m, name))
                        stmts.pop(0)
                        op = self.record_op(m, val, env)
                        self.eff_hoists(lines, ind)
                        r2 = self.fresh("r")
                        lines.append("%spyStep %s %s fun %s =>" % (ind, self.r, op, r2))
                        self.r = r2
                        env.pop(name, None)
                        continue
                    v = self.expr(val, env)
                    self.eff_hoists(lines, ind)
                    self.bind(name, v, env, lines, ind)
                    continue
                raise self.err("unsupported statement %s" % _d(s))
            except UnboundLocal as u:
                if self.hoists:
                    raise self.err("local %s may be unbound after a call that may raise: %s" % (u, _d(s)))
                lines.append("%spyRaise %s .unboundLocal" % (ind, r_here))
                self.r = r_here
                return lines
        lines.append(ind + self.r)
        return lines

    def eff_branch(self, stmts, env, ind):
        saved = self.r
        out = self.eff_block(stmts, env, ind)
        self.r = saved
        return out

    def record_op(self, m, call, env):
        """`self._create(p, truncate=t)` / `self._open(ps, reopen_incomplete_patch=w, **kwargs)`"""
        if len(call.args) != 1:
            raise self.err("unsupported call %s" % _d(call))
        a = self.expr(call.args[0], env)
        kw = {}
        for k in call.keywords:
            if k.arg is None:
                if m == "_open" and isinstance(k.value, ast.Name) and k.value.id in env and env[k.value.id].ty == "kwargs":
                    continue
                raise self.err("unsupported call %s" % _d(call))
            kw[k.arg] = self.expr(k.value, env)
        if m == "_create":
            if a.ty != "path" or set(kw) - {"truncate"}:
                raise self.err("unsupported call %s" % _d(call))
            t = kw.get("truncate", V("false", "bool"))   # default of `_create`
            if t.ty != "bool":
                raise self.err("truncate=<%s>" % t.ty)
            return "(pyCreate mfcls %s %s)" % (a.lean, t.lean)
        if set(kw) - {"reopen_incomplete_patch"}:
            raise self.err("unsupported call %s" % _d(call))
        w = kw.get("reopen_incomplete_patch", V("false", "bool"))   # `kwargs.pop(.., False)` in `_open`
        if w.ty != "bool":
            raise self.err("reopen_incomplete_patch=<%s>" % w.ty)
        if a.ty == "names":
            a = V("(some %s)" % a.lean, "optnames")
        if a.ty != "optnames":
            raise self.err("_open called on a %s" % a.ty)
        return "(pyOpen mfcls %s %s)" % (a.lean, w.lean)


# --------------------------------------------------------------------------- functions
def _locals_of(fn):
    names, opt = set(), set()
    for n in ast.walk(fn):
        tgt = None
        if isinstance(n, ast.Assign):
            for t in n.targets:
                if isinstance(t, ast.Name):
                    tgt = t.id
                    names.add(tgt)
                    if isinstance(n.value, ast.Constant) and n.value.value is None:
                        opt.add(tgt)
        elif isinstance(n, ast.AnnAssign) and isinstance(n.target, ast.Name):
            names.add(n.target.id)
            if n.value is not None and isinstance(n.value, ast.Constant) and n.value.value is None:
                opt.add(n.target.id)
        elif isinstance(n, (ast.For, ast.While, ast.With, ast.Try, ast.Global, ast.Nonlocal, ast.Delete, ast.AugAssign, ast.NamedExpr,
                            ast.Lambda, ast.FunctionDef, ast.ClassDef, ast.Yield, ast.YieldFrom, ast.Await, ast.Import, ast.ImportFrom)) and n is not fn:
            raise TranslateError("%s: unsupported construct %s" % (fn.name, type(n).__name__))
    return names, opt


def _decorators(fn):
    return [d.id if isinstance(d, ast.Name) else getattr(d, "attr", "?") for d in fn.decorator_list]


def _one_def(cls, name):
    fns = [n for n in cls.body if isinstance(n, (ast.FunctionDef, ast.AsyncFunctionDef)) and n.name == name]
    if len(fns) != 1 or not isinstance(fns[0], ast.FunctionDef):
        raise TranslateError("%d definitions of %s" % (len(fns), name))
    return fns[0]


def _plain_params(fn, n):
    a = fn.args
    if a.vararg or a.kwonlyargs or a.posonlyargs or a.defaults or a.kw_defaults or a.kwarg:
        raise TranslateError("%s: unsupported parameter list" % fn.name)
    if len(a.args) != n:
        raise TranslateError("%s: expected %d parameters, found %d" % (fn.name, n, len(a.args)))
    return [x.arg for x in a.args]


def gen_pure(cls, pyname, consts):
    ln, decos, self_ty, ptys, rty, raises = PURE[pyname]
    fn = _one_def(cls, pyname)
    if _decorators(fn) != decos:
        raise TranslateError("%s: decorators %s, expected %s" % (pyname, _decorators(fn), decos))
    names = _plain_params(fn, 1 + len(ptys))
    locals_, opt = _locals_of(fn)
    tr = Tr(pyname, consts, None, locals_ | set(names), opt)
    env, params = {}, []
    if self_ty == "cls":
        env[names[0]] = V(None, "cls")
    else:
        env[names[0]] = V("self_files", "self_files")
        params.append(("self_files", "List (Name × UB)"))
    for n, t in zip(names[1:], ptys):
        if t == "path+":
            env[n] = V("v_" + n, "path", parent="v_%s_parent" % n)
            params += [("v_%s_parent" % n, "List Name"), ("v_" + n, "Name")]
        else:
            env[n] = V("v_" + n, t)
            params.append(("v_" + n, LEAN_TY[t]))
    body = tr.pure_block(strip_doc(list(fn.body)), env, "  ", rty, raises)
    lrty = LEAN_TY[rty]
    if raises:
        lrty = "Except Out (%s)" % lrty
    return "/-- `IH5Record.%s` -/\ndef %s %s : %s :=\n%s\n" % (
        pyname, ln, " ".join("(%s : %s)" % p for p in params), lrty, "\n".join(body))


def gen_init(cls, consts, open_modes, record_tree):
    fn = _one_def(cls, "__init__")
    if _decorators(fn):
        raise TranslateError("__init__ is decorated")
    a = fn.args
    if a.vararg or a.kwonlyargs or a.posonlyargs or len(a.args) != 3 or a.kwarg is None:
        raise TranslateError("__init__: expected (self, record, mode=.., **kwargs)")
    sname, rname, mname = [x.arg for x in a.args]
    if len(a.defaults) > 1:
        raise TranslateError("__init__: unexpected defaults")
    mann = a.args[2].annotation
    if not (isinstance(mann, ast.Name) and mann.id == "OpenMode"):
        raise TranslateError("__init__: `mode` is not annotated OpenMode")
    # OpenMode / OPEN_MODES must be the ones of util/types.py
    imported = set()
    for n in record_tree.body:
        if isinstance(n, ast.ImportFrom) and n.module and n.module.endswith("util.types"):
            imported |= {x.asname or x.name for x in n.names if (x.asname or x.name) == x.name}
    for need in ("OPEN_MODES", "OpenMode"):
        if need not in imported:
            raise TranslateError("record.py does not import %s from ..util.types" % need)
    locals_, opt = _locals_of(fn)
    tr = Tr("__init__", consts, open_modes, locals_ | {sname, rname, mname, a.kwarg.arg}, opt, mode="init")
    env = {sname: V(None, "self_init"), rname: V("v_" + rname, "target"), mname: V("v_" + mname, "mode"),
           a.kwarg.arg: V(None, "kwargs")}
    tr.r = "r0"
    body = tr.eff_block(strip_doc(list(fn.body)), env, "    ")
    return ("/-- `IH5Record.__init__` / `IH5MFRecord.__init__` (the latter inherits it): the mode dispatch -/\n"
            "def init (s0 : State) (mfcls : Bool) (v_%s : Target) (v_%s : Mode) : Res :=\n"
            "  pyCtor s0 (\n    let r0 := pyStart s0\n%s)\n" % (rname, mname, "\n".join(body)))


def class_str_constants(cls):
    out = {}
    for n in cls.body:
        tgt = val = None
        if isinstance(n, ast.Assign) and len(n.targets) == 1 and isinstance(n.targets[0], ast.Name):
            tgt, val = n.targets[0].id, n.value
        elif isinstance(n, ast.AnnAssign) and isinstance(n.target, ast.Name) and n.value is not None:
            tgt, val = n.target.id, n.value
        if tgt and isinstance(val, ast.Constant) and isinstance(val.value, str):
            if tgt in out:
                raise TranslateError("class constant %s is assigned twice" % tgt)
            out[tgt] = val.value
    return out


def open_modes_of(tree):
    lits = None
    modes = None
    for n in tree.body:
        if isinstance(n, ast.Assign) and len(n.targets) == 1 and isinstance(n.targets[0], ast.Name):
            if n.targets[0].id == "OpenMode":
                v = n.value
                if not (isinstance(v, ast.Subscript) and isinstance(v.value, ast.Name) and v.value.id == "Literal"):
                    raise TranslateError("OpenMode is not a Literal[..]")
                elts = v.slice.elts if isinstance(v.slice, ast.Tuple) else [v.slice]
                if not all(isinstance(x, ast.Constant) and isinstance(x.value, str) for x in elts):
                    raise TranslateError("OpenMode: non-string literal")
                lits = [x.value for x in elts]
            if n.targets[0].id == "OPEN_MODES":
                v = n.value
                ok = (isinstance(v, ast.Call) and isinstance(v.func, ast.Name) and v.func.id == "list" and len(v.args) == 1 and not v.keywords
                      and isinstance(v.args[0], ast.Call) and isinstance(v.args[0].func, ast.Name) and v.args[0].func.id == "get_args"
                      and len(v.args[0].args) == 1 and isinstance(v.args[0].args[0], ast.Name) and v.args[0].args[0].id == "OpenMode")
                if ok:
                    modes = "literals"
                elif isinstance(v, (ast.List, ast.Tuple)) and all(isinstance(x, ast.Constant) and isinstance(x.value, str) for x in v.elts):
                    modes = [x.value for x in v.elts]
                else:
                    raise TranslateError("OPEN_MODES is neither list(get_args(OpenMode)) nor a list of strings")
    if lits is None or modes is None:
        raise TranslateError("OpenMode / OPEN_MODES not found in util/types.py")
    if sorted(lits) != sorted(MODE_TABLE):
        raise TranslateError("OpenMode is Literal%s; the dictionary knows exactly %s" % (lits, sorted(MODE_TABLE)))
    return lits if modes == "literals" else modes


def gen_findfilesfns():
    """(Lean text, [messages about what could not be translated]); a function that cannot be translated
    is left out (a comment says why) so that only the bridge theorems about it fail to build"""
    rtree = _src(RECORD)
    cls = find_class(rtree, "IH5Record")
    consts = class_str_constants(cls)
    out, errors = [HEADER], []

    def attempt(what, f):
        try:
            out.append(f())
        except TranslateError as e:
            msg = str(e) if str(e).startswith(what + ":") else "%s: %s" % (what, e)
            errors.append(msg)
            out.append("/-! NOT TRANSLATED %s -/\n" % msg.replace("-/", "- /"))

    def const(k):
        if k not in consts:
            raise TranslateError("class constant %s not found (as a string literal)" % k)
        return "/-- `IH5Record.%s` -/\ndef %s : Str := %s" % (k, CONST_LEAN[k], lean_str(consts[k]))

    for k in ("_ALLOWED_NAME_CHARS", "_PATCH_INFIX", "_FILE_EXT"):
        attempt(k, lambda k=k: const(k))
    open_modes = []

    def modes():
        open_modes.extend(open_modes_of(_src(TYPES)))
        return "/-- `OPEN_MODES` (util/types.py) -/\ndef OPEN_MODES : List Str := [%s]\n" % ", ".join(lean_str(m) for m in open_modes)

    attempt("OPEN_MODES", modes)
    AVAILABLE.clear()

    def pure(name):
        txt = gen_pure(cls, name, consts)
        AVAILABLE.add(name)
        return txt

    for name in ("_is_valid_record_name", "_infer_name", "find_files", "_next_patch_filepath"):
        attempt(name, lambda name=name: pure(name))

    def init():
        if not open_modes:
            raise TranslateError("OpenMode / OPEN_MODES could not be translated")
        return gen_init(cls, consts, open_modes, rtree)

    attempt("__init__", init)
    out.append("end MetadorModel.Gen.FindFilesFns\n")
    return "\n".join(out), errors


def write(lean_mod):
    text, errors = gen_findfilesfns()
    changed = lean_mod.write_if_changed(os.path.join(lean_mod.LEAN, *GEN_REL), text)
    if errors:
        raise TranslateError("; ".join(errors))
    return "Gen/FindFilesFns.lean %s (%d lines; _is_valid_record_name, _infer_name, find_files, _next_patch_filepath, __init__)" % (
        "rewritten" if changed else "unchanged", text.count("\n"))


def write_stub(lean_mod, why):
    """after a failed translation: leave no text of an earlier run (possibly of another tree) behind"""
    text = HEADER + "\n/-! NOT TRANSLATED: %s -/\n\nend MetadorModel.Gen.FindFilesFns\n" % str(why).replace("-/", "- /")
    lean_mod.write_if_changed(os.path.join(lean_mod.LEAN, *GEN_REL), text)


if __name__ == "__main__":
    _t, _e = gen_findfilesfns()
    print(_t)
    for _m in _e:
        print("-- NOT TRANSLATED:", _m)
