"""setup_cmd: translate + build every Lean module and driver used by the registered checks."""
import importlib
import json
import os
import sys

from . import core, lean


def main():
    man = json.load(open(os.path.join(core.VERIF, "MANIFEST.json")))
    mods, drvs = [], []
    for chk in man["checks"]:
        pid = chk["property_id"]
        prop = importlib.import_module("harness.props.%s" % pid.lower())
        if hasattr(prop, "translate"):
            try:
                prop.translate(core.Ctx(pid, "quick", 0))
            except Exception as e:
                print("translate %s failed: %s" % (pid, e))
        L = getattr(prop, "LEAN", {})
        for m in L.get("modules", []):
            if m not in mods:
                mods.append(m)
        for d in L.get("drivers", []):
            if d not in drvs:
                drvs.append(d)
    ok, log, dt = lean.lake_build(drvs + mods)
    print(log[-3000:])
    print("setup: built %d modules and %d drivers in %.0fs: %s" % (len(mods), len(drvs), dt, "ok" if ok else "FAILED"))
    return 0 if ok else 1


if __name__ == "__main__":
    sys.exit(main())
