"""Python-`ast` -> Lean translation of the merge core of `src/metador_core/schema/partial.py` (C14).

`gen_partial_merge()` parses the file of `envshim.REPO` (honours `METADOR_REPO`) and returns the text
of `lean/MetadorModel/Gen/PartialMerge.lean`; `harness/props/c14.py::translate` writes it on every
`./check C14` run. `lean/MetadorModel/Bridge/PartialMerge.lean` (hand-written, re-checked by
`lake build` on every run) proves that the generated functions equal the hand-written model
functions of `Model/Partial.lean` the C14 theorems are about:

    Gen.PartialMerge._update_field  =  Partial.updO  (None shortcut + Partial.merge)    gen_update_field(_merge)
    Gen.PartialMerge.merge_with     =  Partial.mergeWith (field loop Partial.mergeFields) gen_merge_with
    no RecursionError with fuel > nesting depth of the new value                        gen_no_recursion_error

Translated (source lines of the pinned tree; the functions are found by name, not by line number)
-------------------------------------------------------------------------------------------------
    PartialModel._update_field   l. 211-266   the whole cascade: `path or []`, missing values, list
                                              concatenation, set union, nested models (both `issubclass`
                                              tests, `try … merge_with … except ValidationError: pass`),
                                              conflict (`raise ValueError`) / overwrite
    PartialModel.merge_with      l. 268-293   `_path or []`, `self.cast(obj, …)`, `self.copy()`, the field
                                              loop (`.get`, `_update_field`, `__dict__[f] = …`), `return ret`

How: *structurally*, statement by statement; every function becomes a Lean term in the monad
`M = Except PyErr` (a Python exception is `throw`, nothing is idealised away):

    if / elif / else          (if c then … else …); statements after an `if` are continued in every branch
                              that falls through (early `return` needs no flag)
    x = e, x: T = e           (let py_x := e; …) / (e >>= fun py_x => …) when `e` can raise. Every local is
                              prefixed `py_`: renaming-proof, no keyword clash. Names that only feed exception
                              messages (f-strings, `repr`, `str.join`) are dropped together with the message.
    a if c else b             in `return` / assignment position: the same term as the if-statement;
                              elsewhere (if c then a else b) on operands that cannot raise
    a and b, a or b, not a    && || ! on bools. On other operands the *value-returning* Python meaning:
                              `a or b` = (if truthy a then a else b), `a and b` = (if truthy a then b else a),
                              truthiness by type (table below) — `v_new or v_old` drops 0/False/""/[]/set()
    return e                  (pure e); falling off the end = (pure none)
    raise ValueError(msg)     (throw PyErr.valueError)  (TypeError, AttributeError alike; messages dropped)
    try: <block that always returns> except E: <handler>
                              (match <block> with | .ok r => pure r | .error PyErr.<E> => <handler; rest>
                               | .error e => throw e);  E in ValidationError / ValueError (catches
                              ValidationError too: pydantic derives it from ValueError) / TypeError /
                              AttributeError / RecursionError (also as a tuple); `except Exception` / bare: all
    for k, v in self.__partial_fac__._get_field_vals(x): body
                              List.foldlM over the items; loop state = the variables assigned or updated in
                              the body that exist before the loop (no `return`/`break`/`continue` inside)
    x.__dict__[k] = v         x := dictSet x k v — only if `x` was bound by `<expr>.copy()` (a fresh object) and
                              is used for nothing but `.__dict__.get`, `.__dict__[…] =` and `return`; any other
                              in-place update, or an update of an object that may alias an operand, is refused
    call of a translated method   `f fuel recv args…` with keyword arguments placed by name and defaults filled
                              in; extra leading argument `fuel : Nat` = the interpreter's remaining recursion
                              depth (`fuel = 0` raises RecursionError); a receiver other than `self` is
                              checked by `guardModel` (AttributeError on a value without that method)

Value dictionary (fixed; the Lean side is `lean/MetadorModel/Py/PartialPy.lean`)
--------------------------------------------------------------------------------
    a field value or None (v_old, v_new, obj, self, …)   V = Option PVal: none / some (.atom a) / some (.list xs) /
                                                      some (.set xs) / some (.obj cls fields)
    x is None, x is not None                          isNone x, !isNone x
    isinstance(x, list) / (x, set)                    isList x / isSet x   (a tuple of classes = ||)
    isinstance(x, self.__partial_fac__.base_model)    isModel x  (the `.obj` constructor test)
    bool(x) of a value / List[str] / Optional[List[str]] / str / bool
                                                      truthy x (None, 0, False, "", [], set() falsy; models truthy) /
                                                      truthyL / truthyO / x != "" / x
    x + y   on values                                 pyAdd x y: list + list = concatenation, list + other = TypeError
    x + y   on List[str]                              x ++ y
    x.union(y)                                        pyUnion x y: set ∪ set (x first, then the new elements of y);
                                                      non-iterable y = TypeError; other iterables leave the table
    type(x), issubclass(a, b)                         pyType x : PyCls, pyIssubclass a b (model classes: the
                                                      inheritance chains of the model, `Partial.sub`)
    self._to_partial_val(x)                           toPartialVal x: model instance ↦ itself (complete and partial
                                                      instances are one `PVal`), anything else TypeError
    self.cast(x, ignore_invalid=b)                    pyCast self x b: model instance ↦ itself, None / scalar ↦
                                                      ValidationError
    x.copy()                                          pyCopy x (marks the bound name as a fresh object)
    self.__partial_fac__._get_field_vals(x)           fieldVals x: the (name, value) list of the model instance
    x.__dict__.get(k), x.__dict__[k] = v              dictGet x k (AL.get), dictSet x k v (AL.ins; v = None: AL.erase)
    path: List[str] = None; path or []; p + [k]       Option (List String); optOr path []; p ++ [k]
    allow_overwrite: bool = False                     Bool (default filled in at call sites)
    ValueError / TypeError / ValidationError / AttributeError / RecursionError
                                                      PyErr.valueError / … ; the bridge maps them to the model's
                                                      Err.conflict / shape / invalid / shape (PyErr.toErr)

Anything else (other statements, calls, operators, annotations that contradict the table) raises
`TranslateError` with a message naming what was not understood; the check records it as the
undischarged obligation `translate:C14`, a stub without definitions is written and the bridge module
does not build.

NOT translated (tied to the model by the correspondence run / oracle of `harness/props/c14.py` only)
-----------------------------------------------------------------------------------------------------
    * `PartialModel._to_partial_val`, `cast`, `to_partial`, `from_partial`, `val_from_partial`,
      `PartialFactory._get_field_vals` / `get_partial` / `_create_partial` (pydantic validation, class
      creation): the dictionary entries above are *assumptions* about them — in particular "casting a
      related class re-validates to the same field values" and "`.copy()` returns a new object";
    * `PartialModel.merge` (the `reduce` over `merge_with`) and `harvester.harvest`;
    * that `self.copy()` is shallow is harmless only because no translated statement updates a nested
      value in place (`+` and `.union` build new objects; `+=`, `.extend`, `.update`, `.append` are refused);
    * the text of exception messages; Python's recursion limit itself (the theorems assume enough fuel).

Mutation tests (`METADOR_REPO=<scratch worktree> ./check C14 --tier quick`, 2026-09-29)
-----------------------------------------------------------------------------------
    Behaviour-changing edits: all leave the bridge obligations (`build:…Bridge.PartialMerge`,
    `gen_update_field`, `gen_update_field_merge`, `gen_merge_with`, `gen_no_recursion_error`) undischarged
    (=> exit 1); the first three and the seeded ones were run through the whole check (exit 1, failing inputs
    from the oracle), the others through translation + `lake build` of the bridge only: None branch swapped; the same
    `issubclass` direction twice; `allow_overwrite` not passed on by the field loop; `if allow_overwrite`
    negated; `v_new or v_old` (F5 reverted); `v_new + v_old`; `.get` from `obj` instead of `ret`; `and` for `or`
    of the two subclass tests; set case disabled; `old_is_model or new_is_model`.
    Seeded changes: C14-s1 (`not v_old`) and C14-s3 (one `issubclass` direction) translate and break the
    bridge theorems; C14-s2 (`ret = self if _path else self.copy()`) is refused by the translator
    ("updated in place … not a fresh copy and may alias an operand" -> `translate:C14` undischarged);
    C14-s4 changes `PartialFactory.get_partial`, which is not translated (caught by the correspondence).
    Behaviour-preserving edits that stay green: renamed locals and loop variables; comments / docstrings /
    blank lines; reordered independent statements (the two `isinstance` tests, the two `issubclass` tests,
    `copy` / `cast` / `_path or []` in `merge_with`); `a if c else b` <-> if-statement; inlined boolean locals;
    `if not ow: raise …; return v_new` <-> `if ow: return v_new; raise …`; `if` <-> `elif` chain; the result of
    `_update_field` stored without a local and keywords in another order; the None shortcut as two ifs;
    `not (not a or not b)` for `a and b`; list / set cases moved behind the model case; `if not path: path = []`
    for `path = path or []`. (The proofs split on the constructors of both values and let `simp` evaluate the
    generated term, so they do not depend on the shape of the cascade.)
    Known to break the tie although harmless: `except ValueError` for `except ValidationError` (same outcome
    kind — a nested conflict is re-raised by the outer level — but the proof does not know that); a helper
    method or any construct outside the tables (`v_old | v_new`, `match`, augmented assignment, comprehension
    instead of the loop, `ret` built by one `construct` call) -> `TranslateError`.
"""
import ast
import os

from . import envshim  # noqa: F401
from .translate import TranslateError, find_class, strip_doc

SRC = "src/metador_core/schema/partial.py"
CLASS = "PartialModel"
FUNCS = ["_update_field", "merge_with"]
GEN = ("MetadorModel", "Gen", "PartialMerge.lean")

HEADER = """import MetadorModel.Py.PartialPy
/-! GENERATED on every run by harness/translate_c14.py from
    src/metador_core/schema/partial.py (class PartialModel). Do not edit.
    Value dictionary: Py/PartialPy.lean. -/
set_option linter.unusedVariables false
namespace MetadorModel.Gen.PartialMerge
open MetadorModel MetadorModel.Partial MetadorModel.PartialPy
"""

LEAN_TY = {"val": "V", "bool": "Bool", "optstrlist": "Option (List String)", "strlist": "List String",
           "str": "String", "cls": "PyCls", "items": "List (String × PVal)"}
EXC = {"ValueError": "valueError", "TypeError": "typeError", "ValidationError": "validationError",
       "AttributeError": "attributeError", "RecursionError": "recursionError"}
# what an `except <name>` clause catches (pydantic's ValidationError is a subclass of ValueError,
# RecursionError of RuntimeError)
CATCHES = {"ValueError": ["valueError", "validationError"], "TypeError": ["typeError"], "ValidationError": ["validationError"],
           "AttributeError": ["attributeError"], "RecursionError": ["recursionError"], "RuntimeError": ["recursionError"]}
CATCH_ALL = {"Exception", "BaseException"}


def _d(e):
    try:
        return ast.unparse(e).replace("\n", " ")[:90]
    except Exception:  # noqa: BLE001
        return ast.dump(e)[:90]


def _bad(what, node=None):
    where = " (line %d)" % node.lineno if node is not None and hasattr(node, "lineno") else ""
    raise TranslateError(what + where)


def lean_string(s):
    if not all(32 <= ord(c) < 127 and c not in '"\\' for c in s):
        _bad("string constant %r outside the printable ASCII subset" % s)
    return '"%s"' % s


class Var:
    def __init__(self, lean, ty, fresh=False):
        self.lean, self.ty, self.fresh = lean, ty, fresh


class Sig:
    """parameters of a translated method (after `self`): [(name, type, default Lean text or None)]"""

    def __init__(self, fn):
        a = fn.args
        if a.vararg or a.kwarg or a.posonlyargs:
            _bad("%s: *args / **kwargs / positional-only parameters" % fn.name, fn)
        if fn.decorator_list:
            _bad("%s is decorated" % fn.name, fn)
        if not a.args:
            _bad("%s has no self parameter" % fn.name, fn)
        self.name = fn.name
        self.selfname = a.args[0].arg
        pos = a.args[1:]
        pdef = [None] * (len(pos) - len(a.defaults)) + list(a.defaults) if len(a.defaults) <= len(pos) else None
        if pdef is None:
            _bad("%s: default for self" % fn.name, fn)
        self.params = []
        self.npos = len(pos)
        for arg, d in list(zip(pos, pdef)) + list(zip(a.kwonlyargs, a.kw_defaults)):
            self.params.append((arg.arg,) + self._ptype(fn, arg, d))

    @staticmethod
    def _ptype(fn, arg, d):
        ann = arg.annotation
        is_none = isinstance(d, ast.Constant) and d.value is None
        if ann is None:
            if d is not None and not is_none:
                _bad("%s: default of untyped parameter %s is not None" % (fn.name, arg.arg), fn)
            return "val", ("none" if is_none else None)
        txt = ast.unparse(ann).replace("typing.", "").replace(" ", "")
        if txt == "bool":
            if d is None:
                return "bool", None
            if isinstance(d, ast.Constant) and d.value in (True, False) and isinstance(d.value, bool):
                return "bool", "true" if d.value else "false"
            _bad("%s: default of bool parameter %s is not True/False" % (fn.name, arg.arg), fn)
        if txt in ("List[str]", "Optional[List[str]]", "list[str]", "Optional[list[str]]"):
            if d is None and not txt.startswith("Optional"):
                return "strlist", None
            if d is None or is_none:
                return "optstrlist", ("none" if is_none else None)
            _bad("%s: default of path parameter %s is not None" % (fn.name, arg.arg), fn)
        _bad("%s: annotation `%s` of parameter %s is not in the table" % (fn.name, txt, arg.arg), fn)


class Fn:
    def __init__(self, fn, sigs):
        self.fn = fn
        self.sig = sigs[fn.name]
        self.sigs = sigs
        self.n = 0
        self.pending = []       # hoisted computations that may raise: [(lean name, lean term)]
        self.mutated = set()    # python names that are the target of `X.__dict__[k] = v`
        for n in ast.walk(fn):
            if isinstance(n, (ast.Assign, ast.AugAssign, ast.AnnAssign)):
                tg = n.targets if isinstance(n, ast.Assign) else [n.target]
                for t in tg:
                    b = self._dict_store_base(t)
                    if b:
                        self.mutated.add(b)

    # ------------------------------------------------------------------ helpers
    @staticmethod
    def _dict_store_base(t):
        """`X.__dict__[k]` -> 'X'"""
        if (isinstance(t, ast.Subscript) and isinstance(t.value, ast.Attribute) and t.value.attr == "__dict__"
                and isinstance(t.value.value, ast.Name)):
            return t.value.value.id
        return None

    def tmp(self):
        self.n += 1
        return "t%d" % self.n

    def bind(self, term, name=None):
        name = name or self.tmp()
        self.pending.append((name, term))
        return name

    def take(self):
        pend, self.pending = self.pending, []
        return pend

    @staticmethod
    def wrap(pend, body, ind):
        """wrap `body` into the hoisted computations (first one outermost)"""
        for name, term in reversed(pend):
            body = "%s(%s >>= fun %s =>\n%s)" % (ind, term, name, body)
        return body

    def pure_only(self, f, what, node):
        """evaluate a sub-expression that must not raise (operand under short-circuit evaluation)"""
        k = len(self.pending)
        r = f()
        if len(self.pending) != k:
            _bad("%s: an operation that can raise is evaluated conditionally inside an expression: `%s`"
                 % (what, _d(node)), node)
        return r

    def is_self(self, e, env):
        return isinstance(e, ast.Name) and e.id == self.sig.selfname and env.get(e.id) is not None and env[e.id].lean == "py_self"

    @staticmethod
    def coerce(text, ty, want, node):
        if ty == want:
            return text
        if ty == "none" and want in ("val", "optstrlist"):
            return "none"
        if ty == "strlist" and want == "optstrlist":
            return "(some %s)" % text
        if ty == "emptylist" and want == "strlist":
            return "[]"
        if ty == "emptylist" and want == "optstrlist":
            return "(some [])"
        if ty == "emptylist" and want == "val":
            return "(some (PVal.list []))"
        _bad("a %s is used where a %s is expected: `%s`" % (ty, want, _d(node)), node)

    def truth(self, text, ty, node):
        if ty == "bool":
            return text
        if ty == "val":
            return "(truthy %s)" % text
        if ty == "strlist":
            return "(truthyL %s)" % text
        if ty == "optstrlist":
            return "(truthyO %s)" % text
        if ty == "str":
            return '(%s != "")' % text
        if ty == "none":
            return "false"
        if ty == "emptylist":
            return "false"
        _bad("truth value of a %s: `%s`" % (ty, _d(node)), node)

    def cond(self, e, env):
        t, ty = self.expr(e, env)
        return self.truth(t, ty, e)

    @staticmethod
    def unify(a, b, node):
        (ta, ya), (tb, yb) = a, b
        if ya == yb:
            return ta, tb, ya
        for x, y in ((ya, yb), (yb, ya)):
            if x in ("none", "emptylist") and y in ("val", "optstrlist", "strlist"):
                if x == "none" and y == "strlist":
                    y = "optstrlist"
                return Fn.coerce(ta, ya, y, node), Fn.coerce(tb, yb, y, node), y
        if {ya, yb} == {"strlist", "optstrlist"}:
            return Fn.coerce(ta, ya, "optstrlist", node), Fn.coerce(tb, yb, "optstrlist", node), "optstrlist"
        _bad("operands of different kinds (%s, %s): `%s`" % (ya, yb, _d(node)), node)

    # ------------------------------------------------------------------ expressions
    def expr(self, e, env, ctx=None):
        """-> (lean term, type); computations that can raise are hoisted into self.pending"""
        if isinstance(e, ast.Name):
            v = env.get(e.id)
            if v is None:
                _bad("unknown name `%s`" % e.id, e)
            if e.id in self.mutated and ctx not in ("return", "dictrecv"):
                _bad("`%s` is updated in place and used as a value (`%s`): possible aliasing" % (e.id, e.id), e)
            if v.ty == "msg":
                return '""', "msg"
            return v.lean, v.ty
        if isinstance(e, ast.Constant):
            if e.value is None:
                return "none", "none"
            if e.value is True:
                return "true", "bool"
            if e.value is False:
                return "false", "bool"
            if isinstance(e.value, str):
                return lean_string(e.value), "str"
            _bad("constant %r" % (e.value,), e)
        if isinstance(e, ast.List):
            if not e.elts:
                return "[]", "emptylist"
            parts = [self.expr(x, env) for x in e.elts]
            if all(ty == "str" for _, ty in parts):
                return "[%s]" % ", ".join(t for t, _ in parts), "strlist"
            _bad("list display of non-strings: `%s`" % _d(e), e)
        if isinstance(e, ast.JoinedStr):
            for v in e.values:
                if isinstance(v, ast.FormattedValue):
                    if v.format_spec is not None:
                        _bad("format spec in f-string", e)
                    self.pure_only(lambda v=v: self.msg_part(v.value, env), "f-string", v.value)
            return '""', "msg"
        if isinstance(e, ast.Compare):
            return self.compare(e, env)
        if isinstance(e, ast.UnaryOp) and isinstance(e.op, ast.Not):
            return "(!%s)" % self.cond(e.operand, env), "bool"
        if isinstance(e, ast.BoolOp):
            return self.boolop(e, env)
        if isinstance(e, ast.IfExp):
            c = self.cond(e.test, env)
            a = self.pure_only(lambda: self.expr(e.body, env), "conditional expression", e.body)
            b = self.pure_only(lambda: self.expr(e.orelse, env), "conditional expression", e.orelse)
            ta, tb, ty = self.unify(a, b, e)
            return "(if %s then %s else %s)" % (c, ta, tb), ty
        if isinstance(e, ast.BinOp) and isinstance(e.op, ast.Add):
            a = self.expr(e.left, env)
            b = self.expr(e.right, env)
            if a[1] == "val" and b[1] in ("val", "none", "emptylist"):
                return self.bind("pyAdd %s %s" % (a[0], self.coerce(b[0], b[1], "val", e))), "val"
            if a[1] in ("strlist", "emptylist") and b[1] in ("strlist", "emptylist"):
                return "(%s ++ %s)" % (self.coerce(a[0], a[1], "strlist", e), self.coerce(b[0], b[1], "strlist", e)), "strlist"
            _bad("`+` on %s and %s: `%s`" % (a[1], b[1], _d(e)), e)
        if isinstance(e, ast.Call):
            return self.call(e, env)
        _bad("unsupported expression `%s`" % _d(e), e)

    def msg_part(self, e, env):
        """something that only feeds an exception message: must be total and free of effects"""
        if isinstance(e, ast.Call) and isinstance(e.func, ast.Name) and e.func.id in ("repr", "str") and len(e.args) == 1 and not e.keywords:
            return self.msg_part(e.args[0], env)
        if isinstance(e, ast.Name) and e.id in env:
            return
        t, ty = self.expr(e, env)
        if ty not in ("msg", "str", "bool"):
            _bad("`%s` inside an exception message" % _d(e), e)

    def compare(self, e, env):
        if len(e.ops) != 1:
            _bad("chained comparison `%s`" % _d(e), e)
        op, l, r = e.ops[0], e.left, e.comparators[0]
        if isinstance(op, (ast.Is, ast.IsNot)):
            if isinstance(l, ast.Constant) and l.value is None:
                l, r = r, l
            if not (isinstance(r, ast.Constant) and r.value is None):
                _bad("`is` with something other than None: `%s`" % _d(e), e)
            t, ty = self.expr(l, env)
            if ty == "val":
                c = "(isNone %s)" % t
            elif ty == "optstrlist":
                c = "(Option.isNone %s)" % t
            elif ty == "none":
                c = "true"
            elif ty in ("bool", "str", "strlist", "emptylist", "cls"):
                c = "false"
            else:
                _bad("`is None` on a %s" % ty, e)
            return (c if isinstance(op, ast.Is) else "(!%s)" % c), "bool"
        if isinstance(op, (ast.Eq, ast.NotEq)):
            a = self.expr(l, env)
            b = self.expr(r, env)
            if a[1] == b[1] and a[1] in ("bool", "str", "cls", "strlist"):
                return "(%s %s %s)" % (a[0], "==" if isinstance(op, ast.Eq) else "!=", b[0]), "bool"
            _bad("`==` on %s and %s: `%s`" % (a[1], b[1], _d(e)), e)
        _bad("comparison `%s`" % _d(e), e)

    def boolop(self, e, env):
        is_or = isinstance(e.op, ast.Or)
        first = self.expr(e.values[0], env)
        rest = [self.pure_only(lambda v=v: self.expr(v, env), "and/or", v) for v in e.values[1:]]
        parts = [first] + rest
        if all(ty == "bool" for _, ty in parts):
            return "(%s)" % (" || " if is_or else " && ").join(t for t, _ in parts), "bool"
        # value-returning and/or, right-nested
        acc = parts[-1]
        for p in reversed(parts[:-1]):
            if is_or and p[1] == "optstrlist" and acc[1] in ("strlist", "emptylist"):
                acc = ("(optOr %s %s)" % (p[0], self.coerce(acc[0], acc[1], "strlist", e)), "strlist")
                continue
            ta, tb, ty = self.unify(p, acc, e)
            c = self.truth(ta, ty, e)
            acc = ("(if %s then %s else %s)" % ((c, ta, tb) if is_or else (c, tb, ta)), ty)
        return acc

    def class_test(self, x, cls, env, node):
        if isinstance(cls, ast.Tuple):
            if not cls.elts:
                return "false"
            return "(%s)" % " || ".join(self.class_test(x, c, env, node) for c in cls.elts)
        if isinstance(cls, ast.Name) and cls.id == "list":
            return "(isList %s)" % x
        if isinstance(cls, ast.Name) and cls.id == "set":
            return "(isSet %s)" % x
        if (isinstance(cls, ast.Attribute) and cls.attr == "base_model" and isinstance(cls.value, ast.Attribute)
                and cls.value.attr == "__partial_fac__" and self.is_self(cls.value.value, env)):
            return "(isModel %s)" % x
        _bad("isinstance against `%s` is not in the table" % _d(cls), node)

    def call_args(self, e, sig, env):
        """arguments of a call of a translated method, in the order of its parameters"""
        if any(isinstance(a, ast.Starred) for a in e.args) or any(k.arg is None for k in e.keywords):
            _bad("* / ** in a call: `%s`" % _d(e), e)
        if len(e.args) > sig.npos:
            _bad("too many positional arguments: `%s`" % _d(e), e)
        given = {}
        for (name, _, _), a in zip(sig.params, e.args):
            given[name] = a
        names = [p[0] for p in sig.params]
        for k in e.keywords:
            if k.arg not in names or k.arg in given:
                _bad("unexpected keyword `%s` in `%s`" % (k.arg, _d(e)), e)
            given[k.arg] = k.value
        # Python evaluates the arguments in the order they are written
        order = list(e.args) + [k.value for k in e.keywords]
        done = {}
        for a in order:
            done[id(a)] = self.expr(a, env)
        out = []
        for name, ty, dflt in sig.params:
            if name in given:
                t, y = done[id(given[name])]
                out.append(self.coerce(t, y, ty, given[name]))
            elif dflt is not None:
                out.append(dflt)
            else:
                _bad("missing argument `%s` in `%s`" % (name, _d(e)), e)
        return out

    def call(self, e, env):
        f = e.func
        if isinstance(f, ast.Name):
            if e.keywords:
                _bad("keywords in `%s`" % _d(e), e)
            if f.id == "isinstance" and len(e.args) == 2:
                x, ty = self.expr(e.args[0], env)
                if ty != "val":
                    _bad("isinstance on a %s" % ty, e)
                return self.class_test(x, e.args[1], env, e), "bool"
            if f.id == "issubclass" and len(e.args) == 2:
                a = self.expr(e.args[0], env)
                b = self.expr(e.args[1], env)
                if a[1] != "cls" or b[1] != "cls":
                    _bad("issubclass on %s, %s" % (a[1], b[1]), e)
                return "(pyIssubclass %s %s)" % (a[0], b[0]), "bool"
            if f.id == "type" and len(e.args) == 1:
                x, ty = self.expr(e.args[0], env)
                if ty != "val":
                    _bad("type() of a %s" % ty, e)
                return "(pyType %s)" % x, "cls"
            if f.id in ("repr", "str") and len(e.args) == 1:
                self.msg_part(e.args[0], env)
                return '""', "msg"
            _bad("call of `%s` is not in the table" % f.id, e)
        if not isinstance(f, ast.Attribute):
            _bad("call `%s`" % _d(e), e)
        m, recv = f.attr, f.value
        # "sep".join(path)
        if m == "join" and isinstance(recv, ast.Constant) and isinstance(recv.value, str) and len(e.args) == 1 and not e.keywords:
            t, ty = self.expr(e.args[0], env)
            if ty not in ("strlist", "emptylist"):
                _bad("str.join of a %s" % ty, e)
            return '""', "msg"
        # x.__dict__.get(k)
        if m == "get" and isinstance(recv, ast.Attribute) and recv.attr == "__dict__":
            if len(e.args) != 1 or e.keywords:
                _bad("`.get` with a default: `%s`" % _d(e), e)
            x, ty = self.expr(recv.value, env, ctx="dictrecv")
            k, kty = self.expr(e.args[0], env)
            if ty != "val" or kty != "str":
                _bad("`%s`: receiver %s, key %s" % (_d(e), ty, kty), e)
            return self.bind("dictGet %s %s" % (x, k)), "val"
        # self.__partial_fac__._get_field_vals(x)
        if m == "_get_field_vals":
            if not (isinstance(recv, ast.Attribute) and recv.attr == "__partial_fac__" and self.is_self(recv.value, env)
                    and len(e.args) == 1 and not e.keywords):
                _bad("`%s` is not `self.__partial_fac__._get_field_vals(x)`" % _d(e), e)
            x, ty = self.expr(e.args[0], env)
            if ty != "val":
                _bad("_get_field_vals of a %s" % ty, e)
            return self.bind("fieldVals %s" % x), "items"
        if m == "_to_partial_val":
            if not (self.is_self(recv, env) and len(e.args) == 1 and not e.keywords):
                _bad("`%s` is not `self._to_partial_val(x)`" % _d(e), e)
            x, ty = self.expr(e.args[0], env)
            if ty != "val":
                _bad("_to_partial_val of a %s" % ty, e)
            return self.bind("toPartialVal %s" % x), "val"
        if m == "cast":
            if not (self.is_self(recv, env) and len(e.args) == 1 and all(k.arg == "ignore_invalid" for k in e.keywords) and len(e.keywords) <= 1):
                _bad("`%s` is not `self.cast(x, ignore_invalid=…)`" % _d(e), e)
            x, ty = self.expr(e.args[0], env)
            if ty != "val":
                _bad("cast of a %s" % ty, e)
            b = "false"
            if e.keywords:
                b, bty = self.expr(e.keywords[0].value, env)
                if bty != "bool":
                    _bad("ignore_invalid is a %s" % bty, e)
            return self.bind("pyCast py_self %s %s" % (x, b)), "val"
        if m == "copy":
            if e.args or e.keywords:
                _bad("`.copy` with arguments (update= / deep=): `%s`" % _d(e), e)
            x, ty = self.expr(recv, env)
            if ty != "val":
                _bad("copy of a %s" % ty, e)
            return self.bind("pyCopy %s" % x), "val"
        if m == "union":
            if len(e.args) != 1 or e.keywords:
                _bad("`.union` with %d arguments" % len(e.args), e)
            x, ty = self.expr(recv, env)
            y, yty = self.expr(e.args[0], env)
            if ty != "val" or yty not in ("val", "none"):
                _bad("`.union` on %s, %s" % (ty, yty), e)
            return self.bind("pyUnion %s %s" % (x, self.coerce(y, yty, "val", e))), "val"
        if m in self.sigs:
            x, ty = self.expr(recv, env)
            if ty != "val":
                _bad("method `%s` of a %s" % (m, ty), e)
            args = self.call_args(e, self.sigs[m], env)
            if not self.is_self(recv, env):
                self.bind("guardModel %s" % x, "_")
            return self.bind("%s fuel %s %s" % (m, x, " ".join(args))), "val"
        _bad("method call `%s` is not in the table" % _d(e), e)

    # ------------------------------------------------------------------ statements
    @staticmethod
    def always_leaves(body):
        """every path through `body` ends in return / raise"""
        for s in body:
            if isinstance(s, (ast.Return, ast.Raise)):
                return True
            if isinstance(s, ast.If) and s.orelse and Fn.always_leaves(s.body) and Fn.always_leaves(s.orelse):
                return True
            if isinstance(s, ast.Try) and not s.finalbody and not s.orelse and Fn.always_leaves(s.body) \
                    and all(Fn.always_leaves(h.body) for h in s.handlers):
                return True
        return False

    @staticmethod
    def assigned(body):
        out = []

        def add(n):
            if n not in out:
                out.append(n)
        for s in body:
            for n in ast.walk(s):
                if isinstance(n, (ast.Assign, ast.AnnAssign, ast.AugAssign)):
                    for t in (n.targets if isinstance(n, ast.Assign) else [n.target]):
                        b = Fn._dict_store_base(t)
                        if b:
                            add(b)
                        for x in ast.walk(t):
                            if isinstance(x, ast.Name) and isinstance(x.ctx, ast.Store):
                                add(x.id)
                if isinstance(n, (ast.For, ast.comprehension)):
                    for x in ast.walk(n.target):
                        if isinstance(x, ast.Name):
                            add(x.id)
                if isinstance(n, ast.NamedExpr):
                    add(n.target.id)
        return out

    @staticmethod
    def narrow(test, env):
        """what a test on an `Optional[List[str]]` name tells about it: (env if true, env if false).
        `if p:` -> p is a non-empty list; `if p is not None:` -> p is a list."""
        neg = False
        while isinstance(test, ast.UnaryOp) and isinstance(test.op, ast.Not):
            test, neg = test.operand, not neg
        name, how = None, None
        if isinstance(test, ast.Name):
            name, how = test.id, "(optOr %s [])"
        elif (isinstance(test, ast.Compare) and len(test.ops) == 1 and isinstance(test.ops[0], (ast.Is, ast.IsNot))
              and isinstance(test.left, ast.Name) and isinstance(test.comparators[0], ast.Constant) and test.comparators[0].value is None):
            name, how = test.left.id, "(Option.getD %s [])"
            if isinstance(test.ops[0], ast.Is):
                neg = not neg
        v = env.get(name) if name else None
        if v is None or v.ty != "optstrlist":
            return env, env
        env2 = dict(env)
        env2[name] = Var(how % v.lean, "strlist", v.fresh)
        return (env, env2) if neg else (env2, env)

    def block(self, stmts, env, k, ind, in_loop=False):
        """Lean term for a statement list; `k(env)` is the term for falling off its end"""
        if not stmts:
            return k(env)
        s, rest = stmts[0], stmts[1:]
        ind2 = ind + "  "

        def cont(env2):
            return self.block(rest, env2, k, ind2, in_loop)

        if isinstance(s, ast.Pass):
            return self.block(rest, env, k, ind, in_loop)
        if isinstance(s, ast.Expr) and isinstance(s.value, ast.Constant) and isinstance(s.value.value, str):
            return self.block(rest, env, k, ind, in_loop)
        if isinstance(s, ast.Return):
            if in_loop:
                _bad("`return` inside a loop", s)
            if s.value is None:
                return "%s(pure none)" % ind
            if isinstance(s.value, ast.IfExp):
                v = s.value
                return self.block([ast.If(test=v.test, body=[ast.Return(value=v.body, lineno=s.lineno)],
                                          orelse=[ast.Return(value=v.orelse, lineno=s.lineno)], lineno=s.lineno)], env, k, ind, in_loop)
            t, ty = self.expr(s.value, env, ctx="return")
            t = self.coerce(t, ty, "val", s.value)
            pend = self.take()
            return self.wrap(pend, "%s(pure %s)" % (ind2 if pend else ind, t), ind)
        if isinstance(s, ast.Raise):
            if s.cause is not None and not (isinstance(s.cause, ast.Constant) and s.cause.value is None):
                _bad("raise … from …", s)
            x = s.exc
            if isinstance(x, ast.Call) and isinstance(x.func, ast.Name) and x.func.id in EXC and not x.keywords:
                for a in x.args:
                    self.pure_only(lambda a=a: self.msg_part(a, env), "exception message", a)
                return "%s(throw PyErr.%s)" % (ind, EXC[x.func.id])
            if isinstance(x, ast.Name) and x.id in EXC:
                return "%s(throw PyErr.%s)" % (ind, EXC[x.id])
            _bad("raise of `%s`" % (_d(x) if x else "<re-raise>"), s)
        if isinstance(s, (ast.Assign, ast.AnnAssign)):
            if isinstance(s, ast.Assign):
                if len(s.targets) != 1:
                    _bad("chained assignment", s)
                target, value = s.targets[0], s.value
            else:
                target, value = s.target, s.value
                if value is None:
                    return self.block(rest, env, k, ind, in_loop)
            base = self._dict_store_base(target)
            if base:
                v = env.get(base)
                if v is None or v.ty != "val":
                    _bad("`%s`: unknown object" % _d(target), s)
                if not v.fresh:
                    _bad("`%s = …` updates `%s` in place, which is not a fresh copy (`<x>.copy()`) and may alias an operand"
                         % (_d(target), base), s)
                kt, kty = self.expr(target.slice, env)
                vt, vty = self.expr(value, env)
                if kty != "str":
                    _bad("key of `%s` is a %s" % (_d(target), kty), s)
                vt = self.coerce(vt, vty, "val", value)
                self.bind("dictSet %s %s %s" % (v.lean, kt, vt), v.lean)
                pend = self.take()
                return self.wrap(pend, cont(env), ind)
            if not isinstance(target, ast.Name):
                _bad("assignment to `%s`" % _d(target), s)
            if isinstance(value, ast.IfExp):
                mk = (lambda x: ast.Assign(targets=[target], value=x, lineno=s.lineno))
                return self.block([ast.If(test=value.test, body=[mk(value.body)], orelse=[mk(value.orelse)], lineno=s.lineno)] + rest,
                                  env, k, ind, in_loop)
            name = target.id
            if name in self.mutated and not (isinstance(value, ast.Call) and isinstance(value.func, ast.Attribute) and value.func.attr == "copy"):
                _bad("`%s` is updated in place (`%s.__dict__[…] = …`) but is bound to `%s`, which is not a fresh copy and may "
                     "alias an operand" % (name, name, _d(value)), s)
            t, ty = self.expr(value, env)
            if ty == "none":
                ty = "val"
            if ty == "emptylist":
                t, ty = "[]", "strlist"
            fresh = isinstance(value, ast.Call) and isinstance(value.func, ast.Attribute) and value.func.attr == "copy"
            env2 = dict(env)
            lean = "py_" + name
            env2[name] = Var(lean, ty, fresh)
            if self.pending and self.pending[-1][0] == t and t not in [v.lean for v in env.values()]:
                self.pending[-1] = (lean, self.pending[-1][1])   # `x = <call>`: bind the result to x directly
                t = None
            pend = self.take()
            i0 = ind2 if pend else ind
            if ty == "msg" or t is None:
                body = self.block(rest, env2, k, i0, in_loop)
            else:
                body = "%s(let %s := %s;\n%s)" % (i0, lean, t, self.block(rest, env2, k, i0 + "  ", in_loop))
            return self.wrap(pend, body, ind)
        if isinstance(s, ast.If):
            c = self.cond(s.test, env)
            pend = self.take()
            i0 = ind2 if pend else ind
            i1 = i0 + "  "
            env_t, env_f = self.narrow(s.test, env)
            thn = self.block(s.body + rest, env_t, k, i1, in_loop) if not self.always_leaves(s.body) else self.block(s.body, env_t, k, i1, in_loop)
            els = self.block(list(s.orelse) + rest, env_f, k, i1, in_loop)
            body = "%s(if %s then\n%s\n%selse\n%s)" % (i0, c, thn, i0, els)
            return self.wrap(pend, body, ind)
        if isinstance(s, ast.Try):
            if s.finalbody or s.orelse:
                _bad("try with else / finally", s)
            if in_loop:
                _bad("try inside a loop", s)
            if not self.always_leaves(s.body):
                _bad("the body of `try` does not end in return / raise on every path", s)
            body = self.block(s.body, env, lambda e: _bad("unreachable"), ind2 + "  ", in_loop)
            arms, catch_all = [], False
            for h in s.handlers:
                if h.name is not None:
                    _bad("`except … as %s`" % h.name, h)
                names = [h.type] if h.type is not None and not isinstance(h.type, ast.Tuple) else (h.type.elts if h.type is not None else [])
                hb = self.block(list(h.body) + rest, env, k, ind2 + "  ", in_loop)
                if h.type is None or any(isinstance(n, ast.Name) and n.id in CATCH_ALL for n in names):
                    arms.append("%s| .error _ =>\n%s" % (ind2, hb))
                    catch_all = True
                    break
                for n in names:
                    if not (isinstance(n, ast.Name) and n.id in CATCHES):
                        _bad("except `%s` is not in the table" % _d(n), h)
                    for exc in CATCHES[n.id]:
                        pat = "%s| .error PyErr.%s =>\n%s" % (ind2, exc, hb)
                        if not any(a.split("=>")[0] == pat.split("=>")[0] for a in arms):
                            arms.append(pat)
            if not catch_all:
                arms.append("%s| .error e => (throw e)" % ind2)
            return "%s(match (\n%s : M V) with\n%s| .ok r => (pure r)\n%s)" % (ind, body, ind2, "\n".join(arms))
        if isinstance(s, ast.For):
            return self.loop(s, rest, env, k, ind, in_loop)
        _bad("unsupported statement `%s`" % _d(s), s)

    def loop(self, s, rest, env, k, ind, in_loop):
        if in_loop:
            _bad("nested loop", s)
        if s.orelse:
            _bad("for … else", s)
        tg = s.target
        if not (isinstance(tg, ast.Tuple) and len(tg.elts) == 2 and all(isinstance(x, ast.Name) for x in tg.elts)):
            _bad("loop target `%s` is not `name, value`" % _d(tg), s)
        for n in ast.walk(s):
            if isinstance(n, (ast.Break, ast.Continue, ast.While)) or (isinstance(n, ast.For) and n is not s):
                _bad("break / continue / nested loop in a loop", n)
        items, ity = self.expr(s.iter, env)
        if ity != "items":
            _bad("loop over `%s` (a %s) is not in the table" % (_d(s.iter), ity), s)
        pend = self.take()
        kname, vname = tg.elts[0].id, tg.elts[1].id
        carried = [n for n in self.assigned(s.body) if n in env and n not in (kname, vname)]
        for n in (kname, vname):
            if n in self.assigned(s.body):
                _bad("loop variable `%s` is re-bound in the loop" % n, s)
        ind2, ind3 = ind + "  ", ind + "    "
        benv = dict(env)
        benv[kname] = Var("py_" + kname, "str")
        benv[vname] = Var("py_" + vname, "val")
        cv = [env[n] for n in carried]
        if len(cv) == 0:
            st_ty, st_pat, st_val = "Unit", "_", (lambda e: "()")
            unpack = ""
        elif len(cv) == 1:
            st_ty, st_pat = LEAN_TY[cv[0].ty], cv[0].lean
            st_val = (lambda e: e[carried[0]].lean)
            unpack = ""
        else:
            st_ty = " × ".join(LEAN_TY[v.ty] for v in cv)
            st_pat = "st"
            st_val = (lambda e: "(%s)" % ", ".join(e[n].lean for n in carried))
            unpack = "".join("let %s := st%s%s; " % (v.lean, ".2" * i, ".1" if i < len(cv) - 1 else "") for i, v in enumerate(cv))

        def kend(e):
            for n, v in zip(carried, cv):
                if e[n].ty != v.ty:
                    _bad("`%s` changes its kind in the loop (%s -> %s)" % (n, v.ty, e[n].ty), s)
                if e[n].fresh != v.fresh:
                    _bad("`%s` is re-bound in the loop to something that is not a fresh copy" % n, s)
            return "%s(pure %s)" % (ind3 + "  ", st_val(e))
        body = self.block(list(s.body), benv, kend, ind3, in_loop=True)
        head = "%s(List.foldlM (fun (%s : %s) (it : String × PVal) =>\n%s%slet py_%s := it.1; let py_%s := some it.2;\n%s)\n%s%s %s >>= fun %s =>\n" % (
            ind2 if pend else ind, st_pat, st_ty, ind3, unpack, kname, vname, body, ind3, st_val(env), items, st_pat)
        after = (ind3 + "(" + unpack.rstrip() + "\n" if unpack else "")
        tail = self.block(rest, env, k, ind3, in_loop)
        term = head + after + tail + (")" if unpack else "") + ")"
        return self.wrap(pend, term, ind)

    # ------------------------------------------------------------------ whole function
    def translate(self):
        fn, sig = self.fn, self.sig
        env = {sig.selfname: Var("py_self", "val")}
        for name, ty, _ in sig.params:
            env[name] = Var("py_" + name, ty)
        body = self.block(strip_doc(list(fn.body)), env, lambda e: "      (pure none)", "    ")
        if self.pending:
            _bad("internal: pending computations left in %s" % fn.name)
        tys = " → ".join(["Nat", "V"] + [LEAN_TY[ty] for _, ty, _ in sig.params] + ["M V"])
        wild = ", ".join(["0", "_"] + ["_"] * len(sig.params))
        pats = ", ".join(["fuel + 1", "py_self"] + ["py_" + n for n, _, _ in sig.params])
        doc = "/-- `%s.%s` (%s l. %d-%d); parameters after `self`: %s -/" % (
            CLASS, fn.name, SRC, fn.lineno, fn.end_lineno,
            ", ".join("%s%s" % (n, "=" + d if d else "") for n, _, d in sig.params))
        return "%s\ndef %s : %s\n  | %s => throw PyErr.recursionError\n  | %s =>\n%s" % (doc, fn.name, tys, wild, pats, body)


def gen_partial_merge():
    """-> (text of Gen/PartialMerge.lean, info string)"""
    path = os.path.join(envshim.REPO, SRC)
    try:
        tree = ast.parse(open(path).read(), filename=path)
    except (OSError, SyntaxError) as e:
        raise TranslateError("cannot parse %s: %s" % (SRC, e))
    cls = find_class(tree, CLASS)
    fns = {}
    for name in FUNCS:
        found = [n for n in cls.body if isinstance(n, (ast.FunctionDef, ast.AsyncFunctionDef)) and n.name == name]
        if len(found) != 1 or not isinstance(found[0], ast.FunctionDef):
            raise TranslateError("%d definitions of %s.%s" % (len(found), CLASS, name))
        fns[name] = found[0]
    for n in ast.walk(cls):
        if isinstance(n, (ast.Global, ast.Nonlocal)):
            raise TranslateError("global / nonlocal in %s" % CLASS)
    # the helper methods the dictionary has an entry for must still take the arguments the entry assumes
    helpers = {"cast": (["cls", "obj"], ["ignore_invalid"]), "_to_partial_val": (["self", "val"], [])}
    for h, (pos, kwo) in helpers.items():
        hs = [n for n in cls.body if isinstance(n, ast.FunctionDef) and n.name == h]
        if len(hs) != 1:
            raise TranslateError("%d definitions of %s.%s" % (len(hs), CLASS, h))
        a = hs[0].args
        if len(a.args) != len(pos) or [x.arg for x in a.kwonlyargs] != kwo or a.vararg or a.kwarg:
            raise TranslateError("%s.%s no longer takes (%s; %s)" % (CLASS, h, ", ".join(pos), ", ".join(kwo)))
    sigs = {name: Sig(fn) for name, fn in fns.items()}
    defs = [Fn(fns[name], sigs).translate() for name in FUNCS]
    text = HEADER + "\nmutual\n" + "\n".join(defs) + "\nend\n\nend MetadorModel.Gen.PartialMerge\n"
    info = ", ".join("%s l.%d-%d" % (n, fns[n].lineno, fns[n].end_lineno) for n in FUNCS)
    return text, info


def write(lean_mod):
    """regenerate Gen/PartialMerge.lean; returns an info string"""
    text, info = gen_partial_merge()
    changed = lean_mod.write_if_changed(os.path.join(lean_mod.LEAN, *GEN), text)
    return "Gen/PartialMerge.lean %s (%d lines): %s" % ("rewritten" if changed else "unchanged", text.count("\n"), info)


def write_stub(lean_mod, why):
    """what is written when the source is not understood: no definitions, so that the bridge cannot build
    (and no text of an earlier run, possibly of another tree, stays behind)"""
    text = HEADER + "\n/-! NOT TRANSLATED: %s -/\n\nend MetadorModel.Gen.PartialMerge\n" % why.replace("-/", "- /")
    lean_mod.write_if_changed(os.path.join(lean_mod.LEAN, *GEN), text)


if __name__ == "__main__":
    print(gen_partial_merge()[0])
