"""Lean side: build (lake, serialised by a file lock), audit (grep + #print axioms), drivers."""
import fcntl
import os
import re
import subprocess
import time

HERE = os.path.dirname(os.path.abspath(__file__))
VERIF = os.path.dirname(HERE)
LEAN = os.path.join(VERIF, "lean")
LOCK = os.path.join(LEAN, ".build.lock")
ALLOWED_AXIOMS = {"propext", "Classical.choice", "Quot.sound"}
FORBIDDEN = re.compile(
    r"\bsorry\b|\badmit\b|^\s*axiom\s|native_decide|bv_decide|implemented_by|\bunsafe\s|maxHeartbeats\s+0\b"
)


class InfraError(Exception):
    pass


class _Lock:
    def __enter__(self):
        self.f = open(LOCK, "w")
        fcntl.flock(self.f, fcntl.LOCK_EX)
        return self

    def __exit__(self, *a):
        fcntl.flock(self.f, fcntl.LOCK_UN)
        self.f.close()


def write_if_changed(path, text):
    os.makedirs(os.path.dirname(path), exist_ok=True)
    try:
        if open(path).read() == text:
            return False
    except FileNotFoundError:
        pass
    with open(path, "w") as f:
        f.write(text)
    return True


def lake_build(targets, timeout=3000):
    """Build the given lake targets. Returns (ok, log)."""
    with _Lock():
        t0 = time.time()
        try:
            p = subprocess.run(
                ["lake", "build"] + list(targets),
                cwd=LEAN,
                stdout=subprocess.PIPE,
                stderr=subprocess.STDOUT,
                timeout=timeout,
                text=True,
            )
        except subprocess.TimeoutExpired:
            raise InfraError("lake build timed out: %s" % (targets,))
        return p.returncode == 0, p.stdout, time.time() - t0


def build_each(modules):
    """Build modules one by one so that a failure is attributed. Returns {module: (ok, log)}."""
    res = {}
    ok, log, _ = lake_build(modules)
    if ok:
        return {m: (True, "") for m in modules}
    for m in modules:
        ok, log, _ = lake_build([m])
        res[m] = (ok, "" if ok else _errors_only(log))
    return res


def _errors_only(log):
    keep = []
    on = False
    for line in log.splitlines():
        if line.startswith("error:") or "error:" in line[:40]:
            on = True
        elif line.startswith(("warning:", "✔", "⚠", "info:", "trace:")):
            on = False
        if on:
            keep.append(line)
    return "\n".join(keep)[-6000:]


def module_path(module):
    return os.path.join(LEAN, *module.split(".")) + ".lean"


def strip_comments(src):
    # remove /- ... -/ (nested) and -- comments
    out = []
    i = 0
    depth = 0
    n = len(src)
    while i < n:
        if src.startswith("/-", i):
            depth += 1
            i += 2
        elif depth and src.startswith("-/", i):
            depth -= 1
            i += 2
        elif depth:
            if src[i] == "\n":
                out.append("\n")
            i += 1
        elif src.startswith("--", i):
            while i < n and src[i] != "\n":
                i += 1
        else:
            out.append(src[i])
            i += 1
    return "".join(out)


def grep_forbidden(modules):
    """Search the sources of the given modules *and everything of ours they import* for
    forbidden constructs outside comments. Returns list of 'file:line: text'."""
    seen = set()
    todo = list(modules)
    hits = []
    while todo:
        m = todo.pop()
        if m in seen or not (m.startswith("MetadorModel") or m.startswith("Drv")):
            continue
        seen.add(m)
        path = module_path(m)
        if not os.path.exists(path):
            continue
        src = open(path).read()
        for imp in re.findall(r"^import\s+([\w.]+)", src, re.M):
            todo.append(imp)
        code = strip_comments(src)
        for ln, line in enumerate(code.splitlines(), 1):
            if FORBIDDEN.search(line):
                hits.append("%s:%d: %s" % (os.path.relpath(path, VERIF), ln, line.strip()[:120]))
    return hits, sorted(seen)


def print_axioms(imports, theorems, tag):
    """Run `#print axioms` for each theorem. Returns {theorem: set(axioms) | None (unknown)}."""
    lines = ["import %s" % m for m in imports]
    for t in theorems:
        lines.append("#print axioms %s" % t)
    path = os.path.join(LEAN, "Audit_%s_%d.lean" % (tag, os.getpid()))  # per process: concurrent checks of one property
    with open(path, "w") as f:
        f.write("\n".join(lines) + "\n")
    try:
        with _Lock():
            p = subprocess.run(
                ["lake", "env", "lean", path],
                cwd=LEAN,
                stdout=subprocess.PIPE,
                stderr=subprocess.STDOUT,
                text=True,
                timeout=1800,
            )
    finally:
        try:
            os.remove(path)
        except OSError:
            pass
    out = p.stdout
    res = {t: None for t in theorems}
    # messages: "'X' depends on axioms: [a, b]" (may span lines) or "'X' does not depend on any axioms"
    flat = re.sub(r"\s+", " ", out)
    for t in theorems:
        m = re.search(r"'%s' depends on axioms: \[([^\]]*)\]" % re.escape(t), flat)
        if m:
            res[t] = set(a.strip() for a in m.group(1).split(",") if a.strip())
            continue
        if re.search(r"'%s' does not depend on any axioms" % re.escape(t), flat):
            res[t] = set()
    return res, out


def driver_path(name):
    return os.path.join(LEAN, ".lake", "build", "bin", name)


def run_driver(name, cases_lines, timeout=1800):
    """cases_lines: list of list of str. Returns list of list of str (outputs per case)."""
    exe = driver_path(name)
    if not os.path.exists(exe):
        ok, log, _ = lake_build([name])
        if not ok:
            raise InfraError("cannot build driver %s:\n%s" % (name, log[-3000:]))
    buf = []
    for lines in cases_lines:
        buf.append("#case")
        for l in lines:
            if "\n" in l:
                raise InfraError("newline in driver line")
            buf.append(l)
    data = "\n".join(buf) + "\n"
    p = subprocess.run([exe], input=data, stdout=subprocess.PIPE, stderr=subprocess.PIPE, text=True, timeout=timeout)
    if p.returncode != 0:
        raise InfraError("driver %s failed: %s" % (name, p.stderr[-2000:]))
    out = p.stdout.split("\n")
    if out and out[-1] == "":
        out.pop()
    res = []
    pos = 0
    for lines in cases_lines:
        if pos >= len(out) or out[pos] != "#case":
            raise InfraError("driver %s: protocol desync at output line %d" % (name, pos))
        pos += 1
        res.append(out[pos : pos + len(lines)])
        pos += len(lines)
    if pos != len(out):
        raise InfraError("driver %s: %d surplus output lines" % (name, len(out) - pos))
    return res
