"""Worker pool: run `module.func(case)` on the real code in child processes.

Every case has a time limit measured in **CPU time of the child** (utime+stime from
/proc/<pid>/stat), so that a loaded machine cannot turn a slow case into a "does not
terminate" verdict; a generous wall-clock limit (15 x limit + 120 s) additionally catches a
child that blocks without computing. A child that exceeds a limit is killed and the case is
reported as {"timeout": True} (the caller decides whether that is a violation, e.g. a
non-terminating operation; `core.Ctx.correspond` first re-runs such a case alone with three
times the limit). Crashes of the child (segfault inside HDF5, ...) are reported
as {"crash": ...}.
"""
import json
import os
import select
import subprocess
import sys
import time

HERE = os.path.dirname(os.path.abspath(__file__))
VERIF = os.path.dirname(HERE)
PY = os.environ.get("METADOR_PY", "/venv/bin/python")
_TICK = float(os.sysconf("SC_CLK_TCK"))


def _cpu(pid):
    """CPU seconds (user+system, all threads) consumed so far by process `pid`; None if unknown."""
    try:
        with open("/proc/%d/stat" % pid, "rb") as f:
            rest = f.read().rsplit(b")", 1)[1].split()
        return (int(rest[11]) + int(rest[12])) / _TICK
    except Exception:
        return None


class _Child:
    def __init__(self, module, func):
        env = dict(os.environ)
        env["PYTHONPATH"] = VERIF + os.pathsep + env.get("PYTHONPATH", "")
        env.setdefault("METADOR_CORE_VERIF", "1")
        env["PYTHONHASHSEED"] = "0"
        self.p = subprocess.Popen(
            [PY, "-u", "-m", "harness.worker", module, func],
            stdin=subprocess.PIPE,
            stdout=subprocess.PIPE,
            stderr=subprocess.DEVNULL,
            env=env,
            cwd=VERIF,
        )
        self.busy = None  # (index, hard wall-clock deadline)
        self.cpu0 = 0.0
        self.cpu_limit = 0.0
        self.buf = b""

    def send(self, idx, case, timeout):
        self.p.stdin.write((json.dumps(case) + "\n").encode())
        self.p.stdin.flush()
        self.cpu0 = _cpu(self.p.pid) or 0.0
        self.cpu_limit = timeout
        self.busy = (idx, time.time() + 15.0 * timeout + 120.0)

    def expired(self, now):
        """the running case used more CPU time than its limit, or blew the wall-clock backstop"""
        if now > self.busy[1]:
            return True
        c = _cpu(self.p.pid)
        if c is None:  # no /proc: fall back to wall clock = limit
            return now > self.busy[1] - 14.0 * self.cpu_limit - 120.0
        return c - self.cpu0 > self.cpu_limit

    def kill(self):
        try:
            self.p.kill()
            self.p.wait(timeout=5)
        except Exception:
            pass


def run(module, func, cases, timeout=30.0, workers=None, startup=120.0):
    """Return a list of results (same order as cases)."""
    n = len(cases)
    if n == 0:
        return []
    workers = workers or min(int(os.environ.get("VERIF_WORKERS", "14")), max(1, n // 4 + 1))
    results = [None] * n
    nxt = 0
    children = [_Child(module, func) for _ in range(min(workers, n))]
    first = {id(c): True for c in children}
    try:
        while any(r is None for r in results):
            # dispatch
            for i, c in enumerate(children):
                if c.busy is None and nxt < n:
                    extra = startup if first.pop(id(c), False) else 0.0
                    c.send(nxt, cases[nxt], timeout + extra)
                    nxt += 1
            busy = [c for c in children if c.busy is not None]
            if not busy:
                break
            rl, _, _ = select.select([c.p.stdout for c in busy], [], [], 0.5)
            now = time.time()
            for i, c in enumerate(children):
                if c.busy is None:
                    continue
                idx, deadline = c.busy
                if c.p.stdout in rl:
                    chunk = os.read(c.p.stdout.fileno(), 1 << 20)
                    if not chunk:  # child died
                        results[idx] = {"crash": "worker exited with %s" % c.p.poll()}
                        c.kill()
                        children[i] = _Child(module, func)
                        first[id(children[i])] = True
                        continue
                    c.buf += chunk
                    if b"\n" in c.buf:
                        line, c.buf = c.buf.split(b"\n", 1)
                        try:
                            results[idx] = json.loads(line)
                        except Exception as e:  # pragma: no cover
                            results[idx] = {"crash": "bad worker output: %r" % (e,)}
                        c.busy = None
                elif c.expired(now):
                    results[idx] = {"timeout": True}
                    c.kill()
                    children[i] = _Child(module, func)
                    first[id(children[i])] = True
    finally:
        for c in children:
            try:
                c.p.stdin.close()
            except Exception:
                pass
            c.kill()
    return results


def run_one(module, func, case, timeout=30.0):
    return run(module, func, [case], timeout=timeout, workers=1)[0]


class Session:
    """One persistent worker for sequential calls (shrinking, replays): avoids paying the
    import time of the real code for every call. A timed-out call kills and restarts it."""

    def __init__(self, module, func):
        self.module, self.func = module, func
        self.c = None

    def call(self, case, timeout=30.0, startup=120.0):
        fresh = self.c is None
        if fresh:
            self.c = _Child(self.module, self.func)
        c = self.c
        c.send(0, case, timeout + (startup if fresh else 0.0))
        while True:
            if c.expired(time.time()):
                c.kill()
                self.c = None
                return {"timeout": True}
            rl, _, _ = select.select([c.p.stdout], [], [], 0.5)
            if rl:
                chunk = os.read(c.p.stdout.fileno(), 1 << 20)
                if not chunk:
                    code = c.p.poll()
                    c.kill()
                    self.c = None
                    return {"crash": "worker exited with %s" % code}
                c.buf += chunk
                if b"\n" in c.buf:
                    line, c.buf = c.buf.split(b"\n", 1)
                    c.busy = None
                    return json.loads(line)

    def close(self):
        if self.c is not None:
            try:
                self.c.p.stdin.close()
            except Exception:
                pass
            self.c.kill()
            self.c = None

    def __enter__(self):
        return self

    def __exit__(self, *a):
        self.close()
