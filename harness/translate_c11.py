"""Python-AST -> Lean translator for the patch life cycle (property C11): order of file-system effects.

Regenerates `lean/MetadorModel/Gen/PatchSteps.lean` from the current source on every `./check C11` run
(`write(lean)`, called by `translate(ctx)` in `harness/props/c11.py`). Each translated method becomes a `do` block of
the world monad `PatchM` (Py/PatchPy.lean): it runs on the Python record object that stands for a state of the record
model (`Model/Record.lean`), changes that object and the model's disk, and **logs every file-system action it
performs, in program order** (`World.trace : List (Act Name UB)`: `create f n`, `h5close f rw`, `writeUB f ub`,
`reopen f rw`, `hashPayload f n`, `writeManifest f u b`, `unlink f`). The bridge theorems, re-checked by `lake build`
on every run, say

  Gen.<method> (World.ofState s) = <hand-written step sequence> s          (Bridge/PatchSteps{,Create,Discard,Commit,Close}.lean)
  resOf s (<step sequence> s)    = Record.<operation> s                    (Bridge/PatchStepsModel.lean, nothing generated)
  every crash state of create ++ writes ++ commit steps is a `Crash.Reach` state   (Bridge/PatchStepsCrash.lean, nothing generated)
  Gen.Bytes.IH5UserBlock.save = UBlock.saveUB, its writes are one contiguous in-place write of `frame`   (Bridge/PatchStepsSave.lean)

so that the theorems of Props/C11 (about `Crash.Reach`) and of C02/C03 (about `createPatch`, `commitPatch`, …) transfer
to what the source says now. In particular the ORDER of effects is read off the source: create with mode `x` and 1024
reserved bytes, close, first user-block write, reopen `r+` (`createTrace`); close, hash from offset 1024, user-block
write carrying the hash as the LAST write to the container, reopen `r` (`commitTrace`); the manifest sidecar only after
that; nothing else. A reordering, a dropped or an additional effect, a changed guard or constant changes the generated
text and breaks the `gen_*` theorem of that method (one bridge module per method, so the replay names it).

Translated (source lines of the pinned tree; found by name, not by line number)
  src/metador_core/ih5/record.py
      `USER_BLOCK_SIZE`, `FORMAT_MAGIC_STR`                                   (l. 32, 35)
      `IH5UserBlock.create`, field defaults of the class, `_userblock_size`   (l. 61-101)
      `IH5UserBlock.save` (byte level, namespace `Gen.PatchSteps.Bytes`)      (l. 137-150)
      `IH5Record._has_writable`, `mode`, `_expect_open`, `_expect_not_ro`     (l. 198-204, 506-508, 290-292, 528-530)
      `IH5Record._ublock`, `_set_ublock`                                      (l. 228-235)
      `IH5Record._new_container`                                              (l. 237-246)
      `IH5Record.create_patch`, `_delete_latest_container`, `discard_patch`   (l. 532-563)
      `IH5Record.commit_patch`, `close`                                       (l. 565-590, 510-526)
  src/metador_core/ih5/manifest.py
      `IH5MFRecord.MANIFEST_EXT`, `_manifest_filepath`, `manifest`            (l. 121, 139-142, 126-131)
      `IH5MFRecord.commit_patch` (incl. try/except and `super().commit_patch`) (l. 226-257)
  plus the fixed text `dispatch_commit_patch` (`self.commit_patch()` inside `close`: the method of the class of the
  object; the translator checks that `IH5MFRecord(IH5Record)` overrides `commit_patch` and none of the other methods).

Value dictionary (fixed; Lean side: `Py/PatchPy.lean`, `Py/UBSavePy.lean`, tables in their headers)
  `h5py.File` object ↦ H5 (name, `.mode == "r+"`, `bool(f)`); `f.filename` ↦ f.name; `f.mode` ↦ pyH5Mode f (h5py reports
      "r+" for every writable handle); `bool(f)` ↦ f.live
  `h5py.File(p, "x", userblock_size=n)` ↦ pyH5Create p n (OSError if this object holds p open, FileExistsError if p
      exists; logs `create p n`); `h5py.File(p, "r+"|"r")` ↦ pyH5Open p true|false (logs `reopen`); other modes: error
  `f.close()` ↦ pyH5Close f, or pyH5CloseAt i when f is (an alias of) the list element `self.__files__[i]` (the element
      itself is closed, as in Python; logs `h5close name rw` if it was live)
  `IH5UserBlock` ↦ Record.UB, value semantics; fields record_uuid/patch_index/patch_uuid/prev_patch/hdf5_hashsum/ub_exts
      ↦ rid/idx/pid/prev/hash/ext; `cls(k=v, …)` ↦ a structure literal (keyword values evaluated in source order, missing
      fields from the defaults of the class body); `ub.copy(update={…})` ↦ `{ ub with … }`; `{}` / `dict(x.ub_exts)` ↦ the extension
  aliasing of user blocks is tracked: a local that is (an alias of) a block stored in `self._ublocks` may not be changed
      in place, and may not be read after the stored block was changed in place (`commit_patch`) — TranslateError
  `ub.save(p)` ↦ pyUBSave ub p (logs `writeUB p ub`; its bytes: the byte-level translation of `save`);
      `hashsum_file(p, skip_bytes=n)` ↦ pyHashsumFile p n (digest of a payload = the payload, as in the model; logs `hashPayload p n`)
  `pathlib.Path` ↦ its base name (FindFiles.Name); `Path(x)`, `str(x)`, `QualHashsumStr(x)` ↦ x; `p.unlink()` ↦ pyUnlink p;
      `p.is_file()` ↦ pyIsFile p; f-strings of names/str ↦ `++`
  `self.__files__` / `self._files` ↦ Obj.files; `self._ublocks` ↦ Obj.ublocks (insertion-ordered association list =
      dict); `l[i]` ↦ pyIdx (negative indices, IndexError), `l[i] = v` ↦ pySetIdx, `l.append(x)`, `l.pop()` ↦ pyPop, `d[k]` ↦
      pyDictGet (KeyError), `d[k] = v` ↦ pyDictSet, `del d[k]` ↦ pyDictDel; `len(l)` ↦ l.length; truth value of a list /
      of `kwargs` ↦ pyTruthyList; in-place mutations read the container AFTER their arguments were evaluated
  `self._closed`, `_allow_patching`, `_manifest` ↦ Obj.closed / allow / manifest; `type(self)` ↦ Obj.mfcls
  `uuid1()` ↦ pyUuid1 (the model's counter); `self._next_patch_filepath()` ↦ pyNextPatchFilepath (translated and
      bridged by C03); `self._fresh_manifest()` ↦ pyFreshManifest (translated by C05): needs `_ublock(-1)`, two fresh numbers
  `IH5Manifest` ↦ (uuid, body) : Nat × Nat; `mf.manifest_uuid` ↦ mf.1; `qualified_hashsum(bytes(mf))` ↦ mf.2;
      `mf.manifest_exts [= x]` ↦ pyMfExts / pyMfWithExts (the body is a fresh number whatever it holds); `mf.save(p)` ↦
      pyManifestSave (logs `writeManifest`); `IH5UBExtManifest(is_stub_container=s, manifest_uuid=u, manifest_hashsum=h)
      .update(ub)` ↦ `ub := pyExtUpdate s u h ub` (the stub flag is not part of Record.UB)
  `**kwargs` ↦ Kw (names with opaque values); `kwargs.pop(k, d)` ↦ pyKwPop; `f(**kwargs)` ↦ passing it on
  `x is None` / `is not None` ↦ `.isNone` / `.isSome`; `X if v is None else Y` ↦ `match v with | none => X | some v => Y`;
      `isinstance(obj, h5py.File)` ↦ the constructor test of FileOrInt; `if self._manifest is None: raise …` + rest ↦ a
      `match` binding the value; `and` / `or` / `not` on truth values (right operand evaluated only if needed); `==`, `!=` on
      str/int/bool, `<`,`<=` on non-negative ints; `a if c else b` and `if c: x = a / else: x = b` alike
  `raise E(msg)` ↦ `throw Out.e` (ValueError, FileNotFoundError, FileExistsError, OSError, KeyError, IndexError,
      AssertionError; the message is not translated); `try: … except E as e: …; raise e` ↦ tryCatch + match on the class
  `for f in self.__files__: body` ↦ pyForFiles (fun i => body), f an alias of element i
  evaluation order: every call with an effect is bound to a temporary in Python's left-to-right order
  byte level (`save`): `self.json()` ↦ render self; `f"{n}"` of `_userblock_size` ↦ pyStrNat n; str/bytes ↦ List Char,
      `.encode("utf-8")` ↦ identity (ASCII); `with open(filename, "r+b") as f:` ↦ pyWithOpen; `f.read(n)`, `f.seek(k)`,
      `f.write(b)` ↦ fRead / fSeek / fWrite (in-place overwrite at the offset); `assert c` ↦ `throw tooLong` unless c;
      `raise ValueError` ↦ `throw noUserBlock`

Anything else (other statements, calls, attributes, decorators, parameter lists, an override of a translated method in
IH5MFRecord, `__getattr__` tricks) raises TranslateError naming what was not understood; the methods that could be
translated are still written, the check records `translate:C11` as undischarged and the bridge modules of the methods
left out do not build.

NOT translated, tied by the correspondence run / oracle only: `_create`, `_open`, `_check_ublock`, `__init__`,
`merge_files`, `delete_files`, `IH5UserBlock.load` / `_read_head_raw` (C04's model), `IH5Manifest.save` and
`from_userblock`, `_fresh_manifest`, `_next_patch_filepath` (C03), `hashsum_file` itself, everything HDF5 does inside a
container, the text of exception messages, the values of keyword arguments, `create_stub`. Hypotheses of the
`*_model` theorems: `PyRep s.h` (no two files of the handle share a name — `_ublocks` is a dict; "last file is r+"
presupposes a last file) and `OnDisk s` (the writable container was not removed behind the back of the process; implied
by C02's invariant, `onDisk_of_inv`). Outside `OnDisk` the source leaves the newest handle closed / the new in-memory
block in place when `hashsum_file` raises FileNotFoundError, where the record model says "state unchanged": a deviation
of the model in a corner the properties exclude (external deletion), recorded here, not repaired.

Mutation tests (METADOR_REPO=<scratch worktree>; bridge modules rebuilt; * = whole `./check C11` run, exit 1, replay names
the broken obligations)
  behaviour-changing edits, each breaks the bridge theorem of its method: manifest written before the base-class commit *,
  a second `save` in commit_patch *, `f.close()` dropped in `_new_container` *, hash computed before `cfile.close()` *,
  `skip_bytes=512`, `userblock_size=512`, `_has_writable` guard dropped in create_patch, `len(..) == 2` in discard_patch,
  `and` -> `or` in close, restore of the user block dropped in the manifest class, reopen "r+" instead of "r" after commit,
  `MANIFEST_EXT = ".mf.json"`, `patch_index` without `+ 1`, `hdf5_hashsum` inherited in `create`, NUL byte dropped /
  `seek(4)` in `save`, unlink before close in `_delete_latest_container`.
  Seeded changes: C11-s1 (`path.is_file(): path.unlink()` in create_patch) translates, gen_create_patch breaks;
  C11-s4 (commit first, second user-block write) translates, gen_mf_commit_patch breaks; C11-s3 (`_manifest_filepath` via
  `with_name`) is outside the fragment: TranslateError, gen_manifest_filepath / gen_mf_commit_patch / gen_close
  undischarged. C11-s2, -t1, -t2, -t3 touch `__init__` / `_open` / `find_files`: not translated here (C03/C04 translate them).
  behaviour-preserving edits that stay green (applied together, whole check, exit 0): renamed locals / loop and handler
  variables, comments and docstrings, reordered independent statements (`_ublock(-1)` before `_next_patch_filepath()`, the
  two `kwargs.pop`, `_closed = True` before `__files__ = []`), temporaries introduced or inlined, conditional expression <->
  if-statement (`mode`, `_ublock`), `return self.f()` <-> `self.f(); return None`, `raise e` <-> bare `raise`,
  `QualHashsumStr(..)` moved.
  Known to break the tie although harmless: dropping `_expect_open()` from commit_patch / discard_patch (a closed record
  has no files, so `_has_writable` refuses anyway — but the model also has closed handles with files), swapping two guards
  that raise different exception classes, `len(..) <= 1` for `== 1`, a `while` loop or `enumerate`, `with` for the h5py
  handles, helper functions / new attributes, logging calls, `assert`s in the record-level methods.
"""
import ast
import os

from . import envshim  # noqa: F401
from .translate import TranslateError, find_class, lean_str

REC = "src/metador_core/ih5/record.py"
MFS = "src/metador_core/ih5/manifest.py"
GEN_REL = ("MetadorModel", "Gen", "PatchSteps.lean")

HEADER = """import MetadorModel.Py.PatchPy
import MetadorModel.Py.UBSavePy
/-! GENERATED on every run by harness/translate_c11.py from
    src/metador_core/ih5/record.py and src/metador_core/ih5/manifest.py. Do not edit.
    Value dictionary: Py/PatchPy.lean, Py/UBSavePy.lean and the docstring of harness/translate_c11.py. -/
set_option linter.unusedVariables false
namespace MetadorModel.Gen.PatchSteps
open MetadorModel.FindFiles MetadorModel.Record MetadorModel.RecordPy MetadorModel.PatchPy
"""

HEADER_BYTES = """
namespace MetadorModel.Gen.PatchSteps.Bytes
open MetadorModel.UBlock MetadorModel.RecordPy MetadorModel.UBSavePy
"""

LEAN_KEYWORDS = {"at", "from", "fun", "end", "do", "then", "else", "if", "let", "have", "show", "match", "with", "in",
                 "open", "def", "theorem", "by", "where", "instance", "structure", "class", "namespace", "section",
                 "import", "return", "for", "mut", "try", "catch", "finally", "unless", "type", "prefix", "local",
                 "variable", "universe", "macro", "syntax", "deriving", "mutual", "partial", "private", "self", "some",
                 "none", "true", "false", "throw", "pure", "bind"}

EXC = {"ValueError": "Out.valueError", "FileNotFoundError": "Out.fileNotFound", "FileExistsError": "Out.fileExists",
       "OSError": "Out.osError", "KeyError": "Out.keyError", "IndexError": "Out.indexError",
       "AssertionError": "Out.assertionError"}

# IH5UserBlock field -> (Record.UB field, type)
UB_FIELDS = {"record_uuid": ("rid", "nat"), "patch_index": ("idx", "nat"), "patch_uuid": ("pid", "nat"),
             "prev_patch": ("prev", ("opt", "nat")), "hdf5_hashsum": ("hash", ("opt", "hash")),
             "ub_exts": ("ext", "ubexts")}

# (class, python name) -> (lean name, kind, parameter types after self/cls, result type)
#   kind: "method" (self), "classmethod" (cls; needs no object state), "property", "pure" (classmethod, no monad)
SIGS = {
    ("IH5UserBlock", "create"): ("IH5UserBlock.create", "classmethod", [("opt", "ub")], "ub"),
    ("IH5Record", "_has_writable"): ("IH5Record._has_writable", "property", [], "bool"),
    ("IH5Record", "mode"): ("IH5Record.mode", "property", [], "str"),
    ("IH5Record", "_expect_open"): ("IH5Record._expect_open", "method", [], "unit"),
    ("IH5Record", "_expect_not_ro"): ("IH5Record._expect_not_ro", "method", [], "unit"),
    ("IH5Record", "_ublock"): ("IH5Record._ublock", "method", ["fileorint"], "ub"),
    ("IH5Record", "_set_ublock"): ("IH5Record._set_ublock", "method", ["fileorint", "ub"], "unit"),
    ("IH5Record", "_new_container"): ("IH5Record._new_container", "classmethod", ["name", "ub"], "h5"),
    ("IH5Record", "create_patch"): ("IH5Record.create_patch", "method", [], "unit"),
    ("IH5Record", "_delete_latest_container"): ("IH5Record._delete_latest_container", "method", [], "unit"),
    ("IH5Record", "discard_patch"): ("IH5Record.discard_patch", "method", [], "unit"),
    ("IH5Record", "commit_patch"): ("IH5Record.commit_patch", "method", "kwargs", "unit"),
    ("IH5MFRecord", "_manifest_filepath"): ("IH5MFRecord._manifest_filepath", "pure", ["name"], "name"),
    ("IH5MFRecord", "manifest"): ("IH5MFRecord.manifest", "property", [], "mf"),
    ("IH5MFRecord", "commit_patch"): ("IH5MFRecord.commit_patch", "method", "kwargs", "unit"),
    ("IH5Record", "close"): ("IH5Record.close", "method", ["bool"], "unit"),
}
ORDER = [("IH5MFRecord", "_manifest_filepath"), ("IH5UserBlock", "create"), ("IH5Record", "_has_writable"),
         ("IH5Record", "mode"), ("IH5Record", "_expect_open"), ("IH5Record", "_expect_not_ro"), ("IH5Record", "_ublock"),
         ("IH5Record", "_set_ublock"), ("IH5Record", "_new_container"), ("IH5Record", "create_patch"),
         ("IH5Record", "_delete_latest_container"), ("IH5Record", "discard_patch"), ("IH5Record", "commit_patch"),
         ("IH5MFRecord", "manifest"), ("IH5MFRecord", "commit_patch"), "dispatch_commit_patch", ("IH5Record", "close")]
# methods of the base class the manifest class may override: only `commit_patch` is understood
NO_OVERRIDE = ["_has_writable", "mode", "_expect_open", "_expect_not_ro", "_ublock", "_set_ublock", "_new_container",
               "create_patch", "_delete_latest_container", "discard_patch", "close", "_next_patch_filepath"]


def lty(t):
    if isinstance(t, tuple) and t[0] == "opt":
        return "Option (%s)" % lty(t[1])
    if isinstance(t, tuple) and t[0] == "list":
        return "List (%s)" % lty(t[1])
    return {"bool": "Bool", "nat": "Nat", "int": "Int", "str": "Str", "name": "Name", "ub": "UB", "h5": "H5",
            "mf": "Nat × Nat", "any": "PyAny", "kw": "Kw", "unit": "Unit", "fileorint": "FileOrInt",
            "hash": "List Nat", "ubexts": "Option (Nat × Nat)", "dict": "List (Name × UB)"}[t]


def lname(py):
    return py + "_" if py in LEAN_KEYWORDS else py


def _d(e):
    try:
        return ast.unparse(e)[:110]
    except Exception:  # noqa: BLE001
        return ast.dump(e)[:110]


def _src(rel):
    path = os.path.join(envshim.REPO, rel)
    try:
        return ast.parse(open(path).read(), filename=path)
    except (OSError, SyntaxError) as e:
        raise TranslateError("cannot parse %s: %s" % (rel, e))


def is_opt(t):
    return isinstance(t, tuple) and t[0] == "opt"


def _is_name(e, n):
    return isinstance(e, ast.Name) and e.id == n


def _const_int(e):
    """an int literal, possibly negative"""
    if isinstance(e, ast.Constant) and isinstance(e.value, int) and not isinstance(e.value, bool):
        return e.value
    if isinstance(e, ast.UnaryOp) and isinstance(e.op, ast.USub):
        v = _const_int(e.operand)
        return None if v is None else -v
    return None


def _lean_int(n):
    return "(%d : Int)" % n if n >= 0 else "(-%d : Int)" % (-n)


def _body(fn):
    b = fn.body
    if b and isinstance(b[0], ast.Expr) and isinstance(b[0].value, ast.Constant) and isinstance(b[0].value.value, str):
        b = b[1:]
    return b


def _decorators(fn):
    out = []
    for d in fn.decorator_list:
        if isinstance(d, ast.Name):
            out.append(d.id)
        else:
            raise TranslateError("%s: decorator not understood: %s" % (fn.name, _d(d)))
    return out


def find_method(cls, name):
    hits = [n for n in cls.body if isinstance(n, ast.FunctionDef) and n.name == name]
    if len(hits) != 1:
        raise TranslateError("%s.%s: expected exactly one definition, found %d" % (cls.name, name, len(hits)))
    return hits[0]


def class_consts(cls):
    """`NAME[: T] = <constant>` in a class body / module"""
    env = {}
    for n in cls.body:
        tgt = val = None
        if isinstance(n, ast.AnnAssign) and isinstance(n.target, ast.Name) and n.value is not None:
            tgt, val = n.target.id, n.value
        elif isinstance(n, ast.Assign) and len(n.targets) == 1 and isinstance(n.targets[0], ast.Name):
            tgt, val = n.targets[0].id, n.value
        if tgt is not None:
            env[tgt] = val
    return env


class Val:
    """Lean text of a Python expression with its type. `alias`: for an `h5py.File`, the Lean text of the index `i` such
    that the value is the list element `self.__files__[i]`; `key`: for a user block, the index literal under which it is
    (an alias of) the block stored in `self._ublocks`"""

    def __init__(self, lean, ty, alias=None, key=None, var=None):
        self.lean, self.ty, self.alias, self.key, self.var = lean, ty, alias, key, var


class Var:
    def __init__(self, lean, ty, param=False):
        self.lean, self.ty, self.param = lean, ty, param
        self.alias = None     # h5: index text while the variable is an alias of a list element
        self.key = None       # ub: index literal while the variable is (an alias of) a stored block
        self.stale = None     # reason why the Lean value no longer is what the Python name refers to
        self.closed = False   # h5 (not an alias): `.close()` was called on it


class Lift:
    """a monadic sub-expression, in evaluation order"""

    def __init__(self, tmp, text, effect):
        self.tmp, self.text, self.effect = tmp, text, effect


PH = "\x01%s\x02"   # placeholder of a temporary in Lean text until the statement is complete


class Fn:
    """translator of one method body into a `do` block of the world monad `PatchM` (or a pure term)"""

    def __init__(self, gen, clsname, fnode, sig):
        self.gen, self.clsname, self.fn = gen, clsname, fnode
        self.lean_name, self.kind, ptypes, self.ret_ty = sig
        self.qual = "%s.%s" % (clsname, fnode.name)
        self.env = {}
        self.ntmp = 0
        self.lifts = []
        self.kwname = None
        self.in_handler = None   # name bound by `except E as e`
        a = fnode.args
        if a.vararg or a.kwonlyargs or a.posonlyargs:
            raise self.err("unsupported parameter kinds")
        names = [x.arg for x in a.args]
        if not names:
            raise self.err("no self/cls parameter")
        decos = _decorators(fnode)
        want = {"method": [], "classmethod": ["classmethod"], "pure": ["classmethod"], "property": ["property"]}[self.kind]
        if decos != want:
            raise self.err("decorators %s, expected %s" % (decos, want))
        self.selfname = names[0] if self.kind in ("method", "property") else None
        self.clsvar = names[0] if self.kind in ("classmethod", "pure") else None
        names = names[1:]
        self.params = []
        if ptypes == "kwargs":
            if names or not a.kwarg:
                raise self.err("expected the signature (self, **kwargs)")
            self.kwname = a.kwarg.arg
            self.env[self.kwname] = Var("kwargs", "kw", param=True)
            self.params.append(("kwargs", "kw"))
        else:
            if a.kwarg:
                raise self.err("unexpected **%s" % a.kwarg.arg)
            if len(names) != len(ptypes):
                raise self.err("expected %d parameters, found %d (%s)" % (len(ptypes), len(names), ", ".join(names)))
            for n, ty in zip(names, ptypes):
                self.env[n] = Var(lname(n), ty, param=True)
                self.params.append((lname(n), ty))
        self.defaults = [_d(x) for x in a.defaults]
        # names bound more than once, or mutated in place: `let mut`
        counts = {}
        for node in ast.walk(fnode):
            tgts = []
            if isinstance(node, ast.Assign):
                tgts = node.targets
            elif isinstance(node, (ast.AnnAssign, ast.AugAssign)):
                tgts = [node.target]
            for t in tgts:
                if isinstance(t, ast.Name):
                    counts[t.id] = counts.get(t.id, 0) + 1
                elif isinstance(t, ast.Attribute) and isinstance(t.value, ast.Name):
                    counts[t.value.id] = counts.get(t.value.id, 0) + 2
            if isinstance(node, ast.Call) and isinstance(node.func, ast.Attribute) and node.func.attr == "pop" \
                    and isinstance(node.func.value, ast.Name) and node.func.value.id == self.kwname:
                counts[self.kwname] = counts.get(self.kwname, 0) + 2
            if isinstance(node, ast.Call) and isinstance(node.func, ast.Attribute) and node.func.attr == "update":
                for x in node.args:
                    if isinstance(x, ast.Name):
                        counts[x.id] = counts.get(x.id, 0) + 2
        self.mutable = {n for n, c in counts.items() if c > 1} | {n for n in counts if n in self.env}

    def err(self, what, node=None):
        where = " (line %d)" % node.lineno if node is not None and hasattr(node, "lineno") else ""
        return TranslateError("%s%s: %s" % (self.qual, where, what))

    # ------------------------------------------------------------------ temporaries
    def lift(self, text, effect):
        self.ntmp += 1
        tmp = "a%d" % self.ntmp
        self.lifts.append(Lift(tmp, text, effect))
        return PH % tmp

    def flush(self, lines_with_ph, ind):
        """finish a statement: `lines_with_ph` is its Lean text (list of lines) with placeholders"""
        lifts, self.lifts = self.lifts, []
        out = []
        if any(l.effect for l in lifts):
            done = {}
            for l in lifts:
                out.append("%slet %s ← %s" % (ind, l.tmp, self._subst(l.text, done, True)))
                done[l.tmp] = None
            return out + [self._subst(x, {l.tmp: None for l in lifts}, True) for x in lines_with_ph]
        texts = {}
        for l in lifts:
            texts[l.tmp] = "(← %s)" % self._subst(l.text, texts, False)
        return [self._subst(x, texts, False) for x in lines_with_ph]

    @staticmethod
    def _subst(s, table, names):
        out, i = [], 0
        while True:
            j = s.find("\x01", i)
            if j < 0:
                out.append(s[i:])
                return "".join(out)
            k = s.index("\x02", j)
            tmp = s[j + 1:k]
            out.append(s[i:j])
            if tmp not in table:
                raise TranslateError("internal: temporary %s used before it is bound" % tmp)
            out.append(tmp if names else table[tmp])
            i = k + 1

    def sub_block(self, fnbody):
        """translate something in a nested context (a branch of a conditional expression): returns (lines, effect)"""
        saved, self.lifts = self.lifts, []
        try:
            v = fnbody()
            eff = any(l.effect for l in self.lifts)
            mon = bool(self.lifts)
            return v, self.lifts, eff, mon
        finally:
            self.lifts = saved

    # ------------------------------------------------------------------ self
    def selfobj(self):
        if self.selfname is None:
            raise self.err("the record object is needed in a method that has none")
        return self.lift("pySelf", False)

    def is_self(self, e):
        return self.selfname is not None and _is_name(e, self.selfname)

    def is_files(self, e):
        return isinstance(e, ast.Attribute) and self.is_self(e.value) and e.attr in ("_files", "_IH5Record__files__", "__files__")

    def is_ublocks(self, e):
        return isinstance(e, ast.Attribute) and self.is_self(e.value) and e.attr == "_ublocks"

    # ------------------------------------------------------------------ coercions
    def coerce(self, v, want, node=None):
        if v.ty == want:
            return v
        if v.ty == ("opt", None) and (is_opt(want) or want == "ubexts"):
            return Val("(none : %s)" % lty(want), want)
        if is_opt(want) and not is_opt(v.ty):
            inner = self.coerce(v, want[1], node)
            return Val("(some %s)" % inner.lean, want)
        if v.ty == "nat" and want == "int":
            return Val("(Int.ofNat %s)" % v.lean, "int")
        if v.ty == "int" and want == "fileorint":
            return Val("(FileOrInt.int %s)" % v.lean, want, key=v.key)
        if v.ty == "nat" and want == "fileorint":
            return Val("(FileOrInt.int (Int.ofNat %s))" % v.lean, want)
        if v.ty == "h5" and want == "fileorint":
            return Val("(FileOrInt.file %s)" % v.lean, want)
        if {v.ty, want} == {"name", "str"}:
            return Val(v.lean, want)   # both are `List Char`
        if v.ty == "emptydict" and want == "ubexts":
            return Val("(none : Option (Nat × Nat))", want)
        if want == ("opt", "any"):
            return Val("(some ())", want)   # any value that is not None
        raise self.err("a value of type %s where %s is expected: %s" % (v.ty, want, _clean(v.lean)), node)

    def truth(self, v, node=None):
        if v.ty == "bool":
            return v
        if v.ty == "kw" or (isinstance(v.ty, tuple) and v.ty[0] == "list") or v.ty == "dict":
            return Val("(pyTruthyList %s)" % v.lean, "bool")
        if v.ty == "h5":
            return Val("%s.live" % v.lean, "bool")
        if is_opt(v.ty) and v.ty[1] in ("ub", "mf"):
            return Val("(%s).isSome" % v.lean, "bool")
        raise self.err("truth value of a %s is not in the dictionary: %s" % (v.ty, _clean(v.lean)), node)

    # ------------------------------------------------------------------ expressions
    def var(self, name, node):
        v = self.env.get(name)
        if v is None:
            raise self.err("name `%s` is not understood" % name, node)
        if v.stale:
            raise self.err("`%s` is read after %s: the Python name and the translated value may differ (aliasing)" % (name, v.stale), node)
        return v

    def ex(self, e):
        if isinstance(e, ast.Constant):
            c = e.value
            if c is None:
                return Val("none", ("opt", None))
            if isinstance(c, bool):
                return Val("true" if c else "false", "bool")
            if isinstance(c, int):
                return Val("%d" % c, "nat") if c >= 0 else Val(_lean_int(c), "int")
            if isinstance(c, str):
                return Val(lean_str(c), "str")
            raise self.err("constant not understood: %r" % (c,), e)
        if _const_int(e) is not None:
            n = _const_int(e)
            return Val(_lean_int(n), "int", key=n)
        if isinstance(e, ast.Name):
            if e.id in self.env:
                v = self.var(e.id, e)
                return Val(v.lean, v.ty, alias=v.alias, key=v.key, var=e.id)
            if e.id in self.gen.mod_consts:
                return self.gen.const(e.id, e)
            raise self.err("name `%s` is not understood" % e.id, e)
        if isinstance(e, ast.Attribute):
            return self.ex_attr(e)
        if isinstance(e, ast.Subscript):
            return self.ex_subscript(e)
        if isinstance(e, ast.Call):
            return self.ex_call(e)
        if isinstance(e, ast.UnaryOp) and isinstance(e.op, ast.Not):
            return Val("(!%s)" % self.truth(self.ex(e.operand), e).lean, "bool")
        if isinstance(e, ast.BoolOp):
            return self.ex_boolop(e)
        if isinstance(e, ast.Compare):
            return self.ex_compare(e)
        if isinstance(e, ast.IfExp):
            return self.ex_ifexp(e)
        if isinstance(e, ast.BinOp) and isinstance(e.op, ast.Add):
            a, b = self.ex(e.left), self.ex(e.right)
            if a.ty == "nat" and b.ty == "nat":
                return Val("(%s + %s)" % (a.lean, b.lean), "nat")
            raise self.err("`+` on %s and %s is not in the dictionary" % (a.ty, b.ty), e)
        if isinstance(e, ast.JoinedStr):
            parts = []
            for p in e.values:
                if isinstance(p, ast.Constant) and isinstance(p.value, str):
                    if p.value:
                        parts.append(lean_str(p.value))
                elif isinstance(p, ast.FormattedValue) and p.conversion == -1 and p.format_spec is None:
                    v = self.ex(p.value)
                    if v.ty not in ("str", "name"):
                        raise self.err("f-string part of type %s is not in the dictionary: %s" % (v.ty, _d(p.value)), e)
                    parts.append(v.lean)
                else:
                    raise self.err("f-string part not understood: %s" % _d(p), e)
            return Val("(" + " ++ ".join(parts or ["([] : Str)"]) + ")", "str")
        if isinstance(e, ast.Dict) and not e.keys:
            return Val("[]", "emptydict")
        if isinstance(e, ast.List) and not e.elts:
            return Val("[]", "emptylist")
        raise self.err("expression not understood: %s" % _d(e), e)

    def ex_attr(self, e):
        a = e.attr
        if self.is_self(e.value):
            if self.is_files(e):
                return Val("%s.files" % self.selfobj(), ("list", "h5"))
            if a == "_ublocks":
                return Val("%s.ublocks" % self.selfobj(), "dict")
            if a == "_closed":
                return Val("%s.closed" % self.selfobj(), "bool")
            if a == "_allow_patching":
                return Val("%s.allow" % self.selfobj(), "bool")
            if a == "_manifest":
                return Val("%s.manifest" % self.selfobj(), ("opt", "mf"))
            for cls in self.gen.self_classes(self.clsname):
                sig = SIGS.get((cls, a))
                if sig and sig[1] == "property":
                    self.gen.need((cls, a))
                    return Val(self.lift(sig[0], False), sig[3])
            raise self.err("attribute `self.%s` is not in the dictionary" % a, e)
        if self.clsvar is not None and _is_name(e.value, self.clsvar):
            return self.gen.class_const(self.clsname, a, e)
        v = self.ex(e.value)
        if v.ty == "h5":
            if a == "filename":
                return Val("%s.name" % v.lean, "name")
            if a == "mode":
                return Val("(pyH5Mode %s)" % v.lean, "str")
        if v.ty == "ub" and a in UB_FIELDS:
            f, ty = UB_FIELDS[a]
            return Val("%s.%s" % (v.lean, f), ty)
        if v.ty == "mf":
            if a == "manifest_uuid":
                return Val("%s.1" % v.lean, "nat")
            if a == "manifest_exts":
                return Val("(pyMfExts %s)" % v.lean, ("opt", "any"))
        raise self.err("attribute `.%s` of a %s is not in the dictionary: %s" % (a, v.ty, _d(e)), e)

    def ex_subscript(self, e):
        base = self.ex(e.value)
        idx = self.ex(e.slice)
        if isinstance(base.ty, tuple) and base.ty[0] == "list":
            i = self.coerce(idx, "int", e)
            alias = i.lean if (self.is_files(e.value) and idx.key is not None) else None
            return Val(self.lift("pyLift (pyIdx %s %s)" % (base.lean, i.lean), False), base.ty[1], alias=alias)
        if base.ty == "dict":
            k = self.coerce(idx, "name", e)
            return Val(self.lift("pyLift (pyDictGet %s %s)" % (base.lean, k.lean), False), "ub")
        raise self.err("subscript of a %s is not in the dictionary: %s" % (base.ty, _d(e)), e)

    def ex_boolop(self, e):
        op = "&&" if isinstance(e.op, ast.And) else "||"
        first = self.truth(self.ex(e.values[0]), e)
        acc = first.lean
        for rest in e.values[1:]:
            v, lifts, eff, mon = self.sub_block(lambda r=rest: self.truth(self.ex(r), e))
            if not mon:
                acc = "(%s %s %s)" % (acc, op, v.lean)
                continue
            if eff:
                raise self.err("an effect inside the right operand of `and`/`or` is not supported: %s" % _d(rest), e)
            # short circuit: the right operand is read (and may raise) only if the left one does not decide
            inner = self._inline(lifts, v.lean)
            if op == "&&":
                txt = "(if %s then (do pure %s) else pure false)" % (acc, inner)
            else:
                txt = "(if %s then pure true else (do pure %s))" % (acc, inner)
            acc = self.lift(txt, False)
        return Val(acc, "bool")

    def _inline(self, lifts, text):
        texts = {}
        for l in lifts:
            texts[l.tmp] = "(← %s)" % self._subst(l.text, texts, False)
        return self._subst(text, texts, False)

    def ex_compare(self, e):
        if len(e.ops) != 1:
            raise self.err("chained comparison", e)
        op, l, r = e.ops[0], e.left, e.comparators[0]
        if isinstance(op, (ast.Is, ast.IsNot)):
            if not (isinstance(r, ast.Constant) and r.value is None):
                raise self.err("`is` is understood only with None", e)
            v = self.ex(l)
            if not is_opt(v.ty) and v.ty != "ubexts":
                raise self.err("`%s` is compared with None but can never be None (type %s)" % (_d(l), v.ty), e)
            return Val("(%s).%s" % (v.lean, "isNone" if isinstance(op, ast.Is) else "isSome"), "bool")
        a, b = self.ex(l), self.ex(r)
        if isinstance(op, (ast.Eq, ast.NotEq)):
            if {a.ty, b.ty} <= {"str", "name"} or (a.ty == b.ty and a.ty in ("nat", "int", "bool")):
                txt = "(%s == %s)" % (a.lean, b.lean)
            elif {a.ty, b.ty} == {"nat", "int"}:
                txt = "(%s == %s)" % (self.coerce(a, "int").lean, self.coerce(b, "int").lean)
            else:
                raise self.err("`==` on %s and %s is not in the dictionary" % (a.ty, b.ty), e)
            return Val(txt if isinstance(op, ast.Eq) else "(!%s)" % txt, "bool")
        if isinstance(op, (ast.Lt, ast.LtE, ast.Gt, ast.GtE)) and a.ty == "nat" and b.ty == "nat":
            sym = {ast.Lt: "<", ast.LtE: "≤", ast.Gt: ">", ast.GtE: "≥"}[type(op)]
            return Val("(decide (%s %s %s))" % (a.lean, sym, b.lean), "bool")
        raise self.err("comparison not understood: %s" % _d(e), e)

    def ex_ifexp(self, e):
        # `X if v is None else Y` / `X if isinstance(v, h5py.File) else Y`: a match that narrows `v`
        nar = self.narrowing(e.test)
        if nar is not None:
            name, kind, neg = nar
            v = self.var(name, e)
            yes, no = (e.orelse, e.body) if neg else (e.body, e.orelse)   # yes: v is None / v is a file

            def branch(expr, ty):
                saved = self.env[name]
                if ty is not None:
                    nv = Var(saved.lean, ty)
                    self.env[name] = nv
                try:
                    return self.sub_block(lambda: self.ex(expr))
                finally:
                    self.env[name] = saved
            if kind == "none":
                if not is_opt(v.ty):
                    raise self.err("`%s` is compared with None but has type %s" % (name, v.ty), e)
                b1 = branch(yes, None)
                b2 = branch(no, v.ty[1])
                pats = ["none", "some %s" % v.lean]
            else:
                if v.ty != "fileorint":
                    raise self.err("isinstance on `%s` of type %s" % (name, v.ty), e)
                b1 = branch(yes, "h5")
                b2 = branch(no, "int")
                pats = [".file %s" % v.lean, ".int %s" % v.lean]
            return self._join_branches("match %s with" % v.lean, pats, [b1, b2], e)
        c = self.truth(self.ex(e.test), e)
        b1 = self.sub_block(lambda: self.ex(e.body))
        b2 = self.sub_block(lambda: self.ex(e.orelse))
        return self._join_branches("if %s then" % c.lean, None, [b1, b2], e)

    def _join_branches(self, head, pats, branches, node):
        (v1, l1, e1, m1), (v2, l2, e2, m2) = branches
        ty = v1.ty
        if v1.ty != v2.ty:
            if v1.ty == ("opt", None) and not is_opt(v2.ty):
                ty = ("opt", v2.ty)
            elif v2.ty == ("opt", None) and not is_opt(v1.ty):
                ty = ("opt", v1.ty)
            elif v1.ty == ("opt", None):
                ty = v2.ty
            elif v2.ty == ("opt", None):
                ty = v1.ty
            elif {v1.ty, v2.ty} == {"nat", "int"}:
                ty = "int"
            else:
                raise self.err("branches of different types (%s, %s): %s" % (v1.ty, v2.ty, _d(node)), node)
        v1, v2 = self.coerce(v1, ty, node), self.coerce(v2, ty, node)
        mon = m1 or m2
        if not mon:
            if pats:
                return Val("(%s | %s => %s | %s => %s)" % (head, pats[0], v1.lean, pats[1], v2.lean), ty)
            return Val("(%s %s else %s)" % (head, v1.lean, v2.lean), ty)
        t1 = "(do pure %s)" % self._inline_or_bind(l1, v1.lean)
        t2 = "(do pure %s)" % self._inline_or_bind(l2, v2.lean)
        if pats:
            txt = "(%s | %s => %s | %s => %s : PatchM (%s))" % (head, pats[0], t1, pats[1], t2, lty(ty))
        else:
            txt = "(%s %s else %s : PatchM (%s))" % (head, t1, t2, lty(ty))
        return Val(self.lift(txt, e1 or e2), ty)

    def _inline_or_bind(self, lifts, text):
        # inside a branch the nested actions run in evaluation order when the branch is taken
        return self._inline(lifts, text)

    def narrowing(self, test):
        """`v is None`, `v is not None`, `isinstance(v, h5py.File)` for a plain variable v: (name, kind, negated)"""
        if isinstance(test, ast.Compare) and len(test.ops) == 1 and isinstance(test.ops[0], (ast.Is, ast.IsNot)) \
                and isinstance(test.left, ast.Name) and test.left.id in self.env \
                and isinstance(test.comparators[0], ast.Constant) and test.comparators[0].value is None:
            return test.left.id, "none", isinstance(test.ops[0], ast.IsNot)
        if isinstance(test, ast.Call) and _is_name(test.func, "isinstance") and len(test.args) == 2 \
                and isinstance(test.args[0], ast.Name) and test.args[0].id in self.env and _d(test.args[1]) == "h5py.File":
            return test.args[0].id, "file", False
        if isinstance(test, ast.UnaryOp) and isinstance(test.op, ast.Not):
            inner = self.narrowing(test.operand)
            if inner:
                return inner[0], inner[1], not inner[2]
        return None


def _clean(s):
    return s.replace("\x01", "").replace("\x02", "")


class FnCalls(Fn):
    """calls"""

    def args_of(self, call, n, kws=()):
        """positional arguments (exactly n) and the listed keyword arguments, in source (= evaluation) order"""
        if len(call.args) != n or any(isinstance(a, ast.Starred) for a in call.args):
            raise self.err("expected %d positional argument(s): %s" % (n, _d(call)), call)
        got = {}
        for k in call.keywords:
            if k.arg is None or k.arg not in kws:
                raise self.err("keyword argument not understood: %s" % _d(call), call)
            got[k.arg] = k.value
        return list(call.args), got

    def effect_call(self, lean_fn, args, ret_ty, effect=True):
        txt = lean_fn + "".join(" " + a for a in args)
        if ret_ty == "unit":
            return Val(self.lift(txt, effect), "unit")
        return Val(self.lift(txt, effect), ret_ty)

    def call_translated(self, key, call, args):
        lean_name, kind, ptypes, ret = SIGS[key]
        self.gen.need(key)
        if ptypes == "kwargs":
            return None
        if call.keywords:
            # keyword arguments of translated methods: by parameter name
            names = self.gen.param_names(key)
            args = list(args)
            for k in call.keywords:
                if k.arg not in names:
                    raise self.err("keyword argument not understood: %s" % _d(call), call)
                pos = names.index(k.arg)
                if pos != len(args):
                    raise self.err("keyword arguments out of order: %s" % _d(call), call)
                args.append(k.value)
        defaults = self.gen.param_defaults(key)
        if len(args) < len(ptypes):
            missing = ptypes[len(args):]
            if len(defaults) < len(missing):
                raise self.err("missing arguments: %s" % _d(call), call)
            args = list(args) + defaults[len(defaults) - len(missing):]
        if len(args) != len(ptypes):
            raise self.err("expected %d argument(s): %s" % (len(ptypes), _d(call)), call)
        vals = [self.coerce(self.ex(a), t, call) for a, t in zip(args, ptypes)]
        if kind == "pure":
            return Val("(%s%s)" % (lean_name, "".join(" " + v.lean for v in vals)), ret)
        v = self.effect_call(lean_name, [v.lean for v in vals], ret)
        if key[1] == "_ublock" and vals and vals[0].key is not None:
            v.key = vals[0].key
        return v

    def ex_call(self, e):
        f = e.func
        # ---- plain names
        if isinstance(f, ast.Name):
            n = f.id
            if n == "uuid1":
                self.args_of(e, 0)
                return self.effect_call("pyUuid1", [], "nat")
            if n in ("Path", "QualHashsumStr", "str"):
                (a,), _ = self.args_of(e, 1)
                v = self.ex(a)
                if n == "QualHashsumStr" and v.ty != "hash":
                    raise self.err("QualHashsumStr of a %s" % (str(v.ty),), e)
                if n in ("Path", "str") and v.ty not in ("name", "str"):
                    raise self.err("%s of a %s" % (n, v.ty), e)
                return Val(v.lean, v.ty, alias=v.alias, key=v.key)
            if n == "len":
                (a,), _ = self.args_of(e, 1)
                v = self.ex(a)
                if not (isinstance(v.ty, tuple) and v.ty[0] == "list") and v.ty not in ("dict", "kw"):
                    raise self.err("len of a %s" % (str(v.ty),), e)
                return Val("%s.length" % v.lean, "nat")
            if n == "bool":
                (a,), _ = self.args_of(e, 1)
                v = self.ex(a)
                self.check_open_handle(a, v, e)
                return self.truth(v, e)
            if n == "dict":
                (a,), _ = self.args_of(e, 1)
                v = self.ex(a)
                if v.ty != "ubexts":
                    raise self.err("dict(..) of a %s" % (str(v.ty),), e)
                return v
            if n == "hashsum_file":
                (a,), kw = self.args_of(e, 1, ("skip_bytes",))
                p = self.coerce(self.ex(a), "name", e)
                skip = self.coerce(self.ex(kw["skip_bytes"]), "nat", e) if "skip_bytes" in kw else Val("0", "nat")
                return self.effect_call("pyHashsumFile", [p.lean, skip.lean], "hash")
            if n == "qualified_hashsum":
                (a,), _ = self.args_of(e, 1)
                if isinstance(a, ast.Call) and _is_name(a.func, "bytes") and len(a.args) == 1:
                    v = self.ex(a.args[0])
                    if v.ty == "mf":
                        return Val("%s.2" % v.lean, "nat")
                raise self.err("qualified_hashsum is understood only of bytes(<manifest>)", e)
            if n == "IH5UBExtManifest":
                raise self.err("IH5UBExtManifest(..) is understood only as `IH5UBExtManifest(..).update(ub)`", e)
            raise self.err("call of `%s` is not in the dictionary" % n, e)
        if not isinstance(f, ast.Attribute):
            raise self.err("call not understood: %s" % _d(e), e)
        m = f.attr
        # ---- h5py.File(..)
        if _d(f) == "h5py.File":
            return self.h5file(e)
        # ---- IH5UserBlock.create(prev=..)
        if _is_name(f.value, "IH5UserBlock") and m == "create":
            return self.call_translated(("IH5UserBlock", "create"), e, e.args)
        # ---- cls(...) inside IH5UserBlock.create
        # ---- super().commit_patch(**kwargs)
        if isinstance(f.value, ast.Call) and _is_name(f.value.func, "super") and not f.value.args:
            base = self.gen.base_of(self.clsname)
            if base is None or (base, m) not in SIGS or SIGS[(base, m)][2] != "kwargs":
                raise self.err("super().%s is not understood" % m, e)
            self.gen.need((base, m))
            return self.effect_call(SIGS[(base, m)][0], [self.kwargs_arg(e)], "unit")
        # ---- methods of self / cls
        if self.is_self(f.value) or (self.clsvar is not None and _is_name(f.value, self.clsvar)):
            if m == "_next_patch_filepath" and self.is_self(f.value):
                self.args_of(e, 0)
                return self.effect_call("pyNextPatchFilepath", [], "name", effect=False)
            if m == "_fresh_manifest" and self.is_self(f.value):
                self.args_of(e, 0)
                self.gen.need(("IH5Record", "_ublock"))
                return self.effect_call("pyFreshManifest", ["(IH5Record._ublock (FileOrInt.int (-1 : Int)))"], "mf")
            for cls in self.gen.self_classes(self.clsname):
                key = (cls, m)
                if key in SIGS and SIGS[key][1] != "property":
                    if SIGS[key][1] == "method" and not self.is_self(f.value):
                        raise self.err("method `%s` called on the class" % m, e)
                    if SIGS[key][2] == "kwargs":
                        # `self.commit_patch(**kw)`: the method of the class of the object
                        self.gen.need("dispatch_commit_patch")
                        return self.effect_call("dispatch_commit_patch", [self.kwargs_arg(e)], "unit")
                    return self.call_translated(key, e, e.args)
            raise self.err("method `%s` is not in the dictionary" % m, e)
        # ---- kwargs.pop(k, default)
        if self.kwname and _is_name(f.value, self.kwname) and m == "pop":
            raise self.err("`kwargs.pop(..)` is understood only as the right-hand side of an assignment", e)
        # ---- methods of values
        if m == "close":
            self.args_of(e, 0)
            v = self.ex(f.value)
            if v.ty != "h5":
                raise self.err("close() of a %s" % (str(v.ty),), e)
            if v.alias is not None:
                return self.effect_call("pyH5CloseAt", [v.alias], "unit")
            if v.var is not None:
                self.env[v.var].closed = True
            return self.effect_call("pyH5Close", [v.lean], "unit")
        if m == "save":
            (a,), _ = self.args_of(e, 1)
            v = self.ex(f.value)
            p = self.coerce(self.ex(a), "name", e)
            if v.ty == "ub":
                return self.effect_call("pyUBSave", [v.lean, p.lean], "unit")
            if v.ty == "mf":
                return self.effect_call("pyManifestSave", [v.lean, p.lean], "unit")
            raise self.err("save() of a %s" % (str(v.ty),), e)
        if m == "is_file":
            self.args_of(e, 0)
            v = self.coerce(self.ex(f.value), "name", e)
            return self.effect_call("pyIsFile", [v.lean], "bool", effect=False)
        if m == "unlink":
            self.args_of(e, 0)
            v = self.coerce(self.ex(f.value), "name", e)
            return self.effect_call("pyUnlink", [v.lean], "unit")
        if m == "copy":
            v = self.ex(f.value)
            if v.ty != "ub":
                raise self.err("copy() of a %s" % (str(v.ty),), e)
            _, kw = self.args_of(e, 0, ("update",))
            fields = []
            if "update" in kw:
                d = kw["update"]
                if not isinstance(d, ast.Dict):
                    raise self.err("copy(update=..) with something else than a dict display", e)
                for k, val in zip(d.keys, d.values):
                    if not (isinstance(k, ast.Constant) and k.value in UB_FIELDS):
                        raise self.err("copy(update=..): key not understood: %s" % _d(k), e)
                    fld, ty = UB_FIELDS[k.value]
                    fields.append("%s := %s" % (fld, self.coerce(self.ex(val), ty, e).lean))
            if not fields:
                return Val(v.lean, "ub")
            return Val("{ %s with %s }" % (v.lean, ", ".join(fields)), "ub")
        raise self.err("call not understood: %s" % _d(e), e)

    def kwargs_arg(self, call):
        if call.args:
            raise self.err("positional arguments: %s" % _d(call), call)
        if not call.keywords:
            return "([] : Kw)"
        if len(call.keywords) == 1 and call.keywords[0].arg is None and self.kwname and _is_name(call.keywords[0].value, self.kwname):
            return self.var(self.kwname, call).lean
        raise self.err("keyword arguments not understood: %s" % _d(call), call)

    def check_open_handle(self, node, v, where):
        if v.ty == "h5" and v.var is not None and self.env[v.var].closed:
            raise self.err("`%s` is used after close(): the translated value would still be live" % v.var, where)

    def h5file(self, e):
        args = list(e.args)
        kw = {}
        for k in e.keywords:
            if k.arg not in ("mode", "userblock_size", "name"):
                raise self.err("h5py.File: keyword not understood: %s" % _d(e), e)
            kw[k.arg] = k.value
        if "name" in kw:
            args.insert(0, kw.pop("name"))
        if not args or len(args) > 2:
            raise self.err("h5py.File: arguments not understood: %s" % _d(e), e)
        path = self.coerce(self.ex(args[0]), "name", e)
        mode = args[1] if len(args) == 2 else kw.get("mode")
        if len(args) == 2 and "mode" in kw:
            raise self.err("h5py.File: mode given twice", e)
        if mode is None:
            mode_s = "r"
        elif isinstance(mode, ast.Constant) and isinstance(mode.value, str):
            mode_s = mode.value
        else:
            raise self.err("h5py.File: the mode must be a string literal: %s" % _d(e), e)
        if mode_s == "x":
            if "userblock_size" not in kw:
                raise self.err("h5py.File(.., 'x') without userblock_size: no user block would be reserved", e)
            n = self.coerce(self.ex(kw["userblock_size"]), "nat", e)
            return self.effect_call("pyH5Create", [path.lean, n.lean], "h5")
        if "userblock_size" in kw:
            raise self.err("h5py.File: userblock_size with mode %r" % mode_s, e)
        if mode_s in ("r", "r+"):
            return self.effect_call("pyH5Open", [path.lean, "true" if mode_s == "r+" else "false"], "h5")
        raise self.err("h5py.File: mode %r is not in the dictionary (only 'x', 'r+', 'r')" % mode_s, e)


class FnT(FnCalls):
    """statements"""

    narrowed = None   # self attribute -> Lean variable holding its (non-None) value

    def ex_attr(self, e):
        if self.narrowed and self.is_self(e.value) and e.attr in self.narrowed:
            lean, ty = self.narrowed[e.attr]
            return Val(lean, ty)
        return super().ex_attr(e)

    def ex_call(self, e):
        f = e.func
        if isinstance(f, ast.Name) and self.clsvar is not None and f.id == self.clsvar and self.clsname == "IH5UserBlock":
            return self.ub_ctor(e)
        return super().ex_call(e)

    def ub_ctor(self, e):
        if e.args:
            raise self.err("positional arguments of the IH5UserBlock constructor", e)
        given = {}
        for k in e.keywords:
            if k.arg not in UB_FIELDS:
                raise self.err("IH5UserBlock(..): field not understood: %s" % k.arg, e)
            fld, ty = UB_FIELDS[k.arg]
            v = self.coerce(self.ex(k.value), ty, e)
            # keyword arguments are evaluated in source order: bind each one
            given[fld] = self.lift("pure %s" % v.lean, True) if "\x01" in v.lean else v.lean
        for py, (fld, ty) in UB_FIELDS.items():
            if fld not in given:
                d = self.gen.ub_default(py)
                if d is None:
                    raise self.err("IH5UserBlock(..): field `%s` is neither given nor has a default" % py, e)
                given[fld] = self.coerce(self.ex(d), ty, e).lean
        order = ["rid", "idx", "pid", "prev", "hash", "ext"]
        return Val("({ %s } : UB)" % ", ".join("%s := %s" % (f, given[f]) for f in order), "ub")

    # ------------------------------------------------------------------ variable state
    def bind(self, name, val, ind, monadic_text=None):
        """`name = <val>`; returns the Lean line(s)"""
        new = name not in self.env
        if not new and self.env[name].param and name not in self.mutable:
            raise self.err("parameter `%s` is reassigned" % name)
        ln = lname(name)
        if new:
            var = Var(ln, val.ty)
            self.env[name] = var
        else:
            var = self.env[name]
            if var.ty != val.ty:
                if is_opt(var.ty) or val.ty == ("opt", None):
                    val = self.coerce(val, var.ty)
                else:
                    raise self.err("`%s` changes its type from %s to %s" % (name, var.ty, val.ty))
        var.alias, var.key, var.stale, var.closed = val.alias, (val.key if val.ty == "ub" else None), None, False
        if val.ty == ("opt", None):
            raise self.err("`%s = None` without a type" % name)
        rhs = monadic_text if monadic_text is not None else val.lean
        arrow = "←" if monadic_text is not None else ":="
        if new:
            mut = "mut " if name in self.mutable else ""
            ann = "" if monadic_text is not None else " : %s" % lty(val.ty)
            return "%slet %s%s%s %s %s" % (ind, mut, ln, ann, arrow, rhs)
        return "%s%s %s %s" % (ind, ln, arrow, rhs)

    def last_lift_text(self, v):
        """if the value is the result of the last lifted action, take that action back: (text, effect)"""
        if self.lifts and v.lean == PH % self.lifts[-1].tmp:
            l = self.lifts.pop()
            return l.text
        return None

    def files_changed(self):
        for v in self.env.values():
            if v.ty == "h5" and v.alias is not None:
                v.alias = None
                v.closed = True   # close() on it would no longer close the list element
            if v.ty == "ub":
                v.key = None

    def stored_block_mutated(self, key=None):
        for n, v in self.env.items():
            if v.ty == "ub" and v.key is not None and (key is None or v.key == key):
                v.stale = "the stored user block it refers to was changed in place"

    def after_effects(self, text):
        """bookkeeping after a statement whose Lean text calls translated methods"""
        if "commit_patch" in text:
            self.stored_block_mutated(-1)
        if any(x in text for x in ("create_patch", "_delete_latest_container", "discard_patch", "IH5Record.close", "pySetFiles")):
            self.files_changed()

    def merge_env(self, before, envs):
        """after branches: keep the names known before, flags merged conservatively"""
        out = {}
        for n, v0 in before.items():
            vs = [e[n] for e in envs if n in e]
            v = vs[0] if vs else v0
            for w in vs[1:]:
                if w.alias != v.alias:
                    v.alias, v.closed = None, True
                if w.key != v.key:
                    v.key = None
                v.stale = v.stale or w.stale
                v.closed = v.closed or w.closed
                if w.ty != v.ty:
                    v.stale = "it has different types on different paths"
            out[n] = v
        self.env = out

    def copy_env(self):
        import copy
        return {n: copy.copy(v) for n, v in self.env.items()}

    # ------------------------------------------------------------------ statements
    def terminates(self, stmts):
        if not stmts:
            return False
        s = stmts[-1]
        if isinstance(s, (ast.Return, ast.Raise)):
            return True
        if isinstance(s, ast.If):
            return bool(s.orelse) and self.terminates(s.body) and self.terminates(s.orelse)
        return False

    def block(self, stmts, ind):
        lines = []
        i = 0
        while i < len(stmts):
            s = stmts[i]
            # narrowing of an Optional attribute of self: `if self.x is None: <leaves>` + rest
            nar = self.attr_narrowing(s)
            if nar is not None and self.terminates(s.body) and not s.orelse:
                attr, ty = nar
                self.ntmp += 1
                nv = "n%d" % self.ntmp
                obj = self.selfobj()
                head = self.flush(["%smatch %s.%s with" % (ind, obj, {"_manifest": "manifest"}[attr])], ind)
                lines += head
                lines.append("%s| none => do" % ind)
                before = self.copy_env()
                lines += self.block(s.body, ind + "  ") or [ind + "  pure ()"]
                self.env = before
                lines.append("%s| some %s => do" % (ind, nv))
                saved = self.narrowed
                self.narrowed = dict(saved or {})
                self.narrowed[attr] = (nv, ty)
                rest = self.block(stmts[i + 1:], ind + "  ")
                self.narrowed = saved
                lines += rest or [ind + "  pure ()"]
                return lines
            lines += self.stmt(s, ind)
            i += 1
        return lines

    def attr_narrowing(self, s):
        if not isinstance(s, ast.If):
            return None
        t = s.test
        if isinstance(t, ast.Compare) and len(t.ops) == 1 and isinstance(t.ops[0], ast.Is) \
                and isinstance(t.comparators[0], ast.Constant) and t.comparators[0].value is None \
                and isinstance(t.left, ast.Attribute) and self.is_self(t.left.value) and t.left.attr == "_manifest":
            return "_manifest", "mf"
        return None

    def stmt(self, s, ind):
        if isinstance(s, ast.Pass):
            return []
        if isinstance(s, ast.Expr):
            if isinstance(s.value, ast.Constant) and isinstance(s.value.value, str):
                return []
            if isinstance(s.value, ast.Call):
                return self.stmt_call(s.value, ind)
            raise self.err("expression statement not understood: %s" % _d(s), s)
        if isinstance(s, ast.Assign):
            if len(s.targets) != 1:
                raise self.err("multiple assignment targets", s)
            return self.stmt_assign(s.targets[0], s.value, ind, s)
        if isinstance(s, ast.AnnAssign):
            if s.value is None:
                return []
            return self.stmt_assign(s.target, s.value, ind, s)
        if isinstance(s, ast.Delete):
            if len(s.targets) == 1 and isinstance(s.targets[0], ast.Subscript) and self.is_ublocks(s.targets[0].value):
                k = self.coerce(self.ex(s.targets[0].slice), "name", s)
                obj = self.selfobj()
                d = self.lift("pyLift (pyDictDel %s.ublocks %s)" % (obj, k.lean), False)
                self.stored_block_mutated()
                return self.flush(["%spySetUblocks %s" % (ind, d)], ind)
            raise self.err("del not understood: %s" % _d(s), s)
        if isinstance(s, ast.Return):
            if s.value is None:
                if self.ret_ty != "unit":
                    raise self.err("bare return in a function that returns a %s" % self.ret_ty, s)
                return [ind + "return ()"]
            if isinstance(s.value, ast.Constant) and s.value.value is None and self.ret_ty == "unit":
                return [ind + "return ()"]
            v = self.ex(s.value)
            if self.ret_ty == "unit":
                if v.ty != "unit":
                    raise self.err("a %s is returned where None is expected" % (str(v.ty),), s)
                t = self.last_lift_text(v)
                out = self.flush([ind + t], ind)
                self.after_effects(t)
                return out + [ind + "return ()"]
            v = self.coerce(v, self.ret_ty, s)
            return self.flush(["%sreturn %s" % (ind, v.lean)], ind)
        if isinstance(s, ast.Raise):
            return self.stmt_raise(s, ind)
        if isinstance(s, ast.If):
            return self.stmt_if(s, ind)
        if isinstance(s, ast.Try):
            return self.stmt_try(s, ind)
        if isinstance(s, ast.For):
            return self.stmt_for(s, ind)
        raise self.err("statement not understood: %s" % _d(s).split("\n")[0], s)

    def stmt_raise(self, s, ind):
        if s.cause is not None:
            raise self.err("raise .. from ..", s)
        if s.exc is None:
            if self.in_handler:
                return [ind + "throw %s" % self.in_handler[1]]
            raise self.err("bare raise outside a handler", s)
        if isinstance(s.exc, ast.Name) and self.in_handler and s.exc.id == self.in_handler[0]:
            return [ind + "throw %s" % self.in_handler[1]]
        exc = s.exc.func if isinstance(s.exc, ast.Call) else s.exc
        if isinstance(exc, ast.Name) and exc.id in EXC:
            # the message is not translated (an f-string that only reads)
            return [ind + "throw %s" % EXC[exc.id]]
        raise self.err("raise not understood: %s" % _d(s), s)

    def stmt_if(self, s, ind):
        # `if c: x = a` / `else: x = b` for a name that is new (or re-bound) in both branches: `x = a if c else b`
        if len(s.body) == 1 and len(s.orelse) == 1 and all(
                isinstance(b, ast.Assign) and len(b.targets) == 1 and isinstance(b.targets[0], ast.Name) for b in (s.body[0], s.orelse[0])) \
                and s.body[0].targets[0].id == s.orelse[0].targets[0].id:
            ife = ast.IfExp(test=s.test, body=s.body[0].value, orelse=s.orelse[0].value)
            ast.copy_location(ife, s)
            return self.stmt_assign(s.body[0].targets[0], ife, ind, s)
        c = self.truth(self.ex(s.test), s)
        head = self.flush(["%sif %s then" % (ind, c.lean)], ind)
        before = self.copy_env()
        body = self.block(s.body, ind + "  ") or [ind + "  pure ()"]
        env1 = self.env
        out = head + body
        envs = [env1]
        self.env = self.copy_env_from(before)
        if s.orelse:
            out.append(ind + "else")
            out += self.block(s.orelse, ind + "  ") or [ind + "  pure ()"]
        envs.append(self.env)
        # a branch that always leaves does not contribute to the state afterwards
        live = []
        if not self.terminates(s.body):
            live.append(envs[0])
        if not (s.orelse and self.terminates(s.orelse)):
            live.append(envs[1])
        self.merge_env(before, live or envs)
        return out

    @staticmethod
    def copy_env_from(env):
        import copy
        return {n: copy.copy(v) for n, v in env.items()}

    def stmt_try(self, s, ind):
        if s.finalbody or s.orelse or len(s.handlers) != 1:
            raise self.err("try statement not understood (one except clause, no else/finally)", s)
        h = s.handlers[0]
        if not (isinstance(h.type, ast.Name) and h.type.id in EXC):
            raise self.err("except clause not understood: %s" % _d(h.type) if h.type else "bare except", s)
        before = self.copy_env_from(self.env)
        out = [ind + "try"]
        out += self.block(s.body, ind + "  ") or [ind + "  pure ()"]
        env_body = self.env
        # the handler starts from anywhere inside the body
        self.merge_env(before, [self.copy_env_from(before), env_body])
        self.ntmp += 1
        ev = "e%d" % self.ntmp
        out.append("%scatch %s =>" % (ind, ev))
        out.append("%s  match %s with" % (ind, ev))
        out.append("%s  | %s => do" % (ind, EXC[h.type.id]))
        saved = self.in_handler
        self.in_handler = (h.name, ev)
        out += self.block(h.body, ind + "    ") or [ind + "    pure ()"]
        self.in_handler = saved
        out.append("%s  | _ => throw %s" % (ind, ev))
        env_h = self.env
        live = [env_body] + ([] if self.terminates(h.body) else [env_h])
        self.merge_env(before, live)
        return out

    def stmt_for(self, s, ind):
        if s.orelse or not isinstance(s.target, ast.Name) or not self.is_files(s.iter):
            raise self.err("for loop not understood (only `for f in self.__files__:`)", s)
        n = s.target.id
        if n in self.env:
            raise self.err("loop variable `%s` shadows another name" % n, s)
        ln = lname(n)
        before = self.copy_env_from(self.env)
        var = Var(ln + "_v", "h5")
        var.alias = ln
        self.env[n] = var
        body = self.block(s.body, ind + "  ") or [ind + "  pure ()"]
        if any((ln + "_v") in x for x in body):
            body = ["%s  let %s_v ← pyLift (pyIdx (← pySelf).files %s)" % (ind, ln, ln)] + body
        for x in body:
            if any(k in x for k in ("pySetFiles", "create_patch", "discard_patch", "_delete_latest_container")):
                raise self.err("the loop body changes the list it iterates over", s)
        self.env = before
        return ["%spyForFiles (fun %s => do" % (ind, ln)] + body[:-1] + [body[-1] + ")"]

    def stmt_call(self, e, ind):
        f = e.func
        # self.__files__.append(x)
        if isinstance(f, ast.Attribute) and f.attr == "append" and self.is_files(f.value):
            (a,), _ = self.args_of(e, 1)
            v = self.coerce(self.ex(a), "h5", e)
            self.check_open_handle(a, v, e)
            obj = self.selfobj()   # the list is read when the element is appended (in-place mutation)
            out = self.flush(["%spySetFiles (%s.files ++ [%s])" % (ind, obj, v.lean)], ind)
            self.files_changed()
            return out
        # IH5UBExtManifest(is_stub_container=.., manifest_uuid=.., manifest_hashsum=..).update(ub)
        if isinstance(f, ast.Attribute) and f.attr == "update" and isinstance(f.value, ast.Call) \
                and _is_name(f.value.func, "IH5UBExtManifest"):
            (a,), _ = self.args_of(e, 1)
            _, kw = self.args_of(f.value, 0, ("is_stub_container", "manifest_uuid", "manifest_hashsum"))
            if set(kw) != {"is_stub_container", "manifest_uuid", "manifest_hashsum"}:
                raise self.err("IH5UBExtManifest(..): all three fields are expected", e)
            vals = {}
            for k in f.value.keywords:   # evaluation order
                want = ("opt", "any") if k.arg == "is_stub_container" else "nat"
                vals[k.arg] = self.coerce(self.ex(k.value), want, e)
            if not isinstance(a, ast.Name):
                raise self.err("update(..) of something else than a local user block", e)
            var = self.var(a.id, e)
            if var.ty != "ub":
                raise self.err("update(..) of a %s" % (str(var.ty),), e)
            if var.key is not None:
                raise self.err("`%s` is changed in place while it is (an alias of) a user block stored in the record" % a.id, e)
            if a.id not in self.mutable:
                raise self.err("internal: `%s` not marked mutable" % a.id, e)
            return self.flush(["%s%s := pyExtUpdate %s %s %s %s" % (
                ind, var.lean, vals["is_stub_container"].lean, vals["manifest_uuid"].lean,
                vals["manifest_hashsum"].lean, var.lean)], ind)
        v = self.ex(e)
        t = self.last_lift_text(v)
        if t is None:
            # a pure call whose value is dropped
            self.lifts = []
            return []
        out = self.flush([ind + t], ind)
        self.after_effects(t)
        if "_set_ublock" in t:
            self.note_set_ublock(e)
        return out

    def note_set_ublock(self, e):
        """`self._set_ublock(k, x)`: x is now the block stored at k, whatever was stored there is not any more"""
        if len(e.args) == 2:
            k = _const_int(e.args[0])
            for v in self.env.values():
                if v.ty == "ub" and v.key is not None and (k is None or v.key == k):
                    v.key = None
            if isinstance(e.args[1], ast.Name) and e.args[1].id in self.env and k is not None:
                self.env[e.args[1].id].key = k

    def stmt_assign(self, tgt, value, ind, node):
        # ---- local name
        if isinstance(tgt, ast.Name):
            name = tgt.id
            if name == (self.selfname or self.clsvar):
                raise self.err("self is reassigned", node)
            # kwargs.pop(k, default)
            if isinstance(value, ast.Call) and isinstance(value.func, ast.Attribute) and value.func.attr == "pop" \
                    and self.kwname and _is_name(value.func.value, self.kwname):
                if len(value.args) != 2 or value.keywords or not (isinstance(value.args[0], ast.Constant) and isinstance(value.args[0].value, str)):
                    raise self.err("kwargs.pop(<str literal>, <default>) expected: %s" % _d(value), node)
                dflt = value.args[1]
                if not isinstance(dflt, ast.Constant):
                    raise self.err("kwargs.pop: default must be a constant", node)
                d = "none" if dflt.value is None else "(some ())"
                kw = self.var(self.kwname, node)
                self.ntmp += 1
                k1 = "kw%d" % self.ntmp
                if name in self.env:
                    raise self.err("`%s` is already bound" % name, node)
                self.env[name] = Var(lname(name), ("opt", "any"))
                return ["%slet (%s, %s) := pyKwPop %s %s %s" % (ind, lname(name), k1, kw.lean, lean_str(value.args[0].value), d),
                        "%s%s := %s" % (ind, kw.lean, k1)]
            # self.__files__.pop()
            if isinstance(value, ast.Call) and isinstance(value.func, ast.Attribute) and value.func.attr == "pop" \
                    and self.is_files(value.func.value):
                self.args_of(value, 0)
                if name in self.env:
                    raise self.err("`%s` is already bound" % name, node)
                obj = self.selfobj()
                self.ntmp += 1
                l1 = "l%d" % self.ntmp
                out = self.flush(["%slet (%s, %s) ← pyLift (pyPop %s.files)" % (ind, lname(name), l1, obj),
                                  "%spySetFiles %s" % (ind, l1)], ind)
                self.files_changed()
                self.env[name] = Var(lname(name), "h5")
                return out
            v = self.ex(value)
            if v.ty == "unit":
                raise self.err("the result None of a call is assigned to `%s`" % name, node)
            if v.ty == "emptydict":
                raise self.err("`%s = {}` without a type" % name, node)
            t = self.last_lift_text(v) if v.alias is None else None
            if t is not None:
                line = self.bind(name, v, ind, monadic_text=t)
                out = self.flush([line], ind)
                self.after_effects(t)
                return out
            line = self.bind(name, v, ind)
            return self.flush([line], ind)
        # ---- self.attr = e
        if isinstance(tgt, ast.Attribute) and self.is_self(tgt.value):
            v = self.ex(value)
            if self.is_files(tgt):
                v = self.coerce(v, ("list", "h5"), node) if v.ty != "emptylist" else Val("([] : List H5)", ("list", "h5"))
                out = self.flush(["%spySetFiles %s" % (ind, v.lean)], ind)
                self.files_changed()
                return out
            if tgt.attr == "_closed":
                return self.flush(["%spySetClosed %s" % (ind, self.coerce(v, "bool", node).lean)], ind)
            if tgt.attr == "_manifest":
                if self.narrowed and "_manifest" in self.narrowed:
                    raise self.err("self._manifest is assigned where its earlier value is still in use", node)
                return self.flush(["%spySetManifest %s" % (ind, self.coerce(v, ("opt", "mf"), node).lean)], ind)
            raise self.err("assignment to self.%s is not in the dictionary" % tgt.attr, node)
        # ---- self.__files__[k] = e / self._ublocks[k] = e
        if isinstance(tgt, ast.Subscript) and self.is_files(tgt.value):
            v = self.coerce(self.ex(value), "h5", node)
            k = self.coerce(self.ex(tgt.slice), "int", node)
            obj = self.selfobj()
            l = self.lift("pyLift (pySetIdx %s.files %s %s)" % (obj, k.lean, v.lean), False)
            out = self.flush(["%spySetFiles %s" % (ind, l)], ind)
            self.files_changed()
            return out
        if isinstance(tgt, ast.Subscript) and self.is_ublocks(tgt.value):
            v = self.coerce(self.ex(value), "ub", node)
            k = self.coerce(self.ex(tgt.slice), "name", node)
            obj = self.selfobj()
            self.stored_block_mutated()
            return self.flush(["%spySetUblocks (pyDictSet %s.ublocks %s %s)" % (ind, obj, k.lean, v.lean)], ind)
        # ---- self._ublocks[k].field = e
        if isinstance(tgt, ast.Attribute) and isinstance(tgt.value, ast.Subscript) and self.is_ublocks(tgt.value.value):
            if tgt.attr not in UB_FIELDS:
                raise self.err("field `%s` of a user block" % tgt.attr, node)
            fld, ty = UB_FIELDS[tgt.attr]
            v = self.coerce(self.ex(value), ty, node)       # the right-hand side first
            if "\x01" in v.lean or True:
                v = Val(self.lift("pure %s" % v.lean, True), ty)
            k = self.coerce(self.ex(tgt.value.slice), "name", node)
            obj = self.selfobj()
            u = self.lift("pyLift (pyDictGet %s.ublocks %s)" % (obj, k.lean), False)
            obj2 = self.selfobj()
            self.stored_block_mutated()
            return self.flush(["%spySetUblocks (pyDictSet %s.ublocks %s { %s with %s := %s })" % (ind, obj2, k.lean, u, fld, v.lean)], ind)
        # ---- x.field = e for a local
        if isinstance(tgt, ast.Attribute) and isinstance(tgt.value, ast.Name) and tgt.value.id in self.env:
            var = self.var(tgt.value.id, node)
            v = self.ex(value)
            if var.ty == "mf" and tgt.attr == "manifest_exts":
                if v.ty != ("opt", "any"):
                    v = self.coerce(v, ("opt", "any"), node)
                return self.flush(["%s%s := pyMfWithExts %s %s" % (ind, var.lean, var.lean, v.lean)], ind)
            if var.ty == "ub" and tgt.attr in UB_FIELDS:
                if var.key is not None:
                    raise self.err("`%s` is changed in place while it is (an alias of) a user block stored in the record" % tgt.value.id, node)
                fld, ty = UB_FIELDS[tgt.attr]
                return self.flush(["%s%s := { %s with %s := %s }" % (ind, var.lean, var.lean, fld, self.coerce(v, ty, node).lean)], ind)
            raise self.err("assignment to `.%s` of a %s" % (tgt.attr, var.ty), node)
        raise self.err("assignment target not understood: %s" % _d(tgt), node)

    # ------------------------------------------------------------------ the definition
    def render(self):
        ind = "  "
        params = "".join(" (%s : %s)" % (n, lty(t)) for n, t in self.params)
        doc = "/-- `%s` (%s, l. %d-%d) -/" % (self.qual, self.gen.file_of(self.clsname), self.fn.lineno, self.fn.end_lineno)
        if self.kind == "pure":
            # a single return of a pure expression
            b = _body(self.fn)
            if len(b) != 1 or not isinstance(b[0], ast.Return) or b[0].value is None:
                raise self.err("expected a single `return <expression>`")
            self.lifts = []
            v = self.coerce(self.ex(b[0].value), self.ret_ty, b[0])
            if self.lifts:
                raise self.err("a pure function reads the record object")
            return "%s\ndef %s%s : %s :=\n  %s\n" % (doc, self.lean_name, params, lty(self.ret_ty), v.lean)
        pre = []
        for n, v in list(self.env.items()):
            if v.param and n in self.mutable:
                pre.append("%slet mut %s := %s" % (ind, v.lean, v.lean))
        body = self.block(_body(self.fn), ind)
        if self.lifts:
            raise self.err("internal: unflushed temporaries")
        lines = pre + body
        if not lines or (self.ret_ty == "unit" and not lines[-1].strip().startswith(("return", "throw"))
                         and lines[-1].strip() in ("",)):
            lines.append(ind + "pure ()")
        if not lines:
            lines = [ind + "pure ()"]
        return "%s\ndef %s%s : PatchM (%s) := do\n%s\n" % (doc, self.lean_name, params, lty(self.ret_ty), "\n".join(lines))


# =========================================================================== byte level: IH5UserBlock.save
class SaveFn:
    """`IH5UserBlock.save` over the byte-level model (Py/UBSavePy.lean)"""

    def __init__(self, gen, fnode):
        self.gen, self.fn = gen, fnode
        a = fnode.args
        names = [x.arg for x in a.args]
        if a.vararg or a.kwarg or a.kwonlyargs or a.posonlyargs or a.defaults or len(names) != 2 or _decorators(fnode):
            raise self.err("expected the signature save(self, filename)")
        self.selfname, self.filename = names
        self.env = {}        # local -> lean name (all of type Bytes)
        self.fvar = None     # name bound by `with open(..) as f`

    def err(self, what, node=None):
        where = " (line %d)" % node.lineno if node is not None and hasattr(node, "lineno") else ""
        return TranslateError("IH5UserBlock.save%s: %s" % (where, what))

    def bytes_lit(self, b):
        if not b:
            return "([] : Bytes)"
        return "[" + ", ".join(("'%s'" % chr(x)) if (48 <= x < 58 or 65 <= x < 91 or 97 <= x < 123) else "Char.ofNat %d" % x for x in b) + "]"

    def nat(self, e):
        if isinstance(e, ast.Constant) and isinstance(e.value, int) and not isinstance(e.value, bool) and e.value >= 0:
            return "%d" % e.value
        if isinstance(e, ast.Name) and e.id in self.gen.mod_consts and isinstance(self.gen.mod_consts[e.id], int):
            self.gen.used_consts.add(e.id)
            return e.id
        if isinstance(e, ast.Call) and _is_name(e.func, "len") and len(e.args) == 1 and not e.keywords:
            return "%s.length" % self.bytes(e.args[0])
        raise self.err("number not understood: %s" % _d(e), e)

    def bytes(self, e):
        if isinstance(e, ast.Constant) and isinstance(e.value, bytes):
            return self.bytes_lit(e.value)
        if isinstance(e, ast.Constant) and isinstance(e.value, str):
            return lean_str(e.value) if e.value else "([] : Bytes)"
        if isinstance(e, ast.Name):
            if e.id in self.env:
                return self.env[e.id]
            if e.id in self.gen.mod_consts and isinstance(self.gen.mod_consts[e.id], str):
                self.gen.used_consts.add(e.id)
                return e.id
            raise self.err("name `%s` is not understood" % e.id, e)
        if isinstance(e, ast.JoinedStr):
            parts = []
            for p in e.values:
                if isinstance(p, ast.Constant) and isinstance(p.value, str):
                    if p.value:
                        parts.append("[" + ", ".join("'\\n'" if c == "\n" else lean_str(c)[1:-1] for c in p.value) + "]")
                elif isinstance(p, ast.FormattedValue) and p.conversion == -1 and p.format_spec is None:
                    parts.append(self.fpart(p.value))
                else:
                    raise self.err("f-string part not understood: %s" % _d(p), e)
            return "(" + " ++ ".join(parts or ["([] : Bytes)"]) + ")"
        if isinstance(e, ast.Call) and isinstance(e.func, ast.Attribute) and e.func.attr == "encode":
            ok = (len(e.args) == 1 and isinstance(e.args[0], ast.Constant) and str(e.args[0].value).lower().replace("-", "") == "utf8"
                  and not e.keywords) or (not e.args and not e.keywords)
            if not ok:
                raise self.err("encode(..) with something else than utf-8", e)
            return "(pyEncode %s)" % self.bytes(e.func.value)
        if isinstance(e, ast.Call) and isinstance(e.func, ast.Attribute) and e.func.attr == "json" \
                and _is_name(e.func.value, self.selfname) and not e.args and not e.keywords:
            return "(render self)"
        if isinstance(e, ast.BinOp) and isinstance(e.op, ast.Add):
            return "(%s ++ %s)" % (self.bytes(e.left), self.bytes(e.right))
        raise self.err("text not understood: %s" % _d(e), e)

    def fpart(self, e):
        if isinstance(e, ast.Attribute) and _is_name(e.value, self.selfname) and e.attr == "_userblock_size":
            return "pyStrNat self__userblock_size"
        return self.bytes(e)

    def cond(self, e):
        if isinstance(e, ast.Compare) and len(e.ops) == 1:
            op, l, r = e.ops[0], e.left, e.comparators[0]
            if isinstance(op, (ast.Eq, ast.NotEq)):
                t = "(%s == %s)" % (self.bytes(l), self.bytes(r))
                return t if isinstance(op, ast.Eq) else "(!%s)" % t
            sym = {ast.Lt: "<", ast.LtE: "≤", ast.Gt: ">", ast.GtE: "≥"}.get(type(op))
            if sym:
                return "(decide (%s %s %s))" % (self.nat(l), sym, self.nat(r))
        if isinstance(e, ast.UnaryOp) and isinstance(e.op, ast.Not):
            return "(!%s)" % self.cond(e.operand)
        raise self.err("condition not understood: %s" % _d(e), e)

    def block(self, stmts, ind, in_file):
        out = []
        for s in stmts:
            if isinstance(s, ast.Pass) or (isinstance(s, ast.Expr) and isinstance(s.value, ast.Constant)):
                continue
            if isinstance(s, (ast.Assign, ast.AnnAssign)):
                tgt = s.targets[0] if isinstance(s, ast.Assign) and len(s.targets) == 1 else getattr(s, "target", None)
                if not isinstance(tgt, ast.Name):
                    raise self.err("assignment not understood: %s" % _d(s), s)
                v = s.value
                if tgt.id == self.filename:
                    if isinstance(v, ast.Call) and _is_name(v.func, "Path") and len(v.args) == 1 and _is_name(v.args[0], self.filename):
                        continue   # `filename = Path(filename)`: the same file
                    raise self.err("the file name is changed: %s" % _d(s), s)
                if tgt.id in self.env:
                    raise self.err("`%s` is assigned twice" % tgt.id, s)
                if in_file and isinstance(v, ast.Call) and isinstance(v.func, ast.Attribute) and v.func.attr == "read" \
                        and _is_name(v.func.value, self.fvar) and len(v.args) == 1 and not v.keywords:
                    out.append("%slet %s ← fRead %s" % (ind, lname(tgt.id), self.nat(v.args[0])))
                else:
                    out.append("%slet %s : Bytes := %s" % (ind, lname(tgt.id), self.bytes(v)))
                self.env[tgt.id] = lname(tgt.id)
                continue
            if isinstance(s, ast.Assert):
                out.append("%sif (!%s) then" % (ind, self.cond(s.test)))
                out.append("%s  throw SaveErr.tooLong" % ind)
                continue
            if isinstance(s, ast.If) and not s.orelse and len(s.body) == 1 and isinstance(s.body[0], ast.Raise):
                exc = s.body[0].exc
                exc = exc.func if isinstance(exc, ast.Call) else exc
                if not _is_name(exc, "ValueError"):
                    raise self.err("raise not understood: %s" % _d(s.body[0]), s)
                out.append("%sif %s then" % (ind, self.cond(s.test)))
                out.append("%s  throw SaveErr.noUserBlock" % ind)
                continue
            if isinstance(s, ast.With) and not in_file:
                if len(s.items) != 1 or not isinstance(s.items[0].optional_vars, ast.Name):
                    raise self.err("with statement not understood", s)
                c = s.items[0].context_expr
                ok = isinstance(c, ast.Call) and _is_name(c.func, "open") and len(c.args) == 2 and not c.keywords \
                    and _is_name(c.args[0], self.filename) and isinstance(c.args[1], ast.Constant) and c.args[1].value in ("r+b", "rb+")
                if not ok:
                    raise self.err("expected `with open(filename, \"r+b\") as f:`, found %s" % _d(c), s)
                self.fvar = s.items[0].optional_vars.id
                inner = self.block(s.body, ind + "  ", True)
                self.fvar = None
                if not inner:
                    inner = [ind + "  pure ()"]
                out.append("%spyWithOpen (do" % ind)
                out += inner[:-1] + [inner[-1] + ")"]
                continue
            if in_file and isinstance(s, ast.Expr) and isinstance(s.value, ast.Call) and isinstance(s.value.func, ast.Attribute) \
                    and _is_name(s.value.func.value, self.fvar) and len(s.value.args) == 1 and not s.value.keywords:
                m = s.value.func.attr
                if m == "seek":
                    out.append("%sfSeek %s" % (ind, self.nat(s.value.args[0])))
                    continue
                if m == "write":
                    out.append("%sfWrite %s" % (ind, self.bytes(s.value.args[0])))
                    continue
            raise self.err("statement not understood: %s" % _d(s).split("\n")[0], s)
        return out

    def render(self):
        lines = self.block(_body(self.fn), "  ", False) or ["  pure ()"]
        doc = "/-- `IH5UserBlock.save` (%s, l. %d-%d), byte level -/" % (REC, self.fn.lineno, self.fn.end_lineno)
        return "%s\ndef IH5UserBlock.save (self : UBT) (self__userblock_size : Nat) : SaveM Unit := do\n%s\n" % (doc, "\n".join(lines))


# =========================================================================== the generator
class Gen:
    def __init__(self):
        self.rec = _src(REC)
        self.mfs = _src(MFS)
        self.classes = {"IH5UserBlock": find_class(self.rec, "IH5UserBlock"), "IH5Record": find_class(self.rec, "IH5Record"),
                        "IH5MFRecord": find_class(self.mfs, "IH5MFRecord")}
        self.mod_consts = {}
        for n, v in class_consts(self.rec).items():
            if isinstance(v, ast.Constant) and isinstance(v.value, (int, str)) and not isinstance(v.value, bool):
                self.mod_consts[n] = v.value
        self.used_consts = set()
        self.used_class_consts = {}
        self.needed = []
        bases = [_d(b) for b in self.classes["IH5MFRecord"].bases]
        if bases != ["IH5Record"]:
            raise TranslateError("IH5MFRecord: expected the single base class IH5Record, found %s" % bases)
        for n in self.classes["IH5MFRecord"].body:
            if isinstance(n, ast.FunctionDef) and n.name in NO_OVERRIDE:
                raise TranslateError("IH5MFRecord overrides `%s`: not understood (only commit_patch may be overridden)" % n.name)
        for n in self.classes["IH5MFRecord"].body + self.classes["IH5Record"].body:
            if isinstance(n, ast.FunctionDef) and n.name in ("__getattribute__", "__getattr__", "__setattr__"):
                raise TranslateError("%s is defined: attribute access is not what it looks like" % n.name)

    # ---- look-ups used by the function translators
    def file_of(self, clsname):
        return MFS if clsname == "IH5MFRecord" else REC

    def base_of(self, clsname):
        return "IH5Record" if clsname == "IH5MFRecord" else None

    def self_classes(self, clsname):
        return ["IH5MFRecord", "IH5Record"] if clsname == "IH5MFRecord" else [clsname]

    def need(self, key):
        if key not in self.needed:
            self.needed.append(key)

    def const(self, name, node):
        v = self.mod_consts[name]
        self.used_consts.add(name)
        if isinstance(v, int):
            if v < 0:
                raise TranslateError("negative constant %s" % name)
            return Val(name, "nat")
        return Val(name, "str")

    def class_const(self, clsname, attr, node):
        for cls in self.self_classes(clsname):
            consts = class_consts(self.classes[cls])
            if attr in consts:
                v = consts[attr]
                if isinstance(v, ast.Constant) and isinstance(v.value, str):
                    self.used_class_consts[attr] = v.value
                    return Val(attr, "str")
                raise TranslateError("%s.%s: constant not understood: %s" % (cls, attr, _d(v)))
        raise TranslateError("%s: class attribute `%s` is not in the dictionary" % (clsname, attr))

    def param_names(self, key):
        fn = find_method(self.classes[key[0]], key[1])
        return [a.arg for a in fn.args.args][1:]

    def param_defaults(self, key):
        fn = find_method(self.classes[key[0]], key[1])
        return list(fn.args.defaults)

    def ub_default(self, py_field):
        for n in self.classes["IH5UserBlock"].body:
            if isinstance(n, ast.AnnAssign) and isinstance(n.target, ast.Name) and n.target.id == py_field:
                return n.value
        return None

    def ub_size_default(self):
        """`_userblock_size: int = PrivateAttr(default=USER_BLOCK_SIZE)`"""
        for n in self.classes["IH5UserBlock"].body:
            if isinstance(n, ast.AnnAssign) and isinstance(n.target, ast.Name) and n.target.id == "_userblock_size":
                v = n.value
                if isinstance(v, ast.Call) and _is_name(v.func, "PrivateAttr") and not v.args and len(v.keywords) == 1 \
                        and v.keywords[0].arg == "default":
                    d = v.keywords[0].value
                    if isinstance(d, ast.Name) and isinstance(self.mod_consts.get(d.id), int):
                        self.used_consts.add(d.id)
                        return d.id
                    if isinstance(d, ast.Constant) and isinstance(d.value, int) and d.value >= 0:
                        return "%d" % d.value
                raise TranslateError("IH5UserBlock._userblock_size: default not understood: %s" % _d(v))
        raise TranslateError("IH5UserBlock._userblock_size not found")

    # ---- output
    def const_defs(self, names, bytes_ns=False):
        out = []
        for n in sorted(names):
            v = self.mod_consts[n]
            if isinstance(v, int):
                out.append("/-- `%s` (%s) -/\ndef %s : Nat := %d\n" % (n, REC, n, v))
            else:
                out.append("/-- `%s` (%s) -/\ndef %s : %s := %s\n" % (n, REC, n, "List Char" if bytes_ns else "Str", lean_str(v)))
        return out

    def generate(self):
        defs = {}
        errors = []
        for key in ORDER:
            if key == "dispatch_commit_patch":
                continue
            cls, name = key
            try:
                fn = FnT(self, cls, find_method(self.classes[cls], name), SIGS[key])
                if name == "close" and fn.defaults != ["True"]:
                    raise fn.err("expected the default commit=True, found %s" % fn.defaults)
                defs[key] = fn.render()
            except TranslateError as e:
                errors.append(str(e))
        defs["dispatch_commit_patch"] = (
            "/-- `self.commit_patch(**kw)`: the method of the class of the object (`IH5MFRecord(IH5Record)` overrides it) -/\n"
            "def dispatch_commit_patch (kwargs : Kw) : PatchM (Unit) := do\n"
            "  if (← pySelf).mfcls then IH5MFRecord.commit_patch kwargs else IH5Record.commit_patch kwargs\n")
        if ("IH5MFRecord", "commit_patch") not in defs or ("IH5Record", "commit_patch") not in defs:
            defs.pop("dispatch_commit_patch")
        rec_consts = set(self.used_consts)
        # byte level
        self.used_consts = set()
        save = None
        try:
            save = SaveFn(self, find_method(self.classes["IH5UserBlock"], "save")).render()
            size_default = self.ub_size_default()
        except TranslateError as e:
            errors.append(str(e))
            size_default = None
        out = [HEADER]
        out += self.const_defs(rec_consts)
        for attr, v in sorted(self.used_class_consts.items()):
            out.append("/-- `IH5MFRecord.%s` (%s) -/\ndef %s : Str := %s\n" % (attr, MFS, attr, lean_str(v)))
        # a definition is written only if everything it calls was translated
        ok = set()
        for key in ORDER:
            if key not in defs:
                continue
            text = defs[key]
            missing = [SIGS[k][0] if k != "dispatch_commit_patch" else k for k in ORDER
                       if k not in ok and k != key and ((SIGS[k][0] if k != "dispatch_commit_patch" else k) + " ") in text.replace(")", " ").replace("\n", " ")]
            missing = [m for m in missing if m not in [SIGS[k][0] if k != "dispatch_commit_patch" else k for k in ok]]
            if missing:
                errors.append("%s: left out because %s could not be translated" % (key if isinstance(key, str) else ".".join(key), ", ".join(missing)))
                continue
            ok.add(key)
            out.append(text)
        out.append("end MetadorModel.Gen.PatchSteps\n")
        out.append(HEADER_BYTES)
        out += self.const_defs(self.used_consts, bytes_ns=True)
        if size_default is not None:
            out.append("/-- default of `IH5UserBlock._userblock_size` (`PrivateAttr(default=…)`) -/\n"
                       "def IH5UserBlock._userblock_size_default : Nat := %s\n" % size_default)
        if save is not None:
            out.append(save)
        out.append("end MetadorModel.Gen.PatchSteps.Bytes\n")
        return "\n".join(out), errors, sorted(ok, key=str)


def gen_patchsteps():
    """Lean text of Gen/PatchSteps.lean for the current source, and the list of what could not be translated"""
    g = Gen()
    return g.generate()


def gen_path(lean):
    return os.path.join(lean.LEAN, *GEN_REL)


def write(lean):
    """regenerate Gen/PatchSteps.lean; raises TranslateError (after writing what could be translated) if something
    was not understood"""
    text, errors, ok = gen_patchsteps()
    changed = lean.write_if_changed(gen_path(lean), text)
    if errors:
        raise TranslateError("; ".join(errors))
    return "Gen/PatchSteps.lean %s: %d definitions from %s, %s" % ("rewritten" if changed else "unchanged", len(ok) + 1, REC, MFS)


def write_stub(lean, why):
    text = HEADER + "-- translation failed: %s\nend MetadorModel.Gen.PatchSteps\n" % why.replace("\n", " ")[:300]
    lean.write_if_changed(gen_path(lean), text)


if __name__ == "__main__":
    import sys
    t, errs, ok = gen_patchsteps()
    sys.stdout.write(t)
    for e in errs:
        sys.stderr.write("TranslateError: %s\n" % e)
