import MetadorModel.Py.DrvLib
import MetadorModel.Model.Diff
/-! Driver for the directory-diff model (C18).

`cmp <tree> <tree>` (prefix notation: `F <hex>` | `D <n> (<keyhex> <tree>)*n`, keys sorted)
answers `empty T|F`; `nodes` lists the nodes in order as `path|status|prev|curr`;
`get <path>` answers `get none` or `get <node>`; `apply` runs the in-order simulator. -/
open MetadorModel MetadorModel.Diff MetadorModel.Drv

partial def parseTree : List String → Option (DirTree × List String)
  | "F" :: h :: rest => (unhexStr h).map (fun s => (.file s, rest))
  | "D" :: n :: rest =>
    match n.toNat? with
    | none => none
    | some n =>
      let rec go (n : Nat) (acc : List (String × DirTree)) (toks : List String) : Option (DirTree × List String) :=
        match n with
        | 0 => some (.dir acc.reverse, toks)
        | n + 1 =>
          match toks with
          | kh :: rest =>
            match unhexStr kh, parseTree rest with
            | some k, some (t, rest') => go n ((k, t) :: acc) rest'
            | _, _ => none
          | [] => none
      go n [] rest
  | _ => none

partial def showTree : DirTree → String
  | .file s => "f:" ++ hexStr s
  | .dir es => "d{" ++ ",".intercalate (es.map fun (k, t) => hexStr k ++ "=" ++ showTree t) ++ "}"

def showOpt : Option DirTree → String
  | none => "-"
  | some t => showTree t

def showPath (p : Path) : String :=
  if p.isEmpty then "." else "/".intercalate (p.map hexStr)

def parsePath (s : String) : Option Path :=
  if s == "." then some [] else (s.splitOn "/").mapM unhexStr

def showStatus : Status → String
  | .added => "+"
  | .removed => "-"
  | .modified => "~"
  | .invalid => "?"

def showRec (r : Rec) : String :=
  s!"{showPath r.path}|{showStatus r.status}|{showOpt r.prev}|{showOpt r.curr}"

structure St where
  a : Option DirTree := none
  b : Option DirTree := none
  d : Option DNode := none

partial def treeEq : DirTree → DirTree → Bool
  | .file s, .file s' => s == s'
  | .dir es, .dir fs => es.length == fs.length && (es.zip fs).all fun ((k, t), (k', t')) => k == k' && treeEq t t'
  | _, _ => false

def step (s : St) : List String → St × String
  | "cmp" :: rest =>
    match parseTree rest with
    | some (a, rest') =>
      match parseTree rest' with
      | some (b, []) =>
        if a.wf && b.wf then
          let d := compare a b
          ({ a := some a, b := some b, d := d }, "empty " ++ (if d.isNone then "T" else "F"))
        else (s, "bad-op")
      | _ => (s, "bad-op")
    | none => (s, "bad-op")
  | ["nodes"] =>
    match s.a with
    | some _ => (s, " ".intercalate ("nodes" :: (nodesO s.d).map showRec))
    | none => (s, "bad-op")
  | ["get", p] =>
    match s.a, parsePath p with
    | some _, some p =>
      (s, match get s.d p with
          | none => "get none"
          | some n => "get " ++ showRec n.rec')
    | _, _ => (s, "bad-op")
  | ["apply"] =>
    match s.a, s.b with
    | some a, some b =>
      (s, match applyAll a (nodesO s.d) with
          | none => "apply fail"
          | some t => if treeEq t b then "apply ok" else "apply other")
    | _, _ => (s, "bad-op")
  | _ => (s, "bad-op")

def main : IO Unit := Drv.run ({} : St) step
