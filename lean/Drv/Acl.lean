import MetadorModel.Py.DrvLib
/-! Driver stub (to be filled in). -/
open MetadorModel

def step (s : Unit) : List String → Unit × String
  | _ => (s, "bad-op")

def main : IO Unit := Drv.run () step
