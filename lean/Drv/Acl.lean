import MetadorModel.Py.DrvLib
import MetadorModel.Model.Acl
/-! Driver for the node-restriction model (C15). Paths are hex-encoded absolute / relative
`/`-separated strings, flags a subset of the letters `r` (read_only) `l` (local_only)
`s` (skel_only) or `-`.

```
table <current|legacy>          select the guard table                      -> ok
node <abs> <g|d>                add a node to the fixed tree                -> ok
start <abs> <flags>             start wrapper (no remembered parent)        -> ok
chain <step>…                   steps: c:<prim>:<rel>  a:<prim>:<abs>  p  r:<flags>
                                -> per step `<abs>|<flags>|<n remembered parents>` or `err:<u|v|o>`
ops <op>…                       ACL verdict per operation on the node the last chain reached
                                (`am:<m>` = attribute-manager method) -> string of R (refused) / P
```
-/
open MetadorModel MetadorModel.Acl MetadorModel.Drv

structure St where
  table : AclTable := currentTable
  tree : Tree := []
  start : Option Wrapper := none
  cur : Option Wrapper := none

def segs (s : String) : Path := (s.splitOn "/").filter (· ≠ "")

def parsePath (h : String) : Option Path := (unhexStr h).map segs

def parseFlags (s : String) : Option Flags :=
  if s == "-" then some {}
  else if s.toList.all (fun c => c == 'r' || c == 'l' || c == 's') then
    some ⟨s.toList.contains 'r', s.toList.contains 'l', s.toList.contains 's'⟩
  else none

def showFlags (f : Flags) : String :=
  let s := (if f.ro then "r" else "") ++ (if f.loc then "l" else "") ++ (if f.skel then "s" else "")
  if s.isEmpty then "-" else s

def showPath (p : Path) : String := hexStr ("/" ++ "/".intercalate p)

def parsePrim : String → Option Prim
  | "getitem" => some .getitem | "get" => some .get | "items" => some .items
  | "values" => some .values | "keys" => some .keys | "iter" => some .iter
  | "visititems" => some .visititems | "query" => some .query
  | "require_group" => some .requireGroup | "require_dataset" => some .requireDataset
  | _ => none

def parseStep (tok : String) : Option Step :=
  match tok.splitOn ":" with
  | ["p"] => some .parent
  | ["r", f] => (parseFlags f).map .restrict
  | ["c", p, rel] => do
    let p ← parsePrim p
    let rel ← parsePath rel
    pure (.child p rel)
  | ["a", p, path] => do
    let p ← parsePrim p
    let path ← parsePath path
    pure (.abs p path)
  | _ => none

def parseSteps : List String → Option (List Step)
  | [] => some []
  | t :: ts => do
    let s ← parseStep t
    let r ← parseSteps ts
    pure (s :: r)

def showErr : NavErr → String
  | .unsupported => "err:u" | .value => "err:v" | .other => "err:o"

def showW (w : Wrapper) : String := s!"{showPath w.path}|{showFlags w.flags}|{w.lps.length}"

def runChain (t : AclTable) (T : Tree) : List Step → Wrapper → List String → List String × Option Wrapper
  | [], w, acc => (acc.reverse, some w)
  | s :: ss, w, acc =>
    match Acl.step t T w s with
    | .error e => ((showErr e :: acc).reverse, none)
    | .ok w' => runChain t T ss w' (showW w' :: acc)

def opLetter (t : AclTable) (T : Tree) (w : Wrapper) (op : String) : Char :=
  if op.startsWith "abs:" then (if t.absGuardLocal && w.flags.loc then 'V' else 'P')
  else if op.startsWith "am:" then
    (if t.attrMethodRefused w.flags (op.drop 3).toString then 'R' else 'P')
  else (if t.refusesOn (T.kind w.path != some false) op w.flags then 'R' else 'P')

def step (s : St) : List String → St × String
  | ["table", "current"] => ({ s with table := currentTable }, "ok")
  | ["table", "legacy"] => ({ s with table := Legacy.table }, "ok")
  | ["table", "legacy-fallback"] => ({ s with table := Legacy.tableFallback }, "ok")
  | ["node", p, k] =>
    match parsePath p, k with
    | some p, "g" => ({ s with tree := s.tree ++ [(p, true)] }, "ok")
    | some p, "d" => ({ s with tree := s.tree ++ [(p, false)] }, "ok")
    | _, _ => (s, "bad-op")
  | ["start", p, f] =>
    match parsePath p, parseFlags f with
    | some p, some f => ({ s with start := some ⟨p, f, []⟩, cur := some ⟨p, f, []⟩ }, "ok")
    | _, _ => (s, "bad-op")
  | "chain" :: toks =>
    match s.start, parseSteps toks with
    | some w, some steps =>
      let (out, cur) := runChain s.table s.tree steps w []
      ({ s with cur := cur }, if out.isEmpty then "-" else " ".intercalate out)
    | _, _ => (s, "bad-op")
  | "ops" :: ops =>
    match s.cur with
    | some w => (s, String.ofList (ops.map (opLetter s.table s.tree w)))
    | none => (s, "none")
  | _ => (s, "bad-op")

def main : IO Unit := Drv.run ({} : St) step
