import MetadorModel.Py.DrvLib
import MetadorModel.Model.Tree
import MetadorModel.Model.Overlay
import MetadorModel.Model.Merge
/-!
Driver for merge / stub on top of the overlay model (C05, C10).

    patch | set P VAL | grp P | del P | sattr P K VAL | dattr P K | copy S D | move S D
                              -> outcome of the overlay write path (ok | err)
    dump                      canonical user-visible tree of the current record
    merge                     replace the current record by its merged single container -> ok | err
    stub                      replace the current record by the stub of it (values `empty`) -> ok | err
    skel                      skeleton (paths, kinds, attribute names) of the current record
    ncont                     number of containers
    wf                        does the view satisfy the hypothesis `ViewReplayable` of the C05/C10 theorems
    save                      remember the current record
    restore                   go back to the remembered record
    graft                     put the newest container of the current record on top of the remembered
                              record and continue with that (a patch made on a stub applied to the real record)
    squash I J                replace the containers I..J (0 = oldest) of the current record by the merged
                              container of that run (`merge_files` on a file list opened with
                              `allow_baseless=True`, the result used in place of the run) -> ok | err
    guard FLAGS W             the refusal guard of `merge_files`: FLAGS = one character 0/1 per container
                              (is it a stub), W = 0/1 (is there an uncommitted container)
                              -> merge-allowed | refused-stub | refused-writable

Paths / keys hex-encoded, values opaque tokens (as in `Drv/Ov.lean`).
-/
open MetadorModel MetadorModel.Drv MetadorModel.Tree MetadorModel.Overlay MetadorModel.Merge

abbrev Val := String

def keyOk (k : String) : Bool :=
  !k.isEmpty && k != "." && k.toList.all (fun c => '!' ≤ c && c ≤ '~' && c != '@' && c != '/')

def valOk (v : String) : Bool :=
  !v.isEmpty && v.toList.all (fun c => c.isAlphanum || c == ':' || c == '.' || c == '_' || c == '+' || c == '-' || c == ',')

def parsePath (h : String) : Option Path := do
  let s ← unhexStr h
  if s == "/" then pure []
  else
    match s.splitOn "/" with
    | "" :: segs => if segs.all keyOk then pure segs else none
    | _ => none

def parseKey (h : String) : Option Key := do
  let s ← unhexStr h
  if keyOk s then pure s else none

def showPath (p : Path) : String := hexStr ("/" ++ "/".intercalate p)

def showEntry (e : Path × NKind Val × List (Key × Val)) : String :=
  let kd := match e.2.1 with
    | .group => "G"
    | .data v => "D=" ++ v
  showPath e.1 ++ ":" ++ kd ++ "[" ++ ",".intercalate (e.2.2.map (fun kv => hexStr kv.1 ++ "=" ++ kv.2)) ++ "]"

def showListing (l : List (Path × NKind Val × List (Key × Val))) : String :=
  ";".intercalate (l.map showEntry)

def showSkel (l : List (Path × Bool × List Key)) : String :=
  ";".intercalate (l.map fun e => showPath e.1 ++ ":" ++ (if e.2.1 then "G" else "D") ++ "[" ++ ",".intercalate (e.2.2.map hexStr) ++ "]")

def parseFlags : List Char → Option (List Bool)
  | [] => some []
  | '0' :: cs => (parseFlags cs).map (false :: ·)
  | '1' :: cs => (parseFlags cs).map (true :: ·)
  | _ => none

structure St where
  cur : Rec Val := Rec.init
  saved : Rec Val := Rec.init

def wr (s : St) (op : Op Val) : St × String :=
  match W.step s.cur op with
  | .ok r => ({ s with cur := r }, "ok")
  | .error _ => (s, "err")

def step (s : St) : List String → St × String
  | ["patch"] => wr s .patch
  | ["set", p, v] =>
    match parsePath p, valOk v with
    | some p, true => wr s (.set p v)
    | _, _ => (s, "bad-op")
  | ["grp", p] =>
    match parsePath p with
    | some p => wr s (.grp p)
    | none => (s, "bad-op")
  | ["del", p] =>
    match parsePath p with
    | some p => wr s (.del p)
    | none => (s, "bad-op")
  | ["sattr", p, k, v] =>
    match parsePath p, parseKey k, valOk v with
    | some p, some k, true => wr s (.sattr p k v)
    | _, _, _ => (s, "bad-op")
  | ["dattr", p, k] =>
    match parsePath p, parseKey k with
    | some p, some k => wr s (.dattr p k)
    | _, _ => (s, "bad-op")
  | ["copy", a, b] =>
    match parsePath a, parsePath b with
    | some a, some b => wr s (.copy a b)
    | _, _ => (s, "bad-op")
  | ["move", a, b] =>
    match parsePath a, parsePath b with
    | some a, some b => if isPre a b then (s, "bad-op") else wr s (.move a b)
    | _, _ => (s, "bad-op")
  | ["dump"] => (s, "T " ++ showListing (Overlay.listing s.cur))
  | ["skel"] => (s, "S " ++ showSkel (skel (Overlay.listing s.cur)))
  | ["merge"] =>
    match mergeCont s.cur with
    | .ok m => ({ s with cur := m }, "ok")
    | .error _ => (s, "err")
  | ["stub"] =>
    match stubCont "empty" s.cur with
    | .ok m => ({ s with cur := m }, "ok")
    | .error _ => (s, "err")
  | ["wf"] => (s, if replayableB (Overlay.listing s.cur) then "wf T" else "wf F")
  | ["ncont"] => (s, s!"n {s.cur.length}")
  | ["save"] => ({ s with saved := s.cur }, "ok")
  | ["restore"] => ({ s with cur := s.saved }, "ok")
  | ["squash", i, j] =>
    match i.toNat?, j.toNat? with
    | some i, some j =>
      match squashRun s.cur i j with
      | some (.ok r) => ({ s with cur := r }, "ok")
      | some (.error _) => (s, "err")
      | none => (s, "bad-op")
    | _, _ => (s, "bad-op")
  | ["guard", flags, w] =>
    match parseFlags flags.toList, parseFlags w.toList with
    | some fl, some [wr] =>
      (s, match mergeGuard fl wr with
        | .ok () => "merge-allowed"
        | .error .stub => "refused-stub"
        | .error .writable => "refused-writable")
    | _, _ => (s, "bad-op")
  | ["graft"] =>
    match s.cur with
    | p :: _ => ({ s with cur := p :: s.saved }, "ok")
    | [] => (s, "err")
  | _ => (s, "bad-op")

def main : IO Unit := Drv.run ({} : St) step
