import MetadorModel.Py.DrvLib
import MetadorModel.Model.Paths
import MetadorModel.Model.PathsAlias
/-! Driver for the reserved-namespace model (C08). Strings are hex-encoded tokens.

```
int <p>            is_internal_path(p)                       -> T | F
intp <p> <pref>    is_internal_path(p, pref)                 -> T | F
mb <p>             is_meta_base_path(p)                      -> T | F
tm <p> <0|1>       to_meta_base_path(p, is_dataset)          -> hex
td <p>             to_data_node_path(p)                      -> hex
node <abs> <g|d>   plant a raw node                          -> ok
rop delete|copy|move <abs> [<abs>]   raw operation on the planted tree -> ok
keys <g>           sorted user-visible keys of group g       -> keys hex…
len <g>            len(group)                                -> len n
visit <g>          sorted names presented by visit           -> visit hex…
in <g> <p>         p in group                                -> T | F | rej
call <m> <p>…      path guards of a call with these path-typed arguments -> rej | pass
callv <m> <tok>…   the same with typed arguments: s<hex> str (or subclass), b<hex> bytes-like,
                   o<hex> any other type                      -> rej | pass
setv <kind> <tok>  group[tok] = value of kind soft|ext|hard|ref|regref (link / reference
                   classes) | dtype (numpy.dtype) | dtypeobj (h5py.Datatype) | refarr (array of references = data) | node
                                                              -> rej | pass
```
-/
open MetadorModel MetadorModel.Paths MetadorModel.Drv

def b2s (b : Bool) : String := if b then "T" else "F"

def unhexL (s : String) : Option Str := (unhexStr s).map String.toList

def hexL (s : Str) : String := hexStr (String.ofList s)

def sortStrs (l : List Str) : List String :=
  ((l.map String.ofList).toArray.qsort (· < ·)).toList

def showList (tag : String) (l : List Str) : String :=
  " ".intercalate (tag :: (sortStrs l).map hexStr)

def unhexAll : List String → Option (List Str)
  | [] => some []
  | a :: l => do
    let x ← unhexL a
    let r ← unhexAll l
    pure (x :: r)

/-- typed path token: first character `s` / `b` / `o`, then the hex text -/
def unTok (t : String) : Option PathVal :=
  match t.toList with
  | 's' :: r => (unhexL (String.ofList r)).map PathVal.str
  | 'b' :: r => (unhexL (String.ofList r)).map PathVal.bytes
  | 'o' :: r => (unhexL (String.ofList r)).map fun _ => PathVal.other
  | _ => none

def unTokAll : List String → Option (List PathVal)
  | [] => some []
  | a :: l => do
    let x ← unTok a
    let r ← unTokAll l
    pure (x :: r)

def setKind : String → Option SetVal
  | "soft" => some (.softLink [])
  | "ext" => some (.externalLink [])
  | "hard" => some .hardLink
  | "ref" => some .reference
  | "regref" => some .reference
  | "refarr" => some .data
  | "node" => some .node
  | "dtype" => some .namedType
  | "dtypeobj" => some .committedType
  | _ => none

def step (s : Raw) : List String → Raw × String
  | ["int", p] =>
    match unhexL p with
    | some p => (s, b2s (isInternalPath p))
    | none => (s, "bad-op")
  | ["intp", p, q] =>
    match unhexL p, unhexL q with
    | some p, some q => (s, b2s (isInternalPathP p q))
    | _, _ => (s, "bad-op")
  | ["mb", p] =>
    match unhexL p with
    | some p => (s, b2s (isMetaBasePath p))
    | none => (s, "bad-op")
  | ["tm", p, d] =>
    match unhexL p, d with
    | some p, "0" => (s, hexL (toMetaBasePath p false))
    | some p, "1" => (s, hexL (toMetaBasePath p true))
    | _, _ => (s, "bad-op")
  | ["td", p] =>
    match unhexL p with
    | some p => (s, hexL (toDataNodePath p))
    | none => (s, "bad-op")
  | ["node", p, k] =>
    match unhexL p, k with
    | some p, "g" => (s ++ [⟨p, true⟩], "ok")
    | some p, "d" => (s ++ [⟨p, false⟩], "ok")
    | _, _ => (s, "bad-op")
  | ["rop", "delete", a] =>
    match unhexL a with
    | some a => (applyRaw (.delete a) s, "ok")
    | none => (s, "bad-op")
  | ["rop", "copy", a, b] =>
    match unhexL a, unhexL b with
    | some a, some b => (applyRaw (.copy a b) s, "ok")
    | _, _ => (s, "bad-op")
  | ["rop", "move", a, b] =>
    match unhexL a, unhexL b with
    | some a, some b => (applyRaw (.move a b) s, "ok")
    | _, _ => (s, "bad-op")
  | ["keys", g] =>
    match unhexL g with
    | some g => (s, showList "keys" (keys s g))
    | none => (s, "bad-op")
  | ["len", g] =>
    match unhexL g with
    | some g => (s, s!"len {len s g}")
    | none => (s, "bad-op")
  | ["visit", g] =>
    match unhexL g with
    | some g => (s, showList "visit" (visit s g))
    | none => (s, "bad-op")
  | ["in", g, p] =>
    match unhexL g, unhexL p with
    | some g, some p =>
      (s, match Paths.contains false s g p with
          | .ok b => b2s b
          | .error _ => "rej")
    | _, _ => (s, "bad-op")
  | "call" :: _m :: args =>
    match unhexAll args with
    | some ps =>
      (s, match runGuards false false ps ((List.range ps.length).map Guard.path) with
          | .ok () => "pass"
          | .error _ => "rej")
    | none => (s, "bad-op")
  | "callv" :: _m :: args =>
    match unTokAll args with
    | some ps =>
      (s, match runGuardsV false false ps ((List.range ps.length).map Guard.path) with
          | .ok () => "pass"
          | .error _ => "rej")
    | none => (s, "bad-op")
  | ["setv", k, nm] =>
    match setKind k, unTok nm with
    | some v, some p =>
      (s, match setitemV (linkTypes ++ typeTypes) false false (fun (u : Unit) _ _ => .ok u) () p v with
          | .ok _ => "pass"
          | .error _ => "rej")
    | _, _ => (s, "bad-op")
  | _ => (s, "bad-op")

def main : IO Unit := Drv.run ([] : Raw) step
