import MetadorModel.Py.DrvLib
import MetadorModel.Model.Codec
import MetadorModel.Model.Subtype
/-!
Driver for the codec / subtype models (C12, C13, C20).

Terms: `atom` or `tag(term,...)`; atoms never contain `(`, `)`, `,` or blanks.
  types   bool int float str nes mime hash qhash dur unit qty lit(s:<hex>,i:<int>,T,F)
          opt(t) union(t,..) list(t) set(t) ann(t) model(Name)
  json    null true false i:<int> r:<hex of float repr> s:<hex> arr(j,..) obj(kv(<hex>,j),..)
  values  none true false i:<int> f:<hex> s:<hex> d:<hex> u:<hex> q:<hex> list(v,..) set(v,..)
          objv(Name,f(<hex>,v)..,c(<hex>,json)..,x(<hex>,json)..)
Lines:
  nf <dur|unit|qty> <hex in> <hex out | ! | !!>   graph of the library normalisers (! refused, !! raises)
  cls <Name> <allow|ignore|forbid> fld(<hex>,ty,req|opt,<json>|-).. const(<hex>,json)..   effective schema
  def <Name> <Parent|-> <extra|-> fld(<hex>,ty,<json>|-).. const(..).. ovr(<hex>).. mand(<hex>).. [constovr]
  build                                         class construction rules for the `def` table
  dec <ty> <json> | encdec <ty> <json> | acc <ty> <json> | enc <value> | sub <ty> <ty> | chk <Name>
  load <Name>                                   check_types without recheck: the marks of earlier loads stay
-/
open MetadorModel MetadorModel.Drv MetadorModel.Codec MetadorModel.Subtype

inductive Tree
  | atom (s : String)
  | node (tag : String) (kids : List Tree)
deriving Repr, Inhabited

/-- recursive descent with fuel; returns the tree and the rest of the input -/
def isStop (c : Char) : Bool := c == '(' || c == ')' || c == ','

mutual
def parseTree : Nat → List Char → Option (Tree × List Char)
  | 0, _ => none
  | fuel + 1, cs =>
    let head := cs.takeWhile (fun c => !isStop c)
    let rest := cs.dropWhile (fun c => !isStop c)
    match rest with
    | '(' :: ')' :: r => some (.node (String.ofList head) [], r)
    | '(' :: r =>
      match parseKids fuel r with
      | some (kids, r') => some (.node (String.ofList head) kids, r')
      | none => none
    | r => some (.atom (String.ofList head), r)
def parseKids : Nat → List Char → Option (List Tree × List Char)
  | 0, _ => none
  | fuel + 1, cs =>
    match parseTree fuel cs with
    | some (t, ',' :: r) =>
      match parseKids fuel r with
      | some (ts, r') => some (t :: ts, r')
      | none => none
    | some (t, ')' :: r) => some ([t], r)
    | _ => none
end

def parseTerm (s : String) : Option Tree :=
  match parseTree (s.length + 2) s.toList with
  | some (t, []) => some t
  | _ => none

def unhexL (s : String) : Option Str :=
  if s == "-" || s == "" then some [] else (unhex s.toList).map (fun l => l.map Char.ofNat)

def hexL (s : Str) : String := hex (s.map Char.toNat)

def afterColon (s : String) : String := String.ofList (s.toList.drop 2)

def parseInt? (s : String) : Option Int := intOfStr? s.toList

def parseLit : Tree → Option Lit
  | .atom "T" => some (.bool true)
  | .atom "F" => some (.bool false)
  | .atom a =>
    if a.startsWith "i:" then (parseInt? (afterColon a)).map .int
    else if a.startsWith "s:" then (unhexL (afterColon a)).map .str
    else none
  | _ => none

def allSome {α : Type} : List (Option α) → Option (List α)
  | [] => some []
  | some a :: r => (allSome r).map (a :: ·)
  | none :: _ => none

/-- types with name-only schema references -/
partial def parseTy : Tree → Option Ty
  | .atom "bool" => some .bool
  | .atom "int" => some .int
  | .atom "float" => some .float
  | .atom "str" => some .str
  | .atom "nes" => some (.cstr .nes)
  | .atom "mime" => some (.cstr .mime)
  | .atom "hash" => some (.cstr .hash)
  | .atom "qhash" => some (.cstr .qhash)
  | .atom "dur" => some (.opq .dur)
  | .atom "unit" => some (.opq .unit)
  | .atom "qty" => some (.opq .qty)
  | .node "lit" ks => (allSome (ks.map parseLit)).map .lit
  | .node "opt" [t] => (parseTy t).map .opt
  | .node "list" [t] => (parseTy t).map .list
  | .node "set" [t] => (parseTy t).map .set
  | .node "ann" [t] => (parseTy t).map .ann
  | .node "union" ks => (allSome (ks.map parseTy)).map .union
  | .node "model" [.atom n] => some (.model n.toList .allow [] [])
  | _ => none

partial def parseJson : Tree → Option Json
  | .atom "null" => some .null
  | .atom "true" => some (.bool true)
  | .atom "false" => some (.bool false)
  | .atom a =>
    if a.startsWith "i:" then (parseInt? (afterColon a)).map .int
    else if a.startsWith "r:" then (unhexL (afterColon a)).map .float
    else if a.startsWith "s:" then (unhexL (afterColon a)).map .str
    else none
  | .node "arr" ks => (allSome (ks.map parseJson)).map .arr
  | .node "obj" ks =>
    (allSome (ks.map (fun k => match k with
      | .node "kv" [.atom h, v] =>
        match unhexL h, parseJson v with
        | some key, some j => some (key, j)
        | _, _ => none
      | _ => none))).map .obj
  | _ => none

def parseKV (k : Tree) : Option (Str × Json) :=
  match k with
  | .node _ [.atom h, v] =>
    match unhexL h, parseJson v with
    | some key, some j => some (key, j)
    | _, _ => none
  | _ => none

partial def parseVal : Tree → Option PyVal
  | .atom "none" => some .none
  | .atom "true" => some (.bool true)
  | .atom "false" => some (.bool false)
  | .atom a =>
    if a.startsWith "i:" then (parseInt? (afterColon a)).map .int
    else if a.startsWith "f:" then (unhexL (afterColon a)).map .float
    else if a.startsWith "s:" then (unhexL (afterColon a)).map .str
    else if a.startsWith "d:" then (unhexL (afterColon a)).map (.opq .dur)
    else if a.startsWith "u:" then (unhexL (afterColon a)).map (.opq .unit)
    else if a.startsWith "q:" then (unhexL (afterColon a)).map (.opq .qty)
    else none
  | .node "list" ks => (allSome (ks.map parseVal)).map .list
  | .node "set" ks => (allSome (ks.map parseVal)).map .set
  | .node "objv" (.atom n :: ks) =>
    let fs := ks.filterMap (fun k => match k with
      | .node "f" [.atom h, v] =>
        match unhexL h, parseVal v with
        | some key, some x => some (key, x)
        | _, _ => none
      | _ => none)
    let cs := ks.filterMap (fun k => match k with
      | .node "c" _ => parseKV k
      | _ => none)
    let xs := ks.filterMap (fun k => match k with
      | .node "x" _ => parseKV k
      | _ => none)
    if fs.length + cs.length + xs.length == ks.length then some (.obj n.toList fs cs xs) else none
  | _ => none

def showInt (i : Int) : String := toString i

partial def showJson : Json → String
  | .null => "null"
  | .bool true => "true"
  | .bool false => "false"
  | .int i => "i:" ++ showInt i
  | .float t => "r:" ++ hexL t
  | .str s => "s:" ++ hexL s
  | .arr xs => "arr(" ++ ",".intercalate (xs.map showJson) ++ ")"
  | .obj kvs => "obj(" ++ ",".intercalate (kvs.map (fun p => "kv(" ++ (if p.1.isEmpty then "-" else hexL p.1) ++ "," ++ showJson p.2 ++ ")")) ++ ")"

def opqTag : Opq → String
  | .dur => "d:"
  | .unit => "u:"
  | .qty => "q:"

partial def showVal : PyVal → String
  | .none => "none"
  | .bool true => "true"
  | .bool false => "false"
  | .int i => "i:" ++ showInt i
  | .float t => "f:" ++ hexL t
  | .str s => "s:" ++ hexL s
  | .opq k s => opqTag k ++ hexL s
  | .list vs => "list(" ++ ",".intercalate (vs.map showVal) ++ ")"
  | .set vs => "set(" ++ ",".intercalate (vs.map showVal) ++ ")"
  | .obj n fs cs xs =>
    "objv(" ++ ",".intercalate ([String.ofList n] ++ fs.map (fun p => "f(" ++ hexL p.1 ++ "," ++ showVal p.2 ++ ")")
      ++ cs.map (fun p => "c(" ++ hexL p.1 ++ "," ++ showJson p.2 ++ ")")
      ++ xs.map (fun p => "x(" ++ (if p.1.isEmpty then "-" else hexL p.1) ++ "," ++ showJson p.2 ++ ")")) ++ ")"

/-- effective schema with name-only references in the field types -/
structure ESchema where
  name : Str
  extra : Extra
  fields : List (Str × Ty × Bool × Option Json)
  consts : List (Str × Json)

/-- outcome of a library parser on one string -/
inductive NF
  | ok (n : Str)
  | reject
  | crash

structure St where
  nfDur : List (Str × NF) := []
  nfUnit : List (Str × NF) := []
  nfQty : List (Str × NF) := []
  eff : List ESchema := []
  defs : Table := []
  /-- `__types_checked__` marks left behind by the `load` lines so far -/
  marks : List Str := []

def lookupNF (k : Str) : List (Str × NF) → Option NF
  | [] => none
  | (k', v) :: r => if k == k' then some v else lookupNF k r

def St.tbl (s : St) : Opq → List (Str × NF)
  | .dur => s.nfDur
  | .unit => s.nfUnit
  | .qty => s.nfQty

def St.env (s : St) : Env where
  norm := fun k x => match lookupNF x (s.tbl k) with
    | some (.ok n) => some n
    | _ => none
  crash := fun k x => match lookupNF x (s.tbl k) with
    | some .crash => true
    | _ => false
  normFloat := fun t => if t == "inf".toList || t == "-inf".toList || t == "nan".toList then none else some t

partial def jsonStrings : Json → List Str
  | .str s => [s]
  | .arr xs => xs.flatMap jsonStrings
  | .obj kvs => kvs.flatMap (fun p => jsonStrings p.2)
  | _ => []

partial def jsonDepth : Json → Nat
  | .arr xs => 1 + (xs.map jsonDepth).foldl max 0
  | .obj kvs => 1 + (kvs.map (fun p => jsonDepth p.2)).foldl max 0
  | _ => 0

partial def tyHasOpq : Ty → Bool
  | .opq _ => true
  | .opt t => tyHasOpq t
  | .list t => tyHasOpq t
  | .set t => tyHasOpq t
  | .ann t => tyHasOpq t
  | .union ts => ts.any tyHasOpq
  | .model _ _ fs _ => fs.any (fun f => match f with
      | .mk _ t _ _ => tyHasOpq t)
  | _ => false

def parseExtra : String → Option Extra
  | "allow" => some .allow
  | "ignore" => some .ignore
  | "forbid" => some .forbid
  | _ => none

def St.schemaOf (s : St) (n : Str) : Option ESchema :=
  match s.eff.find? (fun e => e.name == n) with
  | some e => some e
  | none =>
    match Subtype.find s.defs n with
    | some c => some { name := n, extra := effExtra s.defs c, fields := effFields s.defs n, consts := allConsts s.defs n }
    | none => none

/-- replace name-only references by the schemas, `fuel` levels deep; below that a type
that accepts nothing (enough for any JSON value of that nesting depth) -/
partial def expand (s : St) : Nat → Ty → Ty
  | fuel, .opt t => .opt (expand s fuel t)
  | fuel, .list t => .list (expand s fuel t)
  | fuel, .set t => .set (expand s fuel t)
  | fuel, .ann t => .ann (expand s fuel t)
  | fuel, .union ts => .union (ts.map (expand s fuel))
  | 0, .model _ _ _ _ => .union []
  | fuel + 1, .model n _ _ _ =>
    match s.schemaOf n with
    | some e => .model n e.extra (e.fields.map (fun f => Field.mk f.1 (expand s fuel f.2.1) f.2.2.1 f.2.2.2)) e.consts
    | none => .union []
  | _, t => t

partial def tyModels : Ty → List Str
  | .opt t => tyModels t
  | .list t => tyModels t
  | .set t => tyModels t
  | .ann t => tyModels t
  | .union ts => ts.flatMap tyModels
  | .model n _ _ _ => [n]
  | _ => []

def b2s (b : Bool) : String := if b then "T" else "F"

def showRefusal : Except Refusal Unit → String
  | .ok () => "ok"
  | .error .typeError => "TypeError"
  | .error .valueError => "ValueError"

def parseFld (k : Tree) : Option (Str × Ty × Bool × Option Json) :=
  match k with
  | .node "fld" [.atom h, t, .atom r, d] =>
    match unhexL h, parseTy t, (match d with
      | .atom "-" => some none
      | d => (parseJson d).map some) with
    | some n, some ty, some dj =>
      if r == "req" then some (n, ty, true, dj) else if r == "opt" then some (n, ty, false, dj) else none
    | _, _, _ => none
  | _ => none

def parseDefFld (k : Tree) : Option (Str × Ty × Option Json) :=
  match k with
  | .node "fld" [.atom h, t, d] =>
    match unhexL h, parseTy t, (match d with
      | .atom "-" => some none
      | d => (parseJson d).map some) with
    | some n, some ty, some dj => some (n, ty, dj)
    | _, _, _ => none
  | _ => none

def treeTag : Tree → String
  | .atom a => a
  | .node t _ => t

/-- all strings that may reach a normaliser must have been declared -/
def nfKnown (s : St) (t : Ty) (j : Json) : Bool :=
  !(tyHasOpq t) || (jsonStrings j).all (fun x => (lookupNF x s.nfDur).isSome && (lookupNF x s.nfUnit).isSome && (lookupNF x s.nfQty).isSome)

def withTyJson (s : St) (t j : String) (k : Ty → Json → String) : St × String :=
  match (parseTerm t).bind parseTy, (parseTerm j).bind parseJson with
  | some ty, some js =>
    if (tyModels ty).all (fun n => (s.schemaOf n).isSome) then
      let full := expand s (jsonDepth js + 2) ty
      if nfKnown s full js then (s, k full js) else (s, "bad-op")
    else (s, "bad-op")
  | _, _ => (s, "bad-op")

def step (s : St) : List String → St × String
  | ["nf", kind, i, o] =>
    match unhexL i, (if o == "!" then some NF.reject else if o == "!!" then some NF.crash else (unhexL o).map NF.ok) with
    | some x, some r =>
      match kind with
      | "dur" => ({ s with nfDur := (x, r) :: s.nfDur }, "ok")
      | "unit" => ({ s with nfUnit := (x, r) :: s.nfUnit }, "ok")
      | "qty" => ({ s with nfQty := (x, r) :: s.nfQty }, "ok")
      | _ => (s, "bad-op")
    | _, _ => (s, "bad-op")
  | "cls" :: name :: extra :: parts =>
    match parseExtra extra, allSome (parts.map parseTerm) with
    | some e, some trees =>
      let flds := trees.filter (fun t => treeTag t == "fld")
      let csts := trees.filter (fun t => treeTag t == "const")
      match allSome (flds.map parseFld), allSome (csts.map parseKV) with
      | some fs, some cs =>
        if flds.length + csts.length == trees.length then
          ({ s with eff := s.eff ++ [{ name := name.toList, extra := e, fields := fs, consts := cs }] }, "ok")
        else (s, "bad-op")
      | _, _ => (s, "bad-op")
    | _, _ => (s, "bad-op")
  | "def" :: name :: parent :: extra :: parts =>
    match (if extra == "-" then some none else (parseExtra extra).map some), allSome (parts.map parseTerm) with
    | some e, some trees =>
      let sel := fun (tag : String) => trees.filter (fun t => treeTag t == tag)
      let names := fun (tag : String) => allSome ((sel tag).map (fun t => match t with
        | .node _ [.atom h] => unhexL h
        | _ => none))
      match allSome ((sel "fld").map parseDefFld), allSome ((sel "const").map parseKV), names "ovr", names "mand" with
      | some fs, some cs, some ovr, some mand =>
        let co := (sel "constovr").length
        if (sel "fld").length + (sel "const").length + ovr.length + mand.length + co == trees.length then
          let c : ClassDef := { name := name.toList, parent := if parent == "-" then none else some parent.toList, extra := e,
                                fields := fs, consts := cs, overrides := ovr, mandatory := mand, constOverride := co > 0 }
          ({ s with defs := s.defs ++ [c] }, "ok")
        else (s, "bad-op")
      | _, _, _, _ => (s, "bad-op")
    | _, _ => (s, "bad-op")
  | ["build"] => (s, showRefusal (Subtype.build s.defs))
  | ["dec", t, j] =>
    withTyJson s t j (fun ty js =>
      match decode s.env ty js with
      | .ok v => showVal v
      | .error _ => "err")
  | ["encdec", t, j] =>
    withTyJson s t j (fun ty js =>
      match decode s.env ty js with
      | .ok v => showJson (encode v)
      | .error _ => "err")
  | ["acc", t, j] => withTyJson s t j (fun ty js => b2s (accepts s.env ty js))
  | ["enc", v] =>
    match (parseTerm v).bind parseVal with
    | some x => (s, showJson (encode x))
    | none => (s, "bad-op")
  | ["sub", a, b] =>
    match (parseTerm a).bind parseTy, (parseTerm b).bind parseTy with
    | some ta, some tb => (s, b2s (isSubtype s.defs ta tb))
    | _, _ => (s, "bad-op")
  | ["chk", n] =>
    match Subtype.find s.defs n.toList with
    | some _ => (s, "check:" ++ showRefusal (checkTypes s.defs n.toList))
    | none => (s, "bad-op")
  | ["load", n] =>
    match Subtype.find s.defs n.toList with
    | some _ =>
      let r := loadPlugin s.defs s.marks n.toList
      ({ s with marks := r.1 }, "check:" ++ showRefusal r.2)
    | none => (s, "bad-op")
  | _ => (s, "bad-op")

def main : IO Unit := Drv.run ({} : St) step
