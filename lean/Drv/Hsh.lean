import MetadorModel.Py.DrvLib
import MetadorModel.Model.Hashsums
import MetadorModel.Model.ByteStreams
/-!
Driver for the `dir_hashsums` model (C19).

Strings (names, algorithm) are hex-encoded UTF-8 bytes, `-` = empty string. Relative and
absolute paths are `/`-joined hex segments, `.` = empty path. Digests are sent as they are
(`[0-9a-f]+`). SHA is not computed here: every `file`/`hashsum` line brings the digest of its
content, collected into a table that serves as `hexdigest` of the `HashLib` parameter (an
unknown content answers `?`).

```
tree                         forget entries, keep table          → .
base <abs path>              resolved base directory             → .
alg <name> <blocksize>       algorithm and `h.block_size`        → .
file <path> <content> <digest>                                    → .
sym <path> <resolved abs path> <content of final regular file | ~>  → .
dir <path>                                                        → .
build | rbuild | legacy      run the loop (given order / reversed / pinned code)
                                                                  → ok <dict> | err <Class>
chunks <n> <content>         chunk lengths of the read loop       → c <len>*
hashsum <content> <digest>   `qualified_hashsum` with current alg → ok <hex str> | err <Class>
shashsum <caps> <content> <digest>   `qualified_hashsum` of a stream that delivers at most
                             caps[i mod len] bytes at its i-th read (`caps` = `,`-joined positive
                             numbers)                              → ok <hex str> | err <Class>
relsym <resolved> <base>     `relative_to`                        → some <path> | none
```
-/
open MetadorModel MetadorModel.Drv MetadorModel.Bytes MetadorModel.Hashsums

def strOf (s : String) : Str := s.toList
def hexS (s : Str) : String := if s.isEmpty then "-" else hex (s.map Char.toNat)

def unhexS (s : String) : Option Str :=
  if s == "-" then some [] else (unhex s.toList).map (fun l => l.map Char.ofNat)

def unhexB (s : String) : Option Bytes :=
  if s == "-" then some [] else (unhex s.toList).map (fun l => l.map (fun n => UInt8.ofNat n))

def parsePath (s : String) : Option Path :=
  if s == "." then some []
  else (s.splitOn "/").mapM unhexS

def showPath (p : Path) : String :=
  if p.isEmpty then "." else "/".intercalate (p.map hexS)

mutual
def render : HT → String
  | .leaf s => "s" ++ hexS s
  | .node d => "{" ++ renderL d ++ "}"
def renderL : List (Name × HT) → String
  | [] => ""
  | [(k, v)] => hexS k ++ ":" ++ render v
  | (k, v) :: r => hexS k ++ ":" ++ render v ++ "," ++ renderL r
end

def showErr : Err → String
  | .valueError => "err ValueError"
  | .typeError => "err TypeError"

structure St where
  base : Path := []
  alg : Str := Bytes.sha256
  blk : Nat := 64
  tbl : List ((Str × Bytes) × Str) := []
  entries : List Entry := []   -- newest first

/-- hash objects are `(alg, bytes seen so far)`; `hexdigest` looks the pair up -/
def mkHL (s : St) : HashLib (Str × Bytes) where
  new a := (a, [])
  blockSize _ := s.blk
  update st c := (st.1, st.2 ++ c)
  hexdigest st :=
    match s.tbl.find? (fun e => e.1 == st) with
    | some e => e.2
    | none => ['?']

def showRes : Except Err HT → String
  | .ok t => "ok " ++ render t
  | .error e => showErr e

def step (s : St) : List String → St × String
  | ["tree"] => ({ s with entries := [] }, ".")
  | ["base", p] =>
    match parsePath p with
    | some p => ({ s with base := p }, ".")
    | none => (s, "bad-op")
  | ["alg", a, n] =>
    match unhexS a, n.toNat? with
    | some a, some n => ({ s with alg := a, blk := n }, ".")
    | _, _ => (s, "bad-op")
  | ["file", p, c, d] =>
    match parsePath p, unhexB c with
    | some p, some c =>
      ({ s with entries := ⟨p, .file c⟩ :: s.entries, tbl := ((s.alg, c), strOf d) :: s.tbl }, ".")
    | _, _ => (s, "bad-op")
  | ["sym", p, r, t] =>
    match parsePath p, parsePath r, (if t == "~" then some none else (unhexB t).map some) with
    | some p, some r, some t => ({ s with entries := ⟨p, .sym r t⟩ :: s.entries }, ".")
    | _, _, _ => (s, "bad-op")
  | ["dir", p] =>
    match parsePath p with
    | some p => ({ s with entries := ⟨p, .dir⟩ :: s.entries }, ".")
    | none => (s, "bad-op")
  | ["build"] => (s, showRes (dirHashsums (mkHL s) s.alg ⟨s.base, s.entries.reverse⟩))
  | ["rbuild"] => (s, showRes (dirHashsums (mkHL s) s.alg ⟨s.base, s.entries⟩))
  | ["legacy"] => (s, showRes (Legacy.dirHashsums (mkHL s) s.alg ⟨s.base, s.entries.reverse⟩))
  | ["chunks", n, c] =>
    match n.toNat?, unhexB c with
    | some n, some c => (s, " ".intercalate ("c" :: (chunks n c).map (fun x => toString x.length)))
    | _, _ => (s, "bad-op")
  | ["hashsum", c, d] =>
    match unhexB c with
    | some c =>
      let s' := { s with tbl := ((s.alg, c), strOf d) :: s.tbl }
      (s', match qualifiedHashsum (mkHL s') c s.alg with
           | .ok h => "ok " ++ hexS h
           | .error e => showErr e)
    | none => (s, "bad-op")
  | ["shashsum", ks, c, d] =>
    match (ks.splitOn ",").mapM String.toNat?, unhexB c with
    | some caps, some c =>
      if caps.isEmpty || caps.any (· == 0) then (s, "bad-op")
      else
        let s' := { s with tbl := ((s.alg, c), strOf d) :: s.tbl }
        (s', match qualifiedHashsumS (mkHL s') (cyclic caps 1) c s.alg with
             | .ok h => "ok " ++ hexS h
             | .error e => showErr e)
    | _, _ => (s, "bad-op")
  | ["relsym", r, b] =>
    match parsePath r, parsePath b with
    | some r, some b =>
      (s, match relativeTo r b with
          | some p => "some " ++ showPath p
          | none => "none")
    | _, _ => (s, "bad-op")
  | _ => (s, "bad-op")

def main : IO Unit := Drv.run ({} : St) step
