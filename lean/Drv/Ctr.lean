import MetadorModel.Py.DrvLib
import MetadorModel.Model.Container
/-!
Driver for the container model (C06, C07, C20).

Input lines (tokens separated by one space; names come from the safe alphabet `[a-z0-9._-]`,
paths are absolute `/a/b`, `/` is the root, `-` stands for "no version"):

    env-schema <name> <ver> <T|F aux> <pkgname> <pkgver> <parent eps, comma separated>
    env-pkg <pkgname> <pkgver> <schema eps, comma separated | ->
    init
    grp <path> | ds <path> <tok> | del <path> | copy <src> <dst> <T|F> | move <src> <dst>
    rgrp <path> | rds <path> <tok>   `require_group` / `require_dataset` (C09): no new model
                                  operation, the composition "the existing node of the requested
                                  kind (nothing changes), else `grp` / `ds`"
    meta <path> <sub,sub,…>      sub = set:<name>:<ver>:<tok|!bad> | del:<name> | get:<name>:<ver>
    reopen | patch
    dump                          raw tree as JSON list of [path, content]
    caches <unknown-name>         cache observations as JSON object
    obs <item,item,…| ->          item = q:<start>:<name>:<ver> | g:<node>:<name>:<ver>

uuids are printed as `{u<n>}`; the harness renames them by first appearance on both sides.
-/
open MetadorModel MetadorModel.Container

def parseVer (s : String) : Option Ver :=
  match s.splitOn "." with
  | [a, b, c] => do
    let x ← a.toNat?
    let y ← b.toNat?
    let z ← c.toNat?
    pure (x, y, z)
  | _ => none

def parseOptVer (s : String) : Option (Option Ver) :=
  if s == "-" then some none else (parseVer s).map some

def showVer (v : Ver) : String := s!"{v.1}.{v.2.1}.{v.2.2}"
def showEp (r : SRef) : String := r.name ++ "__" ++ showVer r.ver
def showPkg (p : PkgId) : String := p.name ++ "__" ++ showVer p.ver
def showU (u : Nat) : String := "{u" ++ toString u ++ "}"

def parseEp (s : String) : Option SRef :=
  match s.splitOn "__" with
  | [n, v] => (parseVer v).map fun v => ⟨n, v⟩
  | _ => none

def parseEps (s : String) : Option (List SRef) :=
  if s == "-" then some [] else (s.splitOn ",").mapM parseEp

def parsePath (s : String) : Option Path :=
  if s == "/" then some []
  else if !s.startsWith "/" then none
  else
    let segs := (s.drop 1).toString.splitOn "/"
    if segs.any (· == "") then none else some (segs.map Key.user)

def showKey : Key → String
  | .user s => s
  | .metaDir s => "metador_meta_" ++ s
  | .obj r u => showEp r ++ "=" ++ showU u
  | .toc => "metador_container"
  | .links => "links"
  | .schemas => "schemas"
  | .packages => "packages"
  | .version => "version"
  | .uuid => "uuid"
  | .ep r => showEp r
  | .link u => showU u
  | .jsonschema => "jsonschema.json"
  | .compat => "compat"
  | .pkg p => showPkg p

def showPath (p : Path) : String :=
  if p.isEmpty then "/" else String.join (p.map fun k => "/" ++ showKey k)

def jstr (s : String) : String := "\"" ++ s ++ "\""   -- safe alphabet only
def jarr (l : List String) : String := "[" ++ ",".intercalate l ++ "]"
def jobj (l : List (String × String)) : String :=
  "{" ++ ",".intercalate (l.map fun kv => jstr kv.1 ++ ":" ++ kv.2) ++ "}"

def showVal (p : Path) : Val → String
  | .data tok => (if inMeta p then "o:" else "d:") ++ tok
  | .target q => "l:" ++ showPath q
  | .compat l => "c:" ++ ",".intercalate (l.map showEp)
  | .jsonschema r => "j:" ++ showEp r
  | .pkginfo q pl => "p:" ++ showPkg q ++ ":" ++ ",".intercalate (pl.map showEp)
  | .text s => "t:" ++ s

def showNode (p : Path) : Node → String
  | .grp => "g"
  | .ds v => showVal p v

def showErr : Err → String
  | .key => "KeyError"
  | .value => "ValueError"
  | .type => "TypeError"
  | .validation => "ValidationError"
  | .other => "Error"

structure DSt where
  env : Env := ⟨[], []⟩
  st : St := {}

def dump (s : St) : String :=
  jarr (s.raw.map fun e => jarr [jstr (showPath e.1), jstr (showNode e.1 e.2)])

def dedup (l : List String) : List String :=
  l.foldl (fun acc x => if acc.contains x then acc else acc ++ [x]) []

def caches (d : DSt) (unknown : String) : String :=
  let c := d.st.c
  let refs := d.env.schemas.map (·.ref)
  let names := dedup (refs.map (·.name)) ++ [unknown]
  let eps (l : List SRef) := jarr (l.map fun r => jstr (showEp r))
  let children :=
    (refs.map fun r => (showEp r, eps (tocChildren c r))) ++
    (names.map fun n => (n, eps (tocChildrenByName c n)))
  let parentPath := refs.map fun r =>
    (showEp r, match alGet c.parents r with
      | some l => eps l
      | none => "null")
  let provider := refs.map fun r =>
    (showEp r, match ((alGet c.providers r).getD []).head? with
      | some p => if (alGet c.pkginfos p).isSome then jstr (showPkg p) else "null"
      | none => "null")
  let versions := names.map fun n => (n, eps (tocVersions c n none))
  let contains := refs.map fun r => (showEp r, if r ∈ c.schemas then "true" else "false")
  jobj [
    ("schemas", eps c.schemas),
    ("len", toString c.schemas.length),
    ("packages", jarr (c.pkginfos.map fun e => jstr (showPkg e.1 ++ ":" ++ ",".intercalate (e.2.map showEp)))),
    ("children", jobj children),
    ("parent_path", jobj parentPath),
    ("provider", jobj provider),
    ("versions", jobj versions),
    ("contains", jobj contains),
    ("links", jarr (c.tocPath.map fun e => jarr [jstr (showU e.1), jstr (showPath e.2)]))]

def obsItem (d : DSt) (item : String) : Option String :=
  match item.splitOn ":" with
  | [kind, node, name, ver] => do
    let p ← parsePath node
    let v ← parseOptVer ver
    let s := d.st
    match nodeKind s p with
    | none => some (kind ++ "=nonode")
    | some k =>
      if kind == "q" then
        match tocQuery s p name v with
        | .ok l => some ("q=" ++ ",".intercalate (l.map showPath))
        | .error e => some ("q=err:" ++ showErr e)
      else if kind == "g" then
        let h := openHandle s p k
        match h.getAll d.env s name v with
        | .error e => some ("g=err:" ++ showErr e)
        | .ok [] => some "g=none"
        | .ok (r :: rs) =>
          let exact := (h.getRaw name v).isSome
          let l := if exact then [r] else r :: rs
          some ("g=obj:" ++ "/".intercalate (l.map fun x => showEp x.stored.schema ++ "@" ++ x.tok))
      else none
  | _ => none

def parseSub (s : String) : Option MetaOp :=
  match s.splitOn ":" with
  | ["set", n, v, tok] => do
    let v ← parseOptVer v
    pure (.set n v (tok != "!bad") tok)
  | ["del", n] => some (.del n)
  | ["get", n, v] => do
    let v ← parseOptVer v
    pure (.get n v)
  | _ => none

def showOutcome : Outcome → String
  | .done => "ok"
  | .found true => "some"
  | .found false => "none"
  | .raised e => "err:" ++ showErr e

def treeStatus (r : Res Unit) : String :=
  match r.1 with
  | .ok _ => "ok"
  | .error _ => "err"

def parseBool (s : String) : Option Bool :=
  if s == "T" then some true else if s == "F" then some false else none

def runOp (d : DSt) (op : Op) : DSt × String :=
  let r := step d.env op d.st
  ({ d with st := r.2 }, treeStatus r)

def step' (d : DSt) : List String → DSt × String
  | ["env-schema", name, ver, aux, pkg, pkgver, parents] =>
    match parseVer ver, parseBool aux, parseVer pkgver, parseEps parents with
    | some v, some a, some pv, some ps =>
      ({ d with env := { d.env with schemas := d.env.schemas ++ [⟨⟨name, v⟩, ps, ⟨pkg, pv⟩, a⟩] } }, "ok")
    | _, _, _, _ => (d, "bad-op")
  | ["env-pkg", pkg, pkgver, refs] =>
    match parseVer pkgver, parseEps refs with
    | some pv, some rs => ({ d with env := { d.env with pkgs := d.env.pkgs ++ [(⟨pkg, pv⟩, rs)] } }, "ok")
    | _, _ => (d, "bad-op")
  | ["init"] => ({ d with st := initSt }, "ok")
  | ["grp", p] =>
    match parsePath p with
    | some p => runOp d (.createGroup p)
    | none => (d, "bad-op")
  | ["ds", p, tok] =>
    match parsePath p with
    | some p => runOp d (.createDataset p tok)
    | none => (d, "bad-op")
  | ["rgrp", p] =>
    match parsePath p with
    | some p => if nodeKind d.st p == some false then (d, "ok") else runOp d (.createGroup p)
    | none => (d, "bad-op")
  | ["rds", p, tok] =>
    match parsePath p with
    | some p => if nodeKind d.st p == some true then (d, "ok") else runOp d (.createDataset p tok)
    | none => (d, "bad-op")
  | ["del", p] =>
    match parsePath p with
    | some p => runOp d (.delete p)
    | none => (d, "bad-op")
  | ["copy", a, b, wm] =>
    match parsePath a, parsePath b, parseBool wm with
    | some a, some b, some wm => runOp d (.copy a b wm)
    | _, _, _ => (d, "bad-op")
  | ["move", a, b] =>
    match parsePath a, parsePath b with
    | some a, some b => runOp d (.move a b)
    | _, _ => (d, "bad-op")
  | ["meta", p, subs] =>
    match parsePath p, (subs.splitOn ",").mapM parseSub with
    | some p, some ops =>
      match nodeKind d.st p with
      | none => (d, "err")
      | some k =>
        let trace := (metaSeqTrace d.env (openHandle d.st p k) ops d.st).1
        ({ d with st := (step d.env (.onMeta p ops) d.st).2 }, "+".intercalate (trace.map showOutcome))
    | _, _ => (d, "bad-op")
  | ["reopen"] => runOp d .reopen
  | ["patch"] => runOp d .patch
  | ["dump"] => (d, dump d.st)
  | ["caches", unknown] => (d, caches d unknown)
  | ["obs", items] =>
    if items == "-" then (d, "")
    else
      match (items.splitOn ",").mapM (obsItem d) with
      | some l => (d, "|".intercalate l)
      | none => (d, "bad-op")
  | _ => (d, "bad-op")

def main : IO Unit := Drv.run ({} : DSt) step'
