import MetadorModel.Py.DrvLib
import MetadorModel.Model.Plugin
/-! Driver for the plugin-reference model (C16). Strings are hex-encoded tokens. -/
open MetadorModel MetadorModel.Plugin MetadorModel.Drv

def parseVer (s : String) : Option Ver :=
  match s.splitOn "." with
  | [a, b, c] => do
    let x ← a.toNat?
    let y ← b.toNat?
    let z ← c.toNat?
    pure (x, y, z)
  | _ => none

def parseOptVer (s : String) : Option (Option Ver) :=
  if s == "-" then some none else (parseVer s).map some

def showVer (v : Ver) : String := s!"{v.1}.{v.2.1}.{v.2.2}"
def b2s (b : Bool) : String := if b then "T" else "F"

def parseRef (g n v : String) : Option Ref := do
  let g ← unhexStr g
  let n ← unhexStr n
  let v ← parseVer v
  pure ⟨g, n, v⟩

structure St where
  grp : String := "gg"
  tbl : Table := []

def step (s : St) : List String → St × String
  | ["cmp", g1, n1, v1, g2, n2, v2] =>
    match parseRef g1 n1 v1, parseRef g2 n2 v2 with
    | some a, some b =>
      (s, s!"eq={b2s (eq a b)} ge={b2s (ge a b)} gt={b2s (gt a b)} le={b2s (le a b)} lt={b2s (lt a b)} sup={b2s (supports a b)} hash={b2s (decide (hashKey a = hashKey b))}")
    | _, _ => (s, "bad-op")
  | ["group", g] =>
    match unhexStr g with
    | some g => ({ s with grp := g }, "ok")
    | none => (s, "bad-op")
  | ["reg", n, v] =>
    match unhexStr n, parseVer v with
    | some n, some v => ({ s with tbl := register s.tbl ⟨s.grp, n, v⟩ }, "ok")
    | _, _ => (s, "bad-op")
  | ["vers", n, v] =>
    match unhexStr n, parseOptVer v with
    | some n, some v => (s, " ".intercalate ("vers" :: (versions s.grp s.tbl n v).map (fun r => showVer r.ver)))
    | _, _ => (s, "bad-op")
  | ["res", n, v] =>
    match unhexStr n, parseOptVer v with
    | some n, some v =>
      (s, match resolve s.grp s.tbl n v with
          | some r => "res " ++ showVer r.ver
          | none => "res none")
    | _, _ => (s, "bad-op")
  | ["has", n, v] =>
    match unhexStr n, parseOptVer v with
    | some n, some v => (s, "has " ++ b2s (contains s.grp s.tbl n v))
    | _, _ => (s, "bad-op")
  | ["get", n, v] =>
    match unhexStr n, parseOptVer v with
    | some n, some v =>
      (s, match getPlugin s.grp s.tbl n v with
          | some r => "get " ++ showVer r.ver
          | none => "get none")
    | _, _ => (s, "bad-op")
  | ["item", n, v] =>
    match unhexStr n, parseOptVer v with
    | some n, some v =>
      (s, match getItem s.grp s.tbl n v with
          | some (some r) => "item " ++ showVer r.ver
          | some none => "item none"
          | none => "item KeyError")
    | _, _ => (s, "bad-op")
  | ["keys", n] =>
    -- "-" = all references in `keys()` order, otherwise those of one name (in that order)
    if n == "-" then
      (s, " ".intercalate ("keys" :: s.tbl.keys.map (fun r => hexStr r.name ++ "@" ++ showVer r.ver)))
    else match unhexStr n with
    | some n => (s, " ".intercalate ("keys" :: (s.tbl.keys.filter (fun r => r.name == n)).map (fun r => hexStr r.name ++ "@" ++ showVer r.ver)))
    | none => (s, "bad-op")
  | ["sort"] => (s, "ok")
  | ["toep", n, v] =>
    match unhexStr n, parseVer v with
    | some n, some v =>
      let e := toEpName n.toList v
      (s, if isEpName e then "ep " ++ hexStr (String.ofList e) else "err")
    | _, _ => (s, "bad-op")
  | ["fromep", e] =>
    match unhexStr e with
    | some e =>
      (s, if isEpName e.toList then
            match fromEpName e.toList with
            | some (n, v) => s!"name {hexStr (String.ofList n)} {showVer v}"
            | none => "err"
          else "err")
    | none => (s, "bad-op")
  | ["isep", e] =>
    match unhexStr e with
    | some e => (s, "isep " ++ b2s (isEpName e.toList))
    | none => (s, "bad-op")
  | ["isname", e] =>
    match unhexStr e with
    | some e => (s, "isname " ++ b2s (isQualName e.toList))
    | none => (s, "bad-op")
  | ["issemver", e] =>
    match unhexStr e with
    | some e => (s, "issemver " ++ b2s (isSemVer e.toList))
    | none => (s, "bad-op")
  | _ => (s, "bad-op")

def main : IO Unit := Drv.run ({} : St) step
