import MetadorModel.Py.DrvLib
import MetadorModel.Model.Chain
import MetadorModel.Model.UBlock
import MetadorModel.Model.Crash
/-!
Driver for the record-opening model (C04) and the user-block codec / torn writes (C11).

```
cfg <mfAware T|F> <allowBaseless T|F>          -> ok
def <name> <hex of first bytes|-> <whole T|F>   -> def ok | def err <kind> | def outside      (names a user block; kept until `#case`)
file @<name> <payload digest|-> <h5ok T|F> <manifest digest|none>   -> ok
open                                           -> ok <input indices in patch order> | err <kind>   (and forgets the files)
wopen <next patch name taken T|F>              -> w reopen | w create | w refuse | err <kind>      (writable open, C11; forgets the files)
load <hex|-> <whole T|F>                       -> ub <rid> <idx> <pid> <prev|-> <hash|-> <ext> | err <kind>
tornall <old hex> <data hex> <kmax>            -> runs  o*a e*b n*c …  (k = 0 … kmax)
```
`whole = F` says that the file continues after the bytes given; if the model then needs more
bytes than it was given (stated size > bytes given) the answer is `err outside`.
Digests and uuids are sent as plain tokens (alphabet `[0-9A-Za-z:-]`).
-/
open MetadorModel MetadorModel.Drv MetadorModel.Chain MetadorModel.UBlock

abbrev P := Nat × Digest
abbrev DFile := File P Digest

structure St where
  mfAware : Bool := false
  allowBaseless : Bool := false
  files : List (Option DFile) := []   -- reversed
  outside : Bool := false
  defs : List (String × Bool × Except UBlock.Err UB) := []   -- name ↦ (needs more bytes?, loaded block)

def parseB : String → Option Bool
  | "T" => some true
  | "F" => some false
  | _ => none

def unhexBytes (s : String) : Option Bytes :=
  if s == "-" then some [] else (unhex s.toList).map (fun l => l.map Char.ofNat)

def safeTok (s : String) : Bool :=
  !s.isEmpty && s.toList.all (fun c => c.isAlphanum || c == ':' || c == '-')

def ubErr : UBlock.Err → String
  | .nonAscii => "nonascii"
  | .notIH5 => "notih5"
  | .badSize => "badsize"
  | .reread => "reread"
  | .nonCanonical => "noncanonical"

def chErr : Chain.Err → String
  | .empty => "empty" | .load => "load" | .h5open => "h5open" | .basePrev => "baseprev"
  | .recordUuid => "recorduuid" | .hashMissing => "hashmissing" | .hashMismatch => "hashmismatch"
  | .index => "index" | .prevMissing => "prevmissing" | .prevMismatch => "prevmismatch"
  | .stubPatch => "stubpatch" | .dupPid => "duppid" | .mfMissing => "mfmissing"
  | .mfMismatch => "mfmismatch"

def tok (s : List Char) : String := if s.isEmpty then "-" else String.ofList s
def otok : Option (List Char) → String
  | none => "-"
  | some s => "=" ++ String.ofList s

def showUB (u : UB) : String :=
  let e := match u.ext with
    | none => "-"
    | some e => s!"ext:{if e.isStub then "T" else "F"}:{tok e.muuid}:{tok e.mhash}"
  s!"ub {tok u.rid} {u.idx} {tok u.pid} {otok u.prev} {otok u.hash} {e}"

/-- does the model need bytes the harness did not send? -/
def needsMore (bytes : Bytes) (whole : Bool) : Bool :=
  if whole then false
  else match readHeadRaw bytes 512 with
    | .ok (some (sz, _)) => decide (sz > 512) && decide (sz.toNat > bytes.length)
    | _ => false

def runs (l : List Char) : String :=
  let rec go : List Char → Option (Char × Nat) → List String → List String
    | [], none, acc => acc.reverse
    | [], some (c, n), acc => (s!"{c}*{n}" :: acc).reverse
    | x :: xs, none, acc => go xs (some (x, 1)) acc
    | x :: xs, some (c, n), acc => if x = c then go xs (some (c, n + 1)) acc else go xs (some (x, 1)) (s!"{c}*{n}" :: acc)
  " ".intercalate (go l none [])

def classify (ro rn r : Except UBlock.Err UB) : Char :=
  match r with
  | .error .nonAscii => 'a'
  | .error _ => 'e'
  | .ok u =>
    if (match ro with | .ok v => decide (v = u) | _ => false) then 'o'
    else if (match rn with | .ok v => decide (v = u) | _ => false) then 'n'
    else 'x'

def step (s : St) : List String → St × String
  | ["cfg", a, b] =>
    match parseB a, parseB b with
    | some a, some b => ({ s with mfAware := a, allowBaseless := b }, "ok")
    | _, _ => (s, "bad-op")
  | ["def", name, hx, whole] =>
    match unhexBytes hx, parseB whole with
    | some bytes, some whole =>
      let more := needsMore bytes whole
      let r := loadUB bytes
      ({ s with defs := (name, more, r) :: s.defs },
        if more then "def outside" else match r with
          | .ok _ => "def ok"
          | .error e => "def err " ++ ubErr e)
    | _, _ => (s, "bad-op")
  | ["file", ref, dg, h5, mf] =>
    match s.defs.lookup ((ref.drop 1).toString), parseB h5 with
    | some (more, r), some h5 =>
      if !ref.startsWith "@" || !(dg == "-" || safeTok dg) || !(mf == "none" || safeTok mf) then (s, "bad-op")
      else
        let i := s.files.length
        let d : Digest := if dg == "-" then [] else dg.toList
        let m : Option Digest := if mf == "none" then none else some mf.toList
        let f : Option DFile := match r with
          | .ok u => some { ub := u, payload := (i, d), h5ok := h5, mf := m }
          | .error _ => none
        ({ s with files := f :: s.files, outside := s.outside || more }, "ok")
    | _, _ => (s, "bad-op")
  | ["open"] =>
    let s' := { s with files := [], outside := false }
    if s.outside then (s', "err outside")
    else
      match openFiles (fun p : P => p.2) (fun m : Digest => m) s.mfAware s.allowBaseless s.files.reverse with
      | .ok l => (s', " ".intercalate ("ok" :: l.map (fun f => toString f.payload.1)))
      | .error e => (s', "err " ++ chErr e)
  | ["wopen", t] =>
    match parseB t with
    | some taken =>
      let s' := { s with files := [], outside := false }
      if s.outside then (s', "err outside")
      else
        match Crash.openW (fun p : P => p.2) (fun m : Digest => m) s.mfAware s.files.reverse taken with
        | .ok .reopen => (s', "w reopen")
        | .ok .create => (s', "w create")
        | .ok .refuse => (s', "w refuse")
        | .error e => (s', "err " ++ chErr e)
    | none => (s, "bad-op")
  | ["load", hx, whole] =>
    match unhexBytes hx, parseB whole with
    | some bytes, some whole =>
      if needsMore bytes whole then (s, "err outside")
      else match loadUB bytes with
        | .ok u => (s, showUB u)
        | .error e => (s, "err " ++ ubErr e)
    | _, _ => (s, "bad-op")
  | ["tornall", ohx, dhx, km] =>
    match unhexBytes ohx, unhexBytes dhx, km.toNat? with
    | some old, some data, some kmax =>
      let ro := loadUB old
      let rn := loadUB (torn data.length old data)
      let cls := (List.range (kmax + 1)).map (fun k => classify ro rn (loadUB (torn k old data)))
      (s, "runs " ++ runs cls)
    | _, _, _ => (s, "bad-op")
  | _ => (s, "bad-op")

def main : IO Unit := Drv.run ({} : St) step
