import MetadorModel.Py.DrvLib
import MetadorModel.Model.Bytes
/-!
Driver for the byte-wrapping model (C17). Byte strings and paths are hex, `-` = empty.
SHA-256 is not computed here: `pack` brings the digest of its content; the table serves as
`hexdigest` of the `HashLib` parameter (unknown content answers `?`).

```
wrap <bytes>                      `_h5_wrap_bytes`        → void <bytes> | empty
isdel <kind> <bytes>              `_is_del_mark`          → T | F      kind: void|empty|str|fixed
guard <kind> <bytes>              `_guard_value`          → ok | err ValueError
rt <kind> <bytes>                 HDF5 store + read back  → ok <kind> <bytes> | err ValueError
chunks <n> <bytes>                read loop               → c <len>*
pack <h5|ih5> <path> <bytes> <sha256 hex>   `pack_file`   → ok | err ValueError
read <path>                       `node[()]` + core.file  → some <bytes> <size> <sha> | some <bytes> nometa | none
```
-/
open MetadorModel MetadorModel.Drv MetadorModel.Bytes

def hexS (s : Str) : String := if s.isEmpty then "-" else hex (s.map Char.toNat)
def hexB (b : Bytes) : String := if b.isEmpty then "-" else hex (b.map UInt8.toNat)

def unhexS (s : String) : Option Str :=
  if s == "-" then some [] else (unhex s.toList).map (fun l => l.map Char.ofNat)

def unhexB (s : String) : Option Bytes :=
  if s == "-" then some [] else (unhex s.toList).map (fun l => l.map (fun n => UInt8.ofNat n))

def mkVal (kind : String) (b : Bytes) : Option H5Val :=
  match kind with
  | "void" => some (.void b)
  | "empty" => if b.isEmpty then some .empty else none
  | "str" => some (.str b)
  | "fixed" => some (.fixed b)
  | _ => none

def showVal : H5Val → String
  | .void b => "void " ++ hexB b
  | .empty => "empty"
  | .str b => "str " ++ hexB b
  | .fixed b => "fixed " ++ hexB b

def showErr : Err → String
  | .valueError => "err ValueError"
  | .typeError => "err TypeError"

structure St where
  tbl : List (Bytes × Str) := []
  store : Store := ⟨[], []⟩

def mkHL (s : St) : HashLib Bytes where
  new _ := []
  blockSize _ := 64
  update st c := st ++ c
  hexdigest st :=
    match s.tbl.find? (fun e => e.1 == st) with
    | some e => e.2
    | none => ['?']

def step (s : St) : List String → St × String
  | ["wrap", b] =>
    match unhexB b with
    | some b => (s, showVal (wrapBytes b))
    | none => (s, "bad-op")
  | ["isdel", k, b] =>
    match (unhexB b).bind (mkVal k) with
    | some v => (s, if isDelMark v then "T" else "F")
    | none => (s, "bad-op")
  | ["guard", k, b] =>
    match (unhexB b).bind (mkVal k) with
    | some v => (s, match guardValue v with | .ok _ => "ok" | .error e => showErr e)
    | none => (s, "bad-op")
  | ["rt", k, b] =>
    match (unhexB b).bind (mkVal k) with
    | some v => (s, match h5Store v with | .ok v' => "ok " ++ showVal v' | .error e => showErr e)
    | none => (s, "bad-op")
  | ["chunks", n, c] =>
    match n.toNat?, unhexB c with
    | some n, some c => (s, " ".intercalate ("c" :: (chunks n c).map (fun x => toString x.length)))
    | _, _ => (s, "bad-op")
  | ["pack", d, p, b, dg] =>
    match (if d == "h5" then some Driver.h5 else if d == "ih5" then some Driver.ih5 else none),
          unhexS p, unhexB b with
    | some d, some p, some b =>
      let s' := { s with tbl := (b, dg.toList) :: s.tbl }
      match packFile (mkHL s') d s'.store p b with
      | .ok st => ({ s' with store := st }, "ok")
      | .error e => (s', showErr e)
    | _, _, _ => (s, "bad-op")
  | ["read", p] =>
    match unhexS p with
    | some p =>
      (s, match readFile s.store p with
          | some (b, some m) => s!"some {hexB b} {m.contentSize} {String.ofList m.sha256}"
          | some (b, none) => s!"some {hexB b} nometa"
          | none => "none")
    | none => (s, "bad-op")
  | _ => (s, "bad-op")

def main : IO Unit := Drv.run ({} : St) step
