import MetadorModel.Py.DrvLib
import MetadorModel.Model.Record
import MetadorModel.Model.RecordKw
import MetadorModel.Model.RecordStub
import MetadorModel.Model.UBlock
/-!
Driver for the record model (C02, C03). Names travel hex-encoded.

Operations (one per line):
* `open <p|m> <r|r+|a|w|w-|x> n <name>`  /  `open <p|m> <mode> l <file>*`
* `openk <p|m> <mode> <manifest_file: hex name|-> <allow_baseless: 0|1> n <name>`  /  `openk … l <file>*`
  (the constructor with its optional keyword arguments), `commitk` (`commit_patch(manifest_exts=…)`)
* `write <k>`, `read`, `create`, `commit`, `discard`, `close <0|1>`, `merge <name>`, `delete <name>`
* `exit <0|1>` (`__exit__` at the end of a `with` block left normally / by an exception),
  `stub <name> <manifest file>` (`IH5MFRecord.create_stub`; `Model/RecordStub.lean`; the outcome
  `outside` = the directory no longer holds the containers the manifest describes: not modelled)
* `find <name> <file>*` (find_files on a listing), `list <file>*` (list_records), `valid <name>`
* `ubtext <hex of the whole file|->` — the framing part of `IH5UserBlock.load` (`UBlock.loadText`):
  `text <hex of the text handed to json.loads|->`, or `err ValueError` (no magic / three parts; size
  line not an int), `err AssertionError` (re-read with the stated size failed), `err outside`
  (non-ASCII byte in the probed region: not modelled)

Answer of an API call:
`<outcome> | h=<closed | name:idx:c/u,... rw=0/1 allow=0/1 mf=+ or -> | ls=<name:c/u/m,...> | must=<..> may=<..> | view=<ids>`
with `ls` the sorted directory listing after the call (`c` committed container, `u`
uncommitted container, `m` manifest sidecar), `must`/`may` the existing files the call has
certainly / possibly rewritten, `view` the sorted ids of the visible writes.
-/
open MetadorModel MetadorModel.Record MetadorModel.FindFiles MetadorModel.Drv

def unhexName (s : String) : Option Name := (unhexStr s).map String.toList
def hexName (n : Name) : String := hexStr (String.ofList n)

def unhexNames : List String → Option (List Name)
  | [] => some []
  | x :: r => do
    let a ← unhexName x
    let b ← unhexNames r
    pure (a :: b)

def parseMode : String → Option Mode
  | "r" => some .r | "r+" => some .rp | "a" => some .a | "w" => some .w
  | "w-" => some .wm | "x" => some .x | _ => none

def showOut : Out → String
  | .ok => "ok" | .valueError => "ValueError" | .fileNotFound => "FileNotFoundError"
  | .fileExists => "FileExistsError" | .osError => "OSError" | .keyError => "KeyError"
  | .indexError => "IndexError" | .assertionError => "AssertionError"
  | .unboundLocal => "UnboundLocalError" | .busy => "busy"

def nameLt (a b : Name) : Bool := decide (String.ofList a < String.ofList b)

def insertSorted (lt : α → α → Bool) (x : α) : List α → List α
  | [] => [x]
  | y :: r => if lt x y then x :: y :: r else y :: insertSorted lt x r
def sortBy (lt : α → α → Bool) (l : List α) : List α := l.foldr (insertSorted lt) []

def uniq [BEq α] : List α → List α
  | [] => []
  | x :: r => if r.contains x then uniq r else x :: uniq r

def showNames (l : List Name) : String :=
  ",".intercalate ((sortBy nameLt (uniq l)).map hexName)

def fileFlag : File → String
  | .cont ub _ => if ub.hash.isSome then "c" else "u"
  | .mf _ _ => "m"

def showLs (d : Disk) : String :=
  ",".intercalate ((sortBy (fun a b => nameLt a.1 b.1) d).map (fun (k, v) => hexName k ++ ":" ++ fileFlag v))

def showHandle (s : State) : String :=
  let h := s.h
  if h.closed then "closed"
  else
    let fs := h.files.map (fun (f, ub) => hexName f ++ ":" ++ toString ub.idx ++ ":" ++
      (if ub.hash.isSome then "c" else "u"))
    ",".intercalate fs ++ " rw=" ++ (if hasWritable h then "1" else "0") ++
      " allow=" ++ (if h.allow then "1" else "0") ++
      " mf=" ++ (if h.manifest.isSome then "+" else "-")

def showView (s : State) : String :=
  if s.h.closed then "-" else
  ",".intercalate ((sortBy (fun (a b : Nat) => decide (a < b)) (view s)).map toString)

def showRes (old : State) (r : Res) : String :=
  let rewritten := uniq (r.written ++ r.created.filter (fun f => r.removed.contains f))
  let existing := rewritten.filter (fun f => (getF old.disk f).isSome && (getF r.st.disk f).isSome)
  let sure (f : Name) : Bool :=
    match getF r.st.disk f with
    | some (.cont ub _) => ub.hash.isSome
    | some (.mf _ _) => true
    | none => false
  showOut r.out ++ " | h=" ++ showHandle r.st ++ " | ls=" ++ showLs r.st.disk ++
    " | must=" ++ showNames (existing.filter sure) ++ " may=" ++ showNames (existing.filter (fun f => !sure f)) ++
    " | view=" ++ showView r.st

/-- driver state: the model state and the file names of the handle at the latest `close` line
(used by the probe operations `openperm` / `restore` of the C03 harness) -/
structure DS where
  s : State := {}
  last : List Name := []
  stubs : List Nat := []   -- manifest uuids written by `create_stub` (`StS.stubMfs`)

def apply (s : DS) (op : Op) : DS × String :=
  let r := step s.s op
  ({ s with s := r.st }, showRes s.s r)

/-- the permutation number `seed` of a list in the factorial number system
(the harness computes the same permutation in Python) -/
def permBy : Nat → List Name → Nat → List Name
  | 0, _, _ => []
  | fuel + 1, l, seed =>
    if l.isEmpty then [] else
    let i := seed % l.length
    match l[i]? with
    | some x => x :: permBy fuel (l.eraseIdx i) (seed / l.length)
    | none => []

def parseCls : String → Option Bool
  | "p" => some false | "m" => some true | _ => none

def applyK (s : DS) (op : OpK) : DS × String :=
  let r := stepK s.s op
  ({ s with s := r.st }, showRes s.s r)

/-- a call of `Model/RecordStub.lean` (`__exit__`, `create_stub`, `merge_files` refused on stubs) -/
def applyS (s : DS) (op : OpS) : DS × String :=
  let t : StS := { s := s.s, stubMfs := s.stubs }
  let r := stepS t op
  let t' := afterS t op
  let line := match op, r.out with
    | .createStub _ _, .keyError => "outside"
    | _, _ => showRes s.s r
  ({ s with s := t'.s, stubs := t'.stubMfs }, line)

def parseKw (mf bl : String) : Option OpenKw :=
  match (if mf == "-" then some none else (unhexName mf).map some), bl with
  | some mf, "0" => some { mfile := mf, baseless := false }
  | some mf, "1" => some { mfile := mf, baseless := true }
  | _, _ => none

def step' (s : DS) : List String → DS × String
  | ["openperm", c, m, seed] =>
    match parseCls c, parseMode m, seed.toNat? with
    | some c, some m, some seed => apply s (.openRec c (.list (permBy s.last.length s.last seed)) m)
    | _, _, _ => (s, "bad-op")
  | ["restore"] =>
    -- undo a probe: drop the patch the probe's open created (if any), close without commit
    if !s.s.h.closed && s.s.h.files.length > s.last.length then
      let r1 := step s.s .discardPatch
      let r2 := step r1.st (.close false)
      ({ s with s := r2.st }, showRes s.s { r2 with removed := r1.removed ++ r2.removed, written := r1.written ++ r2.written })
    else apply s (.close false)
  | "open" :: c :: m :: "n" :: [n] =>
    match parseMode m, unhexName n with
    | some m, some n =>
      if c == "p" then apply s (.openRec false (.name n) m)
      else if c == "m" then apply s (.openRec true (.name n) m) else (s, "bad-op")
    | _, _ => (s, "bad-op")
  | "open" :: c :: m :: "l" :: fs =>
    match parseMode m, unhexNames fs with
    | some m, some fs =>
      if c == "p" then apply s (.openRec false (.list fs) m)
      else if c == "m" then apply s (.openRec true (.list fs) m) else (s, "bad-op")
    | _, _ => (s, "bad-op")
  | "openk" :: c :: m :: mf :: bl :: "n" :: [n] =>
    match parseCls c, parseMode m, parseKw mf bl, unhexName n with
    | some c, some m, some kw, some n => applyK s (.openKw c (.name n) m kw)
    | _, _, _, _ => (s, "bad-op")
  | "openk" :: c :: m :: mf :: bl :: "l" :: fs =>
    match parseCls c, parseMode m, parseKw mf bl, unhexNames fs with
    | some c, some m, some kw, some fs => applyK s (.openKw c (.list fs) m kw)
    | _, _, _, _ => (s, "bad-op")
  | ["commitk"] => applyK s .commitExts
  | ["write", k] =>
    match k.toNat? with
    | some k => apply s (.write k)
    | none => (s, "bad-op")
  | ["read"] => apply s .read
  | ["create"] => apply s .createPatch
  | ["commit"] => apply s .commitPatch
  | ["discard"] => apply s .discardPatch
  | ["close", "1"] => apply { s with last := if s.s.h.closed then s.last else fileNames s.s.h } (.close true)
  | ["close", "0"] => apply { s with last := if s.s.h.closed then s.last else fileNames s.s.h } (.close false)
  | ["merge", n] =>
    match unhexName n with
    | some n => applyS s (.kw (.base (.merge n)))
    | none => (s, "bad-op")
  | ["exit", "0"] => applyS { s with last := if s.s.h.closed then s.last else fileNames s.s.h } (.exit false)
  | ["exit", "1"] => applyS { s with last := if s.s.h.closed then s.last else fileNames s.s.h } (.exit true)
  | ["stub", n, mf] =>
    match unhexName n, unhexName mf with
    | some n, some mf => applyS s (.createStub n mf)
    | _, _ => (s, "bad-op")
  | ["delete", n] =>
    match unhexName n with
    | some n => apply s (.deleteFiles n)
    | none => (s, "bad-op")
  | "find" :: n :: fs =>
    match unhexName n, unhexNames fs with
    | some n, some fs =>
      (s, match findFiles fs n with
          | none => "ValueError"
          | some l => "found " ++ showNames l)
    | _, _ => (s, "bad-op")
  | "list" :: fs =>
    match unhexNames fs with
    | some fs => (s, "records " ++ showNames (listRecords fs))
    | none => (s, "bad-op")
  | ["valid", n] =>
    match unhexName n with
    | some n => (s, if isValidName n then "T" else "F")
    | none => (s, "bad-op")
  | ["infer", f] =>
    match unhexName f with
    | some f => (s, "name " ++ hexName (inferName f))
    | none => (s, "bad-op")
  | ["ubtext", hx] =>
    match (if hx == "-" then some [] else (unhex hx.toList).map (fun l => l.map Char.ofNat)) with
    | some bytes =>
      (s, match UBlock.loadText bytes with
          | .ok (_, txt) => "text " ++ (if txt.isEmpty then "-" else hex (txt.map Char.toNat))
          | .error .nonAscii => "err outside"
          | .error .notIH5 => "err ValueError"
          | .error .badSize => "err ValueError"
          | .error .reread => "err AssertionError"
          | .error .nonCanonical => "err outside")
    | none => (s, "bad-op")
  | _ => (s, "bad-op")

def main : IO Unit := Drv.run ({} : DS) step'
