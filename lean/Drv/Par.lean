import MetadorModel.Py.DrvLib
import MetadorModel.Model.Partial
/-! Driver for the partial-merge model (C14).

Values in prefix notation: `I <int>` | `B T|F` | `S <hex>` | `L <n> v*` | `E <n> atom*` |
`O <cls.chain> <n> (<keyhex> v)*` (keys sorted).
`set a|b|c <value>` stores an operand; `m <expr> T|F` evaluates one of
`ab bc ab_c a_bc ea ae` with `allow_overwrite` T/F; `req <cls.chain> <fieldhex>*` declares
required fields; `rt <value>` is `from_partial(to_partial(v))`; `gp <uid> <namehex>` is
`get_partial` of the class object `uid` named `name` and prints the uid of `__partial_src__`. -/
open MetadorModel MetadorModel.Partial MetadorModel.Drv

def parseInt (s : String) : Option Int :=
  if s.startsWith "-" then (s.drop 1).toNat?.map (fun n => -(n : Int)) else s.toNat?.map (fun n => (n : Int))

def parseCls (s : String) : Cls := if s == "-" then [] else s.splitOn "."

partial def parseVal : List String → Option (PVal × List String)
  | "I" :: i :: rest => (parseInt i).map (fun i => (.atom (.int i), rest))
  | "B" :: "T" :: rest => some (.atom (.bool true), rest)
  | "B" :: "F" :: rest => some (.atom (.bool false), rest)
  | "S" :: h :: rest => (unhexStr h).map (fun s => (.atom (.str s), rest))
  | "L" :: n :: rest =>
    match n.toNat? with
    | none => none
    | some n =>
      let rec goL (n : Nat) (acc : List PVal) (toks : List String) : Option (PVal × List String) :=
        match n with
        | 0 => some (.list acc.reverse, toks)
        | n + 1 =>
          match parseVal toks with
          | some (v, rest') => goL n (v :: acc) rest'
          | none => none
      goL n [] rest
  | "E" :: n :: rest =>
    match n.toNat? with
    | none => none
    | some n =>
      let rec goE (n : Nat) (acc : List Atom) (toks : List String) : Option (PVal × List String) :=
        match n with
        | 0 => some (.set acc.reverse, toks)
        | n + 1 =>
          match parseVal toks with
          | some (.atom a, rest') => goE n (a :: acc) rest'
          | _ => none
      goE n [] rest
  | "O" :: c :: n :: rest =>
    match n.toNat? with
    | none => none
    | some n =>
      let rec goO (n : Nat) (acc : Fields) (toks : List String) : Option (PVal × List String) :=
        match n with
        | 0 => some (.obj (parseCls c) acc.reverse, toks)
        | n + 1 =>
          match toks with
          | kh :: rest1 =>
            match unhexStr kh, parseVal rest1 with
            | some k, some (v, rest') => goO n ((k, v) :: acc) rest'
            | _, _ => none
          | [] => none
      goO n [] rest
  | _ => none

def showAtom : Atom → String
  | .int i => s!"I {i}"
  | .bool b => if b then "B T" else "B F"
  | .str s => "S " ++ hexStr s

def insStr (x : String) : List String → List String
  | [] => [x]
  | y :: r => if x < y then x :: y :: r else y :: insStr x r

def sortStr (l : List String) : List String := l.foldl (fun acc x => insStr x acc) []

partial def showVal : PVal → String
  | .atom a => showAtom a
  | .list xs => " ".intercalate (s!"L {xs.length}" :: xs.map showVal)
  | .set xs => " ".intercalate (s!"E {xs.length}" :: sortStr (xs.map showAtom))
  | .obj c fs =>
    " ".intercalate (s!"O {if c.isEmpty then "-" else ".".intercalate c} {fs.length}" ::
      fs.map fun (k, v) => hexStr k ++ " " ++ showVal v)

def showErr : Err → String
  | .conflict => "conflict"
  | .shape => "type"
  | .invalid => "validation"

def showRes (tag : String) : Except Err PVal → String
  | .ok v => s!"{tag} ok {showVal v}"
  | .error e => s!"{tag} err {showErr e}"

structure St where
  a : Option PVal := none
  b : Option PVal := none
  c : Option PVal := none
  req : List (Cls × List String) := []
  tab : Factory.Tab := {}

def St.reqF (s : St) (c : Cls) : List String :=
  match s.req.find? (fun p => p.1 == c) with
  | some p => p.2
  | none => []

def cls? : PVal → Option Cls
  | .obj c _ => some c
  | _ => none

def bindE (x : Except Err PVal) (f : PVal → Except Err PVal) : Except Err PVal :=
  match x with
  | .ok v => f v
  | .error e => .error e

def step (s : St) : List String → St × String
  | "set" :: nm :: rest =>
    match parseVal rest with
    | some (v, []) =>
      if !v.wf then (s, "bad-op")
      else if nm == "a" then ({ s with a := some v }, "ok")
      else if nm == "b" then ({ s with b := some v }, "ok")
      else if nm == "c" then ({ s with c := some v }, "ok")
      else (s, "bad-op")
    | _ => (s, "bad-op")
  | ["m", e, o] =>
    match s.a, s.b, s.c, (if o == "T" then some true else if o == "F" then some false else none) with
    | some a, some b, some c, some ow =>
      let tag := e ++ o
      if e == "ab" then (s, showRes tag (mergeWith ow a b))
      else if e == "bc" then (s, showRes tag (mergeWith ow b c))
      else if e == "ab_c" then (s, showRes tag (bindE (mergeWith ow a b) (fun x => mergeWith ow x c)))
      else if e == "a_bc" then (s, showRes tag (bindE (mergeWith ow b c) (fun x => mergeWith ow a x)))
      else if e == "ea" then
        match cls? a with
        | some ca => (s, showRes tag (mergeWith ow (empty ca) a))
        | none => (s, "bad-op")
      else if e == "ae" then
        match cls? a with
        | some ca => (s, showRes tag (mergeWith ow a (empty ca)))
        | none => (s, "bad-op")
      else if e == "fold" then (s, showRes tag (mergeAll ow [] [a, b, c]))
      else (s, "bad-op")
    | _, _, _, _ => (s, "bad-op")
  | "req" :: c :: fields =>
    match fields.mapM unhexStr with
    | some fl => ({ s with req := (parseCls c, fl) :: s.req }, "ok")
    | none => (s, "bad-op")
  | "rt" :: rest =>
    match parseVal rest with
    | some (v, []) =>
      if !v.wf then (s, "bad-op")
      else (s, showRes "rt" (fromPartial s.reqF (toPartial v)))
    | _ => (s, "bad-op")
  | ["gp", u, nh] =>
    match u.toNat?, unhexStr nh with
    | some u, some n =>
      let r := Factory.getPartial s.tab ⟨u, n⟩
      ({ s with tab := r.1 }, s!"gp {r.2.src.uid}")
    | _, _ => (s, "bad-op")
  | "legacy" :: o :: _ =>
    match s.a, s.b with
    | some a, some b => (s, showRes "legacy" (Legacy.mergeWith (o == "T") a b))
    | _, _ => (s, "bad-op")
  | _ => (s, "bad-op")

def main : IO Unit := Drv.run ({} : St) step
