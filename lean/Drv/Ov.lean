import MetadorModel.Py.DrvLib
import MetadorModel.Model.Tree
import MetadorModel.Model.Overlay
/-!
Driver for the overlay model and the plain-tree reference model (C01), run in lock-step.

    new                       fresh record (one container) + fresh plain tree
    patch                     commit_patch; create_patch          -> ok
    set P VAL | grp P | del P | sattr P K VAL | dattr P K | copy S D | move S D
                              -> "<overlay outcome> <plain-tree outcome>"   (ok | err)
    setbad P TOK | sattrbad P K TOK
                              set-dataset / set-attr with a value that the raw driver (h5py) refuses
                              (`object()`, a dict, a ragged list, … — token `B<alnum>`)  -> "err err"
    dump                      canonical user-visible tree of the record
    sdump                     canonical plain tree
    raw                       per-container raw entries, newest first (diagnostic)
    ldump                     canonical tree of the record under the pinned (pre-F1) scan, kinds only

Paths are hex-encoded absolute path strings (`/a/b`, root `/`), attribute keys hex-encoded,
values opaque tokens from `[A-Za-z0-9:._+-]`. Keys: printable ASCII without `@`, `/`, not `.`.

Refused values. The models are parametric in the value type `V` = the values the raw driver can
store; a value that h5py itself refuses is not an element of `V`, so `Op V` has no constructor for
such a call. By definition of the reference ("the tree that results from applying the user's
SUCCESSFUL operations") such a call is an error without effect on the plain tree, whatever the state
of the path, and the overlay must behave alike. The two lines `setbad` / `sattrbad` therefore do not
go through `W.step` / `Spec.step`: both models answer `err` and keep their state. What is checked
with them is the real code (both real sides must fail and keep their complete dump), not a theorem.
-/
open MetadorModel MetadorModel.Drv MetadorModel.Tree MetadorModel.Overlay

abbrev Val := String

structure St where
  ov : Rec Val := Rec.init
  tree : Tree Val := Tree.init

def keyOk (k : String) : Bool :=
  !k.isEmpty && k != "." && k.toList.all (fun c => '!' ≤ c && c ≤ '~' && c != '@' && c != '/')

def valOk (v : String) : Bool :=
  !v.isEmpty && v.toList.all (fun c => c.isAlphanum || c == ':' || c == '.' || c == '_' || c == '+' || c == '-')

/-- token of a refused value: `B` + alphanumerics (disjoint from nothing in particular: it never
reaches a model) -/
def badTok (v : String) : Bool :=
  v.length ≥ 2 && v.front == 'B' && v.toList.all Char.isAlphanum

def parsePath (h : String) : Option Path := do
  let s ← unhexStr h
  if s == "/" then pure []
  else
    match s.splitOn "/" with
    | "" :: segs => if segs.all keyOk then pure segs else none
    | _ => none

def parseKey (h : String) : Option Key := do
  let s ← unhexStr h
  if keyOk s then pure s else none

def showPath (p : Path) : String := hexStr ("/" ++ "/".intercalate p)

def showEntry (e : Path × NKind Val × List (Key × Val)) : String :=
  let kd := match e.2.1 with
    | .group => "G"
    | .data v => "D=" ++ v
  showPath e.1 ++ ":" ++ kd ++ "[" ++ ",".intercalate (e.2.2.map (fun kv => hexStr kv.1 ++ "=" ++ kv.2)) ++ "]"

def showListing (l : List (Path × NKind Val × List (Key × Val))) : String :=
  ";".intercalate (l.map showEntry)

def showRaw (c : Cont Val) : String :=
  ";".intercalate ((sortBy (fun a b => pathLt a.1 b.1) c).map fun e =>
    let kd := match e.2.kind with
      | .vgroup => "v"
      | .sgroup => "S"
      | .data v => "D=" ++ v
      | .del => "X"
    showPath e.1 ++ ":" ++ kd ++ "[" ++ ",".intercalate
      ((sortBy (fun a b => decide (a.1 < b.1)) e.2.attrs).map
        (fun kv => hexStr kv.1 ++ "=" ++ (match kv.2 with | some v => v | none => "X"))) ++ "]")

def oc {α : Type} : Except Err α → String
  | .ok _ => "ok"
  | .error _ => "err"

def both (s : St) (op : Op Val) : St × String :=
  let w := W.step s.ov op
  let t := Spec.step s.tree op
  ({ ov := match w with | .ok r => r | .error _ => s.ov,
     tree := match t with | .ok r => r | .error _ => s.tree }, oc w ++ " " ++ oc t)

def step (s : St) : List String → St × String
  | ["new"] => ({}, "ok")
  | ["patch"] =>
    match W.step s.ov .patch with
    | .ok r => ({ s with ov := r }, "ok")
    | .error _ => (s, "err")
  | ["set", p, v] =>
    match parsePath p, valOk v with
    | some p, true => both s (.set p v)
    | _, _ => (s, "bad-op")
  | ["grp", p] =>
    match parsePath p with
    | some p => both s (.grp p)
    | none => (s, "bad-op")
  | ["del", p] =>
    match parsePath p with
    | some p => both s (.del p)
    | none => (s, "bad-op")
  | ["sattr", p, k, v] =>
    match parsePath p, parseKey k, valOk v with
    | some p, some k, true => both s (.sattr p k v)
    | _, _, _ => (s, "bad-op")
  | ["setbad", p, v] =>
    -- refused value: outside `V`; error without effect on both models (see the header)
    match parsePath p, badTok v with
    | some _, true => (s, "err err")
    | _, _ => (s, "bad-op")
  | ["sattrbad", p, k, v] =>
    match parsePath p, parseKey k, badTok v with
    | some _, some _, true => (s, "err err")
    | _, _, _ => (s, "bad-op")
  | ["dattr", p, k] =>
    match parsePath p, parseKey k with
    | some p, some k => both s (.dattr p k)
    | _, _ => (s, "bad-op")
  | ["copy", a, b] =>
    match parsePath a, parsePath b with
    | some a, some b => both s (.copy a b)
    | _, _ => (s, "bad-op")
  | ["move", a, b] =>
    match parsePath a, parsePath b with
    | some a, some b => if isPre a b then (s, "bad-op") else both s (.move a b)
    | _, _ => (s, "bad-op")
  | ["dump"] => (s, "T " ++ showListing (Overlay.listing s.ov))
  | ["sdump"] => (s, "T " ++ showListing (Tree.listing s.tree))
  | ["raw"] => (s, "R " ++ " | ".intercalate (s.ov.map showRaw))
  | ["ldump"] =>
    (s, "L " ++ ";".intercalate ((candidates s.ov).filterMap fun q =>
      (Legacy.viewKind s.ov q).map fun kd => showPath q ++ ":" ++ (match kd with | .group => "G" | .data v => "D=" ++ v)))
  | _ => (s, "bad-op")

def main : IO Unit := Drv.run ({} : St) step
