import MetadorModel.Proofs.HashsumsTree
import MetadorModel.Proofs.ByteStreams
/-!
# C19 — Directory hashsums identify directory content

Theorems about `Model/Hashsums.lean` (`dir_hashsums`, `rel_symlink`) and the hashing part of
`Model/Bytes.lean` (`hashsum`, `qualified_hashsum`, `file_hashsum`).

A directory is `FsTree` = resolved base path + the entries `rglob("*")` yields, **in whatever
order** (`FsTree.WF` states what `rglob` guarantees; it is invariant under permutation).
Two directories are the same for the property (`Equiv`) when at every relative path they hold
the same thing: a file with the same bytes, a symlink with the same in-directory target (as
`rel_symlink` normalises it), a directory — or nothing.

Hypotheses on `hashlib`, never axioms: `Streaming` (feeding pieces = feeding the
concatenation) and `NoCollision` restricted to the file contents of the two directories
compared.
-/
namespace MetadorModel.C19
open MetadorModel.Bytes MetadorModel.Hashsums

/-! ## Any enumeration order gives the same result -/

/-- The result (including a raised error) does not depend on the order in which `rglob`
yields the entries — hence not on creation order, directory hashing or timestamps, which can
only influence that order. -/
theorem order_independent {σ : Type} (hl : HashLib σ) (alg : Str) (base : Path)
    (l₁ l₂ : List Entry) (hwf : FsTree.WF ⟨base, l₁⟩) (hp : l₁.Perm l₂) :
    dirHashsums hl alg ⟨base, l₁⟩ = dirHashsums hl alg ⟨base, l₂⟩ := by
  let cfg : Cfg σ := ⟨hl, alg, base⟩
  have c1 := hwf.compat (valOf cfg)
  have c2 := (hwf.perm hp).compat (valOf cfg)
  unfold dirHashsums
  rw [build_root cfg l₁ c1, build_root cfg l₂ c2]
  have hall : l₁.all (entryOk cfg) = l₂.all (entryOk cfg) := by
    rw [Bool.eq_iff_iff, List.all_eq_true, List.all_eq_true]
    exact ⟨fun h e he => h e (hp.mem_iff.mpr he), fun h e he => h e (hp.mem_iff.mp he)⟩
  rw [hall, putAll_perm (hp.map (itemOf cfg)) c1]

/-! ## What the result holds -/

/-- If some entry cannot be given a value the whole call raises `ValueError`, wherever the
entry comes in the enumeration. -/
theorem rejected_of_bad_entry {σ : Type} (hl : HashLib σ) (alg : Str) (t : FsTree) (hwf : t.WF)
    (e : Entry) (he : e ∈ t.entries) (hbad : entryOk ⟨hl, alg, t.base⟩ e = false) :
    dirHashsums hl alg t = .error .valueError := by
  unfold dirHashsums
  rw [build_root _ t.entries (hwf.compat (valOf ⟨hl, alg, t.base⟩)), if_neg]
  intro h
  have := List.all_eq_true.mp h e he
  rw [hbad] at this
  cases this

/-- A symlink leading outside the directory is rejected (`ValueError`), whatever it points to
(file, directory, nothing) and wherever it lies in the tree. -/
theorem outside_symlink_rejected {σ : Type} (hl : HashLib σ) (alg : Str) (t : FsTree)
    (hwf : t.WF) (p r : Path) (c : Option Bytes) (he : ⟨p, .sym r c⟩ ∈ t.entries)
    (hout : relativeTo r t.base = none) :
    dirHashsums hl alg t = .error .valueError := by
  refine rejected_of_bad_entry hl alg t hwf _ he ?_
  simp [entryOk, entryVal, Node.isSymlink, relSymlink, hout]

/-- An algorithm outside `_hash_alg` is rejected as soon as there is a file to hash. -/
theorem unsupported_alg_rejected {σ : Type} (hl : HashLib σ) (alg : Str) (t : FsTree)
    (hwf : t.WF) (p : Path) (c : Bytes) (he : ⟨p, .file c⟩ ∈ t.entries) (halg : alg ∉ hashAlgs) :
    dirHashsums hl alg t = .error .valueError := by
  refine rejected_of_bad_entry hl alg t hwf _ he ?_
  simp [entryOk, entryVal, Node.isSymlink, Node.isFile, qualifiedHashsum,
    hashsum_unsupported hl alg halg]

/-- Every file entry of the result is `alg ++ ":" ++` the one-shot digest of the file's
bytes (`hashlib.<alg>(bytes).hexdigest()`), independent of the chunk size. -/
theorem file_entry_format {σ : Type} (hl : HashLib σ) (hs : Streaming hl) (alg : Str)
    (halg : alg ∈ hashAlgs) (t : FsTree) (hwf : t.WF) (h : HT)
    (hok : dirHashsums hl alg t = .ok h) (p : Path) (c : Bytes) (he : ⟨p, .file c⟩ ∈ t.entries) :
    h.obsAt p = some (.str (alg ++ ':' :: oneShot hl alg c)) := by
  have := (build_obs hl alg t hwf h hok).2.1 _ he
  rw [this]
  simp only [entryObs, Entry.isLeaf, Node.isFile, Node.isSymlink, Bool.or_false, if_true]
  rw [valOf_file ⟨hl, alg, t.base⟩ hs halg]

/-- The result holds exactly the entries of the directory: a symlink is recorded as
`"symlink:" ++` its target relative to the directory, a sub-directory (also an empty one) as a
dict, and below the root there is nothing else. -/
theorem entries_exact {σ : Type} (hl : HashLib σ) (alg : Str) (t : FsTree) (hwf : t.WF) (h : HT)
    (hok : dirHashsums hl alg t = .ok h) :
    (∀ p r c, ⟨p, .sym r c⟩ ∈ t.entries →
      ∃ tgt, relativeTo r t.base = some tgt ∧ h.obsAt p = some (.str (symlinkPrefix ++ pathStr tgt))) ∧
    (∀ p, ⟨p, .dir⟩ ∈ t.entries → h.obsAt p = some .dict) ∧
    (∀ p, p ≠ [] → t.lookup p = none → h.obsAt p = none) ∧
    h.obsAt [] = some .dict := by
  obtain ⟨hall, hobs, hnone⟩ := build_obs hl alg t hwf h hok
  refine ⟨?_, ?_, ?_, ?_⟩
  · intro p r c he
    obtain ⟨tgt, h1, h2⟩ := valOf_sym ⟨hl, alg, t.base⟩ p r c (hall _ he)
    refine ⟨tgt, h1, ?_⟩
    rw [hobs _ he]
    simp only [entryObs, Entry.isLeaf, Node.isSymlink, Bool.or_true, if_true]
    rw [h2]
  · intro p he
    rw [hobs _ he]
    rfl
  · intro p hp hl'
    exact hnone p hp (lookup_none hl')
  · -- the root is a dict: it is the start value and `put` keeps it one
    unfold dirHashsums at hok
    rw [build_root _ t.entries (hwf.compat (valOf ⟨hl, alg, t.base⟩))] at hok
    split_ifs at hok
    obtain ⟨t', ht', sp⟩ := putAll_spec _ (hwf.compat (valOf ⟨hl, alg, t.base⟩))
    have ht'' : putAll (.node []) (t.entries.map (itemOf ⟨hl, alg, t.base⟩)) = .ok t' := ht'
    rw [ht''] at hok
    cases hok
    exact sp.root

/-! ## Equal hashsum trees exactly for equal directories -/

/-- For two well-formed directories on which `dir_hashsums` succeeds (no symlink leads
outside): the results are equal **iff** the directories hold the same names with the same
file contents, the same in-directory symlink targets and the same (possibly empty)
sub-directories — provided SHA does not collide *on the file contents of these two
directories*. Neither direction needs anything else; "⇐" needs no hypothesis on the hash at
all. -/
theorem hashsums_injective {σ : Type} (hl : HashLib σ) (hs : Streaming hl) (alg : Str)
    (halg : alg ∈ hashAlgs) (a b : FsTree) (hwa : a.WF) (hwb : b.WF) (ha hb : HT)
    (hoka : dirHashsums hl alg a = .ok ha) (hokb : dirHashsums hl alg b = .ok hb)
    (hnc : NoCollision (oneShot hl alg) (a.files ++ b.files)) :
    ha = hb ↔ Equiv a b := by
  obtain ⟨alla, obsa, nonea⟩ := build_obs hl alg a hwa ha hoka
  obtain ⟨allb, obsb, noneb⟩ := build_obs hl alg b hwb hb hokb
  constructor
  · intro heq p
    subst heq
    unfold FsTree.view
    cases la : a.lookup p with
    | none =>
      cases lb : b.lookup p with
      | none => rfl
      | some nb =>
        have hb' := mem_of_lookup lb
        have h1 := obsb _ hb'
        have h2 := nonea p (hwb.nonempty _ hb') (lookup_none la)
        simp only at h1
        rw [h1] at h2
        cases h2
    | some na =>
      have ha' := mem_of_lookup la
      cases lb : b.lookup p with
      | none =>
        have h1 := obsa _ ha'
        have h2 := noneb p (hwa.nonempty _ ha') (lookup_none lb)
        simp only at h1
        rw [h1] at h2
        cases h2
      | some nb =>
        have hb' := mem_of_lookup lb
        have h1 := obsa _ ha'
        have h2 := obsb _ hb'
        simp only at h1 h2
        rw [h1] at h2
        simp only [Option.some.injEq] at h2
        simp only [Option.map_some]
        congr 1
        refine content_of_obs hl hs alg halg a.base b.base p na nb (alla _ ha') (allb _ hb')
          (fun r c e => hwa.targets _ ha' r c e) (fun r c e => hwb.targets _ hb' r c e) ?_ h2
        intro ca cb ea eb hd
        subst ea; subst eb
        exact hnc ca (List.mem_append_left _ (mem_files ha')) cb
          (List.mem_append_right _ (mem_files hb')) hd
  · intro heq
    let ca : Cfg σ := ⟨hl, alg, a.base⟩
    let cb : Cfg σ := ⟨hl, alg, b.base⟩
    have cpa := hwa.compat (valOf ca)
    have cpb := hwb.compat (valOf cb)
    -- both results are the `put` sequences of the items
    have ra : putAll (.node []) (a.entries.map (itemOf ca)) = .ok ha := by
      have := hoka
      unfold dirHashsums at this
      rw [build_root ca a.entries cpa, if_pos (List.all_eq_true.mpr alla)] at this
      exact this
    have rb : putAll (.node []) (b.entries.map (itemOf cb)) = .ok hb := by
      have := hokb
      unfold dirHashsums at this
      rw [build_root cb b.entries cpb, if_pos (List.all_eq_true.mpr allb)] at this
      exact this
    -- the item lists are permutations of each other
    have sub : ∀ (x y : FsTree), x.WF → y.WF → Equiv x y → ∀ i,
        i ∈ x.entries.map (itemOf ⟨hl, alg, x.base⟩) → i ∈ y.entries.map (itemOf ⟨hl, alg, y.base⟩) := by
      intro x y hx hy hxy i hi
      obtain ⟨e, he, rfl⟩ := List.mem_map.mp hi
      have h1 := hxy e.path
      unfold FsTree.view at h1
      rw [lookup_of_mem hx he] at h1
      cases ly : y.lookup e.path with
      | none => rw [ly] at h1; cases h1
      | some ny =>
        rw [ly] at h1
        simp only [Option.map_some, Option.some.injEq] at h1
        refine List.mem_map.mpr ⟨⟨e.path, ny⟩, mem_of_lookup ly, ?_⟩
        exact (itemOf_congr hl alg x.base y.base e.path e.node ny h1).symm
    have nd : ∀ (x : FsTree), x.WF → (x.entries.map (itemOf ⟨hl, alg, x.base⟩)).Nodup := by
      intro x hx
      refine List.Nodup.of_map Item.full ?_
      rw [List.map_map]
      have : x.entries.map (Item.full ∘ itemOf ⟨hl, alg, x.base⟩) = x.entries.map Entry.path := by
        refine List.map_congr_left ?_
        intro e he
        exact (entryItem_full e _ (hx.nonempty e he) (hx.names e he)).1
      rw [this]
      exact hx.nodup
    have hperm : (a.entries.map (itemOf ca)).Perm (b.entries.map (itemOf cb)) :=
      (List.perm_ext_iff_of_nodup (nd a hwa) (nd b hwb)).mpr
        (fun i => ⟨sub a b hwa hwb heq i, sub b a hwb hwa (fun p => (heq p).symm) i⟩)
    have := putAll_perm hperm cpa (.node [])
    rw [ra, rb] at this
    cases this
    rfl

/-! ## Hashing: standard digest, independent of chunking -/

/-- the read loop of `hashsum` with any positive chunk size leaves the hash object in the
state of a single `update` with the whole content (abstract fold, streaming as hypothesis) -/
theorem chunking_independent {σ : Type} (upd : σ → Bytes → σ)
    (hs : ∀ s a b, upd (upd s a) b = upd s (a ++ b)) (h0 : ∀ s, upd s [] = s)
    (init : σ) (n m : Nat) (hn : 0 < n) (hm : 0 < m) (bs : Bytes) :
    hashChunks upd init n bs = hashChunks upd init m bs ∧ hashChunks upd init n bs = upd init bs :=
  ⟨by rw [hashChunks_eq upd hs h0 init n hn, hashChunks_eq upd hs h0 init m hm],
   hashChunks_eq upd hs h0 init n hn bs⟩

/-- `hashsum` returns the standard digest, `qualified_hashsum` prefixes it with the algorithm
name and a colon, for every supported algorithm -/
theorem hashsum_is_standard_digest {σ : Type} (hl : HashLib σ) (hs : Streaming hl) (alg : Str)
    (halg : alg ∈ hashAlgs) (bs : Bytes) :
    hashsum hl bs alg = .ok (oneShot hl alg bs) ∧
    qualifiedHashsum hl bs alg = .ok (alg ++ ':' :: oneShot hl alg bs) :=
  ⟨hashsum_eq_oneShot hl hs alg halg bs, qualifiedHashsum_eq hl hs alg halg bs⟩

/-- "independent of … read chunking" for streams that hand out FEWER bytes than asked for
before their end (raw streams, unbuffered pipes, sockets, wrappers with a small transfer size;
`Model/ByteStreams.lean`): whatever the delivery schedule `cap` — the `i`-th `read(n)` returns the
next `min n (cap i)` bytes, at least one while bytes are left — `hashsum` returns the standard
digest of ALL bytes of the stream and `qualified_hashsum` prefixes it with the algorithm name; in
particular two schedules give the same result. -/
theorem short_reads_independent {σ : Type} (hl : HashLib σ) (hs : Streaming hl)
    (cap cap' : Nat → Nat) (hcap : ∀ i, 0 < cap i) (hcap' : ∀ i, 0 < cap' i) (alg : Str)
    (halg : alg ∈ hashAlgs) (bs : Bytes) :
    hashsumS hl cap bs alg = .ok (oneShot hl alg bs) ∧
    qualifiedHashsumS hl cap bs alg = .ok (alg ++ ':' :: oneShot hl alg bs) ∧
    hashsumS hl cap bs alg = hashsumS hl cap' bs alg ∧
    hashsumS hl cap bs alg = hashsum hl bs alg :=
  ⟨hashsumS_eq_oneShot hl hs cap hcap alg halg bs, qualifiedHashsumS_eq hl hs cap hcap alg halg bs,
   by rw [hashsumS_eq_oneShot hl hs cap hcap alg halg, hashsumS_eq_oneShot hl hs cap' hcap' alg halg],
   by rw [hashsumS_eq_oneShot hl hs cap hcap alg halg, hashsum_eq_oneShot hl hs alg halg]⟩

/-- a loop that takes a short read for the end of the stream (`if len(chunk) < n: break`) is NOT
independent of the delivery: on a stream that hands out one byte per read it hashes one byte -/
def stopAtShortRead {σ : Type} (hl : HashLib σ) (cap : Nat → Nat) : Nat → Nat → Bytes → σ → σ
  | 0, _, _, h => h
  | fuel + 1, i, data, h =>
    let chunk := data.take (min (hl.blockSize h) (cap i))
    let h' := hl.update h chunk
    if chunk.length < hl.blockSize h then h'
    else stopAtShortRead hl cap fuel (i + 1) (data.drop (min (hl.blockSize h) (cap i))) h'

/-! ## Concrete directories: examples and the pinned code -/

/-- a hash library that satisfies `Streaming` and never collides (the digest spells out the
bytes); used for the concrete examples only -/
def demoLib : HashLib Bytes where
  new _ := []
  blockSize _ := 2
  update s c := s ++ c
  hexdigest s := s.map (fun b => Char.ofNat b.toNat)

theorem demoLib_streaming : Streaming demoLib :=
  ⟨fun s a b => List.append_assoc s a b, fun s => List.append_nil s, fun _ => Nat.zero_lt_succ 1⟩

def base : Path := [['T'], ['b']]

/-- `f`, `g` (equal content `xyz`), `l -> f`, `d/`, `d/e/` (empty), `d/k -> ../g` -/
def tSym : FsTree := ⟨base,
  [⟨[['d'], ['k']], .sym [['T'], ['b'], ['g']] (some [0x78, 0x79, 0x7a])⟩,
   ⟨[['f']], .file [0x78, 0x79, 0x7a]⟩, ⟨[['g']], .file [0x78, 0x79, 0x7a]⟩,
   ⟨[['l']], .sym [['T'], ['b'], ['f']] (some [0x78, 0x79, 0x7a])⟩,
   ⟨[['d']], .dir⟩, ⟨[['d'], ['e']], .dir⟩]⟩

/-- the same with `l` a regular file holding a copy of `f` -/
def tCopy : FsTree := ⟨base,
  [⟨[['d'], ['k']], .sym [['T'], ['b'], ['g']] (some [0x78, 0x79, 0x7a])⟩,
   ⟨[['f']], .file [0x78, 0x79, 0x7a]⟩, ⟨[['g']], .file [0x78, 0x79, 0x7a]⟩,
   ⟨[['l']], .file [0x78, 0x79, 0x7a]⟩,
   ⟨[['d']], .dir⟩, ⟨[['d'], ['e']], .dir⟩]⟩

/-- the same with `l -> g` -/
def tRetarget : FsTree := ⟨base,
  [⟨[['d'], ['k']], .sym [['T'], ['b'], ['g']] (some [0x78, 0x79, 0x7a])⟩,
   ⟨[['f']], .file [0x78, 0x79, 0x7a]⟩, ⟨[['g']], .file [0x78, 0x79, 0x7a]⟩,
   ⟨[['l']], .sym [['T'], ['b'], ['g']] (some [0x78, 0x79, 0x7a])⟩,
   ⟨[['d']], .dir⟩, ⟨[['d'], ['e']], .dir⟩]⟩

/-- `l` leads to a file outside -/
def tOutside : FsTree := ⟨base,
  [⟨[['f']], .file [0x78]⟩, ⟨[['l']], .sym [['T'], ['o'], ['f']] (some [0x78])⟩]⟩

theorem tSym_wf : tSym.WF := wf_of_check _ (by decide)
theorem tCopy_wf : tCopy.WF := wf_of_check _ (by decide)
theorem tRetarget_wf : tRetarget.WF := wf_of_check _ (by decide)
theorem tOutside_wf : tOutside.WF := wf_of_check _ (by decide)

/-- observation of a result (decidable, unlike equality of nested dicts) -/
def resObs (r : Except Err HT) (p : Path) : Option (Option Obs) :=
  match r with
  | .ok h => some (h.obsAt p)
  | .error _ => none

example : resObs (dirHashsums demoLib sha256 tSym) [['l']] = some (some (.str "symlink:f".toList)) := by decide
example : resObs (dirHashsums demoLib sha256 tSym) [['d'], ['k']] = some (some (.str "symlink:g".toList)) := by decide
example : resObs (dirHashsums demoLib sha256 tSym) [['d'], ['e']] = some (some .dict) := by decide
example : resObs (dirHashsums demoLib sha256 tSym) [['f']] = some (some (.str "sha256:xyz".toList)) := by decide
example : dirHashsums demoLib sha256 tSym = dirHashsums demoLib sha256 ⟨base, tSym.entries.reverse⟩ := by rfl



/-- The pinned code (before 2d13558, `is_file()` tested first) confuses directories the
property tells apart, on witnesses that meet every hypothesis of `hashsums_injective`:
a symlink to a file vs. a copy of that file, and a symlink retargeted between two files of equal
content give the same hashsum tree. The current code separates them. -/
theorem legacy_symlink_to_file_confused :
    Legacy.dirHashsums demoLib sha256 tSym = Legacy.dirHashsums demoLib sha256 tCopy ∧
    Legacy.dirHashsums demoLib sha256 tSym = Legacy.dirHashsums demoLib sha256 tRetarget ∧
    ¬ Equiv tSym tCopy ∧ ¬ Equiv tSym tRetarget ∧
    tSym.WF ∧ tCopy.WF ∧ tRetarget.WF ∧
    NoCollision (oneShot demoLib sha256) (tSym.files ++ tCopy.files ++ tRetarget.files) ∧
    dirHashsums demoLib sha256 tSym ≠ dirHashsums demoLib sha256 tCopy ∧
    dirHashsums demoLib sha256 tSym ≠ dirHashsums demoLib sha256 tRetarget := by
  refine ⟨rfl, rfl, fun h => absurd (h [['l']]) (by decide), fun h => absurd (h [['l']]) (by decide),
    tSym_wf, tCopy_wf, tRetarget_wf, by decide, ?_, ?_⟩
  · intro h
    exact absurd (congrArg (resObs · [['l']]) h) (by decide)
  · intro h
    exact absurd (congrArg (resObs · [['l']]) h) (by decide)

/-- The pinned code accepted a symlink to a file *outside* of the directory (hashing the
outside file); the current code rejects it. -/
theorem legacy_outside_file_symlink_accepted :
    resObs (Legacy.dirHashsums demoLib sha256 tOutside) [['l']] = some (some (.str "sha256:x".toList)) ∧
    tOutside.WF ∧ relativeTo [['T'], ['o'], ['f']] tOutside.base = none ∧
    dirHashsums demoLib sha256 tOutside = .error .valueError :=
  ⟨by decide, tOutside_wf, by decide, rfl⟩


/-! ## Non-vacuity: the hypotheses of the theorems above are met by concrete directories -/

example : tSym.WF ∧ tSym.entries.Perm tSym.entries.reverse := ⟨tSym_wf, (List.reverse_perm _).symm⟩

example : dirHashsums demoLib sha256 tSym = dirHashsums demoLib sha256 ⟨base, tSym.entries.reverse⟩ :=
  order_independent demoLib sha256 base _ _ tSym_wf (List.reverse_perm _).symm

/-- `hashsums_injective` applied: the current code gives different trees for the symlink and
for the copy -/
example : ∃ ha hb, dirHashsums demoLib sha256 tSym = .ok ha ∧
    dirHashsums demoLib sha256 tCopy = .ok hb ∧ ha ≠ hb := by
  refine ⟨_, _, rfl, rfl, fun h => ?_⟩
  have := (hashsums_injective demoLib demoLib_streaming sha256 (by decide) tSym tCopy tSym_wf
    tCopy_wf _ _ rfl rfl (by decide)).mp h
  exact absurd (this [['l']]) (by decide)

/-- … and equal trees for the same directory enumerated differently, with a link respelled
(same resolved target) -/
example : Equiv tSym ⟨base, tSym.entries.reverse⟩ := by
  have h1 : dirHashsums demoLib sha256 tSym = .ok _ := rfl
  have h2 : dirHashsums demoLib sha256 ⟨base, tSym.entries.reverse⟩ = .ok _ := rfl
  exact (hashsums_injective demoLib demoLib_streaming sha256 (by decide) tSym _ tSym_wf
    (tSym_wf.perm (List.reverse_perm _).symm) _ _ h1 h2 (by decide)).mp rfl

example : dirHashsums demoLib sha256 tOutside = .error .valueError :=
  outside_symlink_rejected demoLib sha256 tOutside tOutside_wf [['l']] [['T'], ['o'], ['f']]
    (some [0x78]) (by decide) (by decide)

example : dirHashsums demoLib "md5".toList tSym = .error .valueError :=
  unsupported_alg_rejected demoLib _ tSym tSym_wf [['f']] [0x78, 0x79, 0x7a] (by decide) (by decide)

example : hashsum demoLib [1, 2, 3, 4, 5] sha256 = .ok (oneShot demoLib sha256 [1, 2, 3, 4, 5]) :=
  (hashsum_is_standard_digest demoLib demoLib_streaming sha256 (by decide) _).1

/-- a stream that delivers 1, 3, 1, 3, … bytes per read (block size 2: the reads return 1, 2, 1, 1) -/
example : hashsumS demoLib (cyclic [1, 3] 9) [1, 2, 3, 4, 5] sha256
    = .ok (oneShot demoLib sha256 [1, 2, 3, 4, 5]) :=
  (short_reads_independent demoLib demoLib_streaming (cyclic [1, 3] 9) (cyclic [] 9)
    (cyclic_pos _ _ (by decide) (by decide)) (cyclic_pos _ _ (by decide) (by decide))
    sha256 (by decide) _).1

/-- the hypotheses of `short_reads_independent` are needed for the loop AS WRITTEN only: the
variant that stops at the first short read hashes `[1]` instead of `[1, 2, 3, 4, 5]` -/
example : stopAtShortRead demoLib (cyclic [1] 9) 6 0 [1, 2, 3, 4, 5] (demoLib.new sha256) = [1]
    ∧ readLoopS demoLib (cyclic [1] 9) 6 0 [1, 2, 3, 4, 5] (demoLib.new sha256) = [1, 2, 3, 4, 5] := by
  decide

end MetadorModel.C19
