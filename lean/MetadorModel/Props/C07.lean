import MetadorModel.Proofs.ContainerQuery
import MetadorModel.Proofs.ContainerMove
import MetadorModel.Props.C06
/-!
# C07 — Metadata comes back as stored; queries are exact

Property theorems about `MetadorMeta.__setitem__ / get / query / __contains__` and
`MetadorContainerTOC.query` of the container model (`Model/Container.lean`). All theorems are about
states satisfying the invariant `Inv e s` (kept by every operation: C06) and about handles that
agree with the tree (`HOK s h`: what `node.meta` gives for an existing user node,
`openHandle_HOK`, and what every `set` / `del` on a kept handle preserves, `metaStep_inv`).

The rule that the code implements (`Answers`): an attached object of schema `q` answers a request
for `(name, ver)` iff `q.name = name` and the version fits, or a *proper* ancestor `A` of `q`
(`A ∈ parent_path(q)`, `A ≠ q`) has `A.name = name` and its version fits; "fits" (`VerOK`) means: no
version requested, or `PluginRef(name, ver).supports(ref)` — same major, requested minor ≥ minor
of `ref` (a newer reader accepts older objects, as in `_get_raw` and `TOCSchemas.versions`).
-/
namespace MetadorModel.C07
open MetadorModel.Container

variable {e : Env} {s : St} {h : Handle}

/-! ## `get` -/

/-- Soundness of `get`: whatever `get(name, ver)` returns is an object attached to this node (its
bytes `tok` are the stored bytes), its schema answers the request (`Answers`), and it is parsed
with the class the plugin system resolves for the *requested* schema — the "parent-schema view"
when the stored schema is a descendant (that this parse succeeds is C13). -/
theorem get_sound (hi : Inv e s) (hh : HOK s h) {name : String} {ver : Option Ver} {g : GetResult}
    (hget : h.get e s name ver = .ok (some g)) :
    ∃ info q u tok, e.requireSchema name ver = .ok info ∧
      get? s.raw (h.baseDir ++ [.obj q u]) = some (.ds (.data tok)) ∧ Answers e name ver q ∧
      g = ⟨info.ref, ⟨u, q, h.baseDir ++ [.obj q u]⟩, tok⟩ := by
  unfold Handle.get at hget
  cases hreq : e.requireSchema name ver with
  | error err =>
    rw [getAll_err hreq] at hget
    split_ifs at hget <;> simp [Except.map] at hget
  | ok info =>
    rw [getAll_eq hreq] at hget
    simp only [Except.map, Except.ok.injEq] at hget
    have hmem := List.mem_of_mem_head? hget
    obtain ⟨q, u, tok, htok, ha, rfl⟩ := (mem_getAll hi hh hreq g).mp ⟨_, getAll_eq hreq, hmem⟩
    exact ⟨info, q, u, tok, rfl, htok, ha, rfl⟩

/-- Completeness of `get`: if the requested schema resolves (installed, not auxiliary) and some
attached object answers the request, `get` returns an object (a sound one, by `get_sound`). -/
theorem get_complete (hi : Inv e s) (hh : HOK s h) {name : String} {ver : Option Ver} {info : SInfo}
    (hreq : e.requireSchema name ver = .ok info) {q : SRef} {u : Nat} {tok : String}
    (htok : get? s.raw (h.baseDir ++ [.obj q u]) = some (.ds (.data tok))) (ha : Answers e name ver q) :
    ∃ g, h.get e s name ver = .ok (some g) := by
  obtain ⟨l, hl, hmem⟩ := (mem_getAll hi hh hreq _).mpr ⟨q, u, tok, htok, ha, rfl⟩
  unfold Handle.get
  rw [hl]
  cases l with
  | nil => simp at hmem
  | cons g l => exact ⟨g, rfl⟩

/-- `get` returns `None` only if no attached object answers the request -/
theorem get_none (hi : Inv e s) (hh : HOK s h) {name : String} {ver : Option Ver}
    (hget : h.get e s name ver = .ok none) :
    ¬ ∃ q u, get? s.raw (h.baseDir ++ [.obj q u]) ≠ none ∧ Answers e name ver q := by
  rintro ⟨q, u, hg, ha⟩
  have hq : q ∈ h.query s.c name ver := (mem_query hi hh name ver q).mpr ⟨⟨u, hg⟩, ha⟩
  unfold Handle.get at hget
  cases hreq : e.requireSchema name ver with
  | error err =>
    rw [getAll_err hreq] at hget
    split_ifs at hget with hnil
    · rw [hnil] at hq; simp at hq
    · simp [Except.map] at hget
  | ok info =>
    obtain ⟨tok, htok⟩ := obj_content hi hh hg
    obtain ⟨g, hg'⟩ := get_complete hi hh hreq htok ha
    unfold Handle.get at hg'
    rw [hg'] at hget; cases hget

/-- *"A metadata object attached to a node is returned equal to the stored object when requested
by its schema"*: an attached object of schema `q` is what `get(q.name, ver)` returns (stored bytes,
stored schema and uuid), for no version or any version that fits; the exact schema always wins
over child-schema instances. -/
theorem get_stored (hi : Inv e s) (hh : HOK s h) {q : SRef} {u : Nat} {tok : String}
    (htok : get? s.raw (h.baseDir ++ [.obj q u]) = some (.ds (.data tok)))
    {ver : Option Ver} (hv : VerOK q.name ver q) {info : SInfo} (hreq : e.requireSchema q.name ver = .ok info) :
    h.get e s q.name ver = .ok (some ⟨info.ref, ⟨u, q, h.baseDir ++ [.obj q u]⟩, tok⟩) :=
  get_exact hi hh hreq rfl hv htok

/-- … in particular through a fresh `node.meta` of the node that carries it -/
theorem get_stored_node (hi : Inv e s) {x : Path} {k : Bool} (hx : isInternal x = false)
    (hk : nodeKind s x = some k) {q : SRef} {u : Nat} {tok : String}
    (htok : get? s.raw (metaBase x k ++ [.obj q u]) = some (.ds (.data tok)))
    {ver : Option Ver} (hv : VerOK q.name ver q) {info : SInfo} (hreq : e.requireSchema q.name ver = .ok info) :
    (openHandle s x k).get e s q.name ver = .ok (some ⟨info.ref, ⟨u, q, metaBase x k ++ [.obj q u]⟩, tok⟩) :=
  get_stored hi (openHandle_HOK hi hx hk) htok hv hreq

/-- *"… and as a valid parent-schema view when requested by any ancestor schema"*: if `A` is a
proper ancestor of the stored schema `q` and `A`'s name resolves, `get(A.name, ver)` returns an
object parsed with `A`'s resolved class; the stored object is among the admissible answers
(`getAll`; the real code picks an arbitrary one when several child-schema instances are attached,
and prefers an object of schema `A.name` itself when there is one). -/
theorem parent_view (hi : Inv e s) (hh : HOK s h) {q A : SRef} {u : Nat} {tok : String}
    (htok : get? s.raw (h.baseDir ++ [.obj q u]) = some (.ds (.data tok)))
    (hA : A ∈ ppath e q) (hne : A ≠ q) {ver : Option Ver} (hv : VerOK A.name ver A)
    {info : SInfo} (hreq : e.requireSchema A.name ver = .ok info) :
    (∃ l, h.getAll e s A.name ver = .ok l ∧ ⟨info.ref, ⟨u, q, h.baseDir ++ [.obj q u]⟩, tok⟩ ∈ l) ∧
    ∃ g, h.get e s A.name ver = .ok (some g) ∧ g.parsedAs = info.ref := by
  have ha : Answers e A.name ver q := Or.inr ⟨A, hA, hne, rfl, hv⟩
  refine ⟨(mem_getAll hi hh hreq _).mpr ⟨q, u, tok, htok, ha, rfl⟩, ?_⟩
  obtain ⟨g, hg⟩ := get_complete hi hh hreq htok ha
  obtain ⟨info', _, _, _, hreq', _, _, rfl⟩ := get_sound hi hh hg
  rw [hreq] at hreq'; cases hreq'
  exact ⟨_, hg, rfl⟩

/-- `set` on a handle: what a successful `node.meta[name] = value` leaves behind, and that `get`
then returns the stored value. -/
theorem get_after_set (he : WFEnv e) (hi : Inv e s) (hh : HOK s h) {name : String} {ver : Option Ver}
    {valid : Bool} {tok : String} {h' : Handle} {s' : St}
    (hset : h.set e name ver valid tok s = (.ok h', s')) :
    ∃ info, e.requireSchema name ver = .ok info ∧ info.ref.name = name ∧ valid = true ∧
      Inv e s' ∧ HOK s' h' ∧ h'.baseDir = h.baseDir ∧
      get? s'.raw (h.baseDir ++ [.obj info.ref s.next]) = some (.ds (.data tok)) ∧
      ∀ ver' info', VerOK name ver' info.ref → e.requireSchema name ver' = .ok info' →
        h'.get e s' name ver' =
          .ok (some ⟨info'.ref, ⟨s.next, info.ref, h.baseDir ++ [.obj info.ref s.next]⟩, tok⟩) := by
  have hgr : h.getRaw name none = alGet h.objs name := by
    unfold Handle.getRaw; cases alGet h.objs name <;> rfl
  unfold Handle.set at hset
  cases hg : alGet h.objs name with
  | some st => simp [hgr, hg] at hset
  | none =>
    cases hreq : e.requireSchema name ver with
    | error err => simp [hgr, hg, hreq] at hset
    | ok info =>
      obtain ⟨hinfo, hname, -⟩ := requireSchema_ok hreq
      cases valid with
      | false => simp [hgr, hg, hreq] at hset
      | true =>
        obtain ⟨s1, h1, hrun, hinv, hhok, hbase, hget, -⟩ :=
          setRaw_spec he hi hh hinfo tok (by rw [hname]; exact hg) s.next rfl
        simp only [hgr, hg, Option.isSome_none, Bool.false_eq_true, if_false, hreq, Bool.not_true, bind,
          M.bind, run_pure, hrun] at hset
        cases hset
        refine ⟨info, rfl, hname, rfl, hinv, hhok, hbase, hget, fun ver' info' hv hreq' => ?_⟩
        have := get_exact hinv hhok (q := info.ref) (u := s.next) (tok := tok) hreq' hname hv
          (by rw [hbase]; exact hget)
        rw [hbase] at this; exact this

/-! ## "… until it is deleted" -/

/-- any sequence of `set` / `del` / `get` on the node's `meta` handle that does not delete the
schema name of a stored object leaves that object in place with its bytes (whatever the outcomes
of the individual operations are); `get_stored` then applies to the resulting state -/
theorem stored_until_deleted (he : WFEnv e) (hi : Inv e s) {x : Path} {k : Bool} (hx : isInternal x = false)
    (hk : nodeKind s x = some k) (ops : List MetaOp) {q : SRef} {u : Nat} {tok : String}
    (hobj : get? s.raw (metaBase x k ++ [.obj q u]) = some (.ds (.data tok)))
    (hnd : ∀ n, MetaOp.del n ∈ ops → n ≠ q.name) :
    get? (opMeta e x ops s).2.raw (metaBase x k ++ [.obj q u]) = some (.ds (.data tok)) := by
  unfold opMeta guardPath
  simp only [hx, Bool.false_eq_true, if_false, bind, M.bind, run_pure, run_getSt, hk, run_ofOpt_some, metaSeq]
  exact metaSeq_keeps he ops hi (openHandle_HOK hi hx hk) (h := openHandle s x k) hobj hnd

/-- creating other nodes does not touch stored objects -/
theorem stored_survives_create {p : Path} {n : Node} (hobj : get? s.raw p = some n) (q : Path) (tok : String) :
    get? (opCreateGroup q s).2.raw p = some n ∧ get? (opCreateDataset q tok s).2.raw p = some n :=
  ⟨opCreateGroup_keeps q hobj, opCreateDataset_keeps q tok hobj⟩

/-- deleting a node does not touch the objects of nodes that are neither that node nor below it -/
theorem stored_survives_delete (he : WFEnv e) (hi : Inv e s) (p : Path) {k : Bool}
    (hk : nodeKind s p = some k) {pp : Path} {r : SRef} {u : Nat} {tok : String}
    (ho : ObjAt s.raw pp r u) (htok : get? s.raw pp = some (.ds (.data tok)))
    (hnp : ¬ p <+: pp) (hnd : pp.dropLast ≠ metaBase p k) :
    get? (opDelete p s).2.raw pp = some (.ds (.data tok)) :=
  opDelete_keeps he hi p hk ho htok hnp hnd

/-- closing and reopening does not change the stored tree at all -/
theorem stored_survives_reopen : (opReopen s).2.raw = s.raw := rfl

/-- `copy` (with or without metadata, successful or failed) never changes or removes a node, a
metadata directory or a stored object that existed before: the source keeps its objects with their
bytes and uuids (the copies get fresh uuids, `C06.sync_copy`) -/
theorem stored_survives_copy (he : WFEnv e) (hi : Inv e s) (src dst : Path) (withoutMeta : Bool) {q : Path}
    {n : Node} (hqt : q.head? ≠ some .toc) (hq : get? s.raw q = some n) :
    get? (opCopy e src dst withoutMeta s).2.raw q = some n := opCopy_keeps he hi src dst withoutMeta hqt hq

/-- `move` does not touch anything outside the moved node and (for a dataset) its metadata
directory … -/
theorem stored_survives_move (hi : Inv e s) (src dst : Path) (hname : dst.getLast? ≠ some (.user ""))
    {q : Path} {n : Node} (hqt : q.head? ≠ some .toc) (hq : get? s.raw q = some n) (hns : ¬ src <+: q)
    (hnm : ∀ k, nodeKind s src = some k → ¬ metaBase src k <+: q) :
    get? (opMove e src dst s).2.raw q = some n := (opMove_spec hi src dst hname).2.1 q n hqt hq hns hnm

/-- … and a successful `move` takes the metadata along unchanged: a moved group is found with
everything below it (metadata directories and objects included) at the new place, a moved dataset
together with its metadata directory -/
theorem stored_follows_move (hi : Inv e s) (src dst : Path) (hname : dst.getLast? ≠ some (.user ""))
    (hok : (opMove e src dst s).1 = .ok ()) :
    (nodeKind s src = some false → ∀ c, get? (opMove e src dst s).2.raw (dst ++ c) = get? s.raw (src ++ c)) ∧
    (nodeKind s src = some true → get? (opMove e src dst s).2.raw dst = get? s.raw src ∧
      ∀ c, get? (opMove e src dst s).2.raw (metaBase dst true ++ c) = get? s.raw (metaBase src true ++ c)) :=
  (opMove_spec hi src dst hname).2.2 hok

/-! ## at most one object per schema; refused schemas -/

/-- *"each node holds at most one object per schema"* (state): two objects with the same schema
name in the metadata directory of one node are the same object. -/
theorem one_per_schema (hi : Inv e s) {x : Path} {k : Bool} (hx : isInternal x = false)
    (hk : nodeKind s x = some k) {r r' : SRef} {u u' : Nat}
    (h1 : get? s.raw (metaBase x k ++ [.obj r u]) ≠ none) (h2 : get? s.raw (metaBase x k ++ [.obj r' u']) ≠ none)
    (hn : r.name = r'.name) : r = r' ∧ u = u' := by
  obtain ⟨b, m, hb, hbase, -, -⟩ := (openHandle_HOK hi hx hk).base
  have hb' : metaBase x k = b ++ [.metaDir m] := hbase
  rw [hb'] at h1 h2
  exact hi.mok.onename b m r u r' u' hb (by simpa using h1) (by simpa using h2) hn

/-- … (operation): storing a second object of a schema that is already present is refused with
`ValueError` and changes nothing. -/
theorem second_object_refused (hh : HOK s h) {name : String} {r : SRef} {u : Nat}
    (hn : r.name = name) (hg : get? s.raw (h.baseDir ++ [.obj r u]) ≠ none)
    (ver : Option Ver) (valid : Bool) (tok : String) :
    h.set e name ver valid tok s = (.error .value, s) := by
  have hst := (hh.objs name ⟨u, r, h.baseDir ++ [.obj r u]⟩).mpr ⟨r, u, hn, rfl, hg⟩
  have hgr : h.getRaw name none = alGet h.objs name := by
    unfold Handle.getRaw; cases alGet h.objs name <;> rfl
  simp [Handle.set, hgr, hst]

/-- *"auxiliary or unknown schemas are refused"*: whenever the requested schema does not resolve to
an installed, non-auxiliary schema, `set` raises and leaves the container as it was -/
theorem aux_or_unknown_refused {name : String} {ver : Option Ver}
    (hbad : ∀ i, e.requireSchema name ver ≠ .ok i) (valid : Bool) (tok : String) :
    ∃ err, h.set e name ver valid tok s = (.error err, s) := by
  unfold Handle.set
  cases hg : (h.getRaw name none).isSome with
  | true => exact ⟨.value, by simp⟩
  | false =>
    cases hreq : e.requireSchema name ver with
    | error err => exact ⟨err, by simp⟩
    | ok i => exact absurd hreq (hbad i)

/-- an unknown schema (nothing installed under that name / no compatible version): `KeyError` -/
theorem unknown_refused {name : String} {ver : Option Ver} (hnew : alGet h.objs name = none)
    (hres : e.resolve name ver = none) (valid : Bool) (tok : String) :
    h.set e name ver valid tok s = (.error .key, s) := by
  have hgr : h.getRaw name none = none := by unfold Handle.getRaw; rw [hnew]
  simp [Handle.set, hgr, Env.requireSchema, hres]

/-- an auxiliary schema: `TypeError` -/
theorem aux_refused {name : String} {ver : Option Ver} (hnew : alGet h.objs name = none)
    {r : SRef} {i : SInfo} (hres : e.resolve name ver = some r) (hinfo : e.info r = some i)
    (haux : i.aux = true) (valid : Bool) (tok : String) :
    h.set e name ver valid tok s = (.error .type, s) := by
  have hgr : h.getRaw name none = none := by unfold Handle.getRaw; rw [hnew]
  simp [Handle.set, hgr, Env.requireSchema, hres, hinfo, haux]

/-! ## container- and group-level queries -/

/-- *"A container- or group-level query for a schema (optionally with a version) yields exactly the
nodes at or below the start node that carry an object of that schema or of a descendant schema in
a version-compatible release, and nothing else."* `Carries e s x name ver`: the user node `x`
exists and its metadata directory holds an object whose schema `Answers` the request. -/
theorem query_exact (hi : Inv e s) {start : Path} (hs : isInternal start = false) {name : String}
    {ver : Option Ver} {l : List Path} (h : tocQuery s start name ver = .ok l) (x : Path) :
    x ∈ l ↔ (start <+: x ∧ isInternal x = false ∧ Carries e s x name ver) :=
  tocQuery_mem hi hs h x

/-- the query succeeds exactly for a non-empty schema name and an existing start node -/
theorem query_ok_iff {start : Path} {name : String} {ver : Option Ver} :
    (∃ l, tocQuery s start name ver = .ok l) ↔ (name ≠ "" ∧ nodeKind s start ≠ none) := by
  unfold tocQuery
  by_cases hn : name = ""
  · simp [hn]
  · cases hk : nodeKind s start with
    | none => simp [hn]
    | some k => cases k <;> simp [hn]

/-! ## Non-vacuity -/

open MetadorModel.C06 in
/-- in the state after `C06.hist1` (dataset `/g/d` carries a `vt.cc` object): a container-level
query for the grandparent schema `vt.aa` finds the dataset, a query for the sibling branch does not -/
example : tocQuery (run env3 initSt hist1) [] "vt.aa" none = .ok [[.user "g", .user "d"]] ∧
    tocQuery (run env3 initSt hist1) [] "ot.dd" none = .ok [] := by decide +kernel

open MetadorModel.C06 in
/-- … and `get` by the grandparent schema yields the stored bytes parsed as `vt.aa` -/
example : ((openHandle (run env3 initSt hist1) [.user "g", .user "d"] true).get env3 (run env3 initSt hist1)
    "vt.aa" none).toOption.join.map (fun g => (g.parsedAs, g.stored.schema, g.tok)) = some (aa, cc, "t1") := by
  decide +kernel

end MetadorModel.C07
