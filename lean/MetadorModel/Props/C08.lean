import MetadorModel.Proofs.Paths
import MetadorModel.Proofs.PathsAlias
import MetadorModel.Bridge.GroupMethods
import MetadorModel.Bridge.Paths
/-!
# C08 — Reserved `metador_*` namespace is invisible and untouchable for users

Property theorems about `MetadorModel.Paths` (path predicates of `container/utils.py`, guard
sequencing of the wrapper methods, filtered listings over a flat raw tree) and about the
method table that is re-extracted from `container/wrappers.py` on every run
(`Gen.groupMethods`). Helper lemmas live in `Proofs/Paths.lean`.

"Reserved" is the specification predicate `hasReservedSeg p`: some `/`-separated segment of
`p` starts with `metador_`.
-/
namespace MetadorModel.C08
open MetadorModel MetadorModel.Paths

/-! ## The predicate is exactly "some segment starts with `metador_`" -/

/-- `is_internal_path(p)` ⇔ some `/`-segment of `p` starts with `metador_` — relative,
absolute and nested alike; nothing else is refused. -/
theorem isInternal_iff (p : Str) :
    isInternalPath p = true ↔ ∃ seg ∈ pySplit p '/', pyStartswith seg METADOR_PREF = true :=
  isInternalPath_iff p

/-- the same for an arbitrary separator-free prefix (`find_missing` uses `metador_meta_`) -/
theorem isInternal_of_reserved_seg (p pref : Str) (hp : '/' ∉ pref) :
    isInternalPathP p pref = true ↔ ∃ seg ∈ pySplit p '/', pyStartswith seg pref = true :=
  isInternalPathP_iff p pref hp

example : isInternalPath "a/b/metador_meta_x/c".toList = true ∧ isInternalPath "/metador_container".toList = true ∧
    isInternalPath "metador_".toList = true := by decide

/-- near misses are not reserved (no false refusals): the guard passes them -/
theorem near_miss_not_reserved :
    isInternalPath "xmetador_".toList = false ∧ isInternalPath "metador".toList = false ∧
    isInternalPath "Metador_x".toList = false ∧ isInternalPath "a/_metador_x/b".toList = false ∧
    isInternalPath "/foo/xmetador_meta_bar".toList = false ∧
    (guardPath false "g2/metador".toList).isOk = true := by decide

/-! ## Metadata directory ↔ node path -/

/-- prefix of a prefix -/
private theorem startswith_of_append (a b x : Str) (h : pyStartswith x (a ++ b) = true) :
    pyStartswith x a = true := by
  induction a generalizing x with
  | nil => simp
  | cons c a ih =>
    cases x with
    | nil => simp at h
    | cons d x =>
      simp only [List.cons_append, pyStartswith_cons_cons, Bool.and_eq_true] at h ⊢
      exact ⟨h.1, ih x h.2⟩

/-- the segment list `to_meta_base_path` joins, for `p.split("/") = i ++ [l]` -/
private theorem metaBase_segs (p : Str) (ds : Bool) (i : List Str) (l : Str)
    (hi : pySplit p '/' = i ++ [l]) :
    ∃ segs : List Str, toMetaBasePath p ds = pyJoin '/' segs ∧ pySplit (toMetaBasePath p ds) '/' = segs ∧
      segs = (if ds then i ++ [METADOR_META_PREF ++ l]
              else if (i ++ [l] == [[], []]) then [[], METADOR_META_PREF]
              else i ++ [l] ++ [METADOR_META_PREF]) := by
  have hns := pySplit_no_sep p '/'
  rw [hi] at hns
  have hi_ns : ∀ seg ∈ i, '/' ∉ seg := fun seg h => hns seg (List.mem_append_left _ h)
  have hl_ns : '/' ∉ l := hns l (by simp)
  have hm_ns : '/' ∉ METADOR_META_PREF ++ l := by
    intro hm
    rcases List.mem_append.mp hm with h2 | h2
    · exact meta_pref_no_slash h2
    · exact hl_ns h2
  cases ds with
  | true =>
    have h1 : toMetaBasePath p true = pyJoin '/' (i ++ [METADOR_META_PREF ++ l]) := by
      unfold toMetaBasePath
      simp only [hi, ↓reduceIte, pyLast_append_one, pySetLast_append_one]
    refine ⟨_, h1, ?_, by simp⟩
    rw [h1]
    refine split_join '/' _ (by simp) ?_
    intro seg h
    rcases List.mem_append.mp h with h | h
    · exact hi_ns seg h
    · simp only [List.mem_singleton] at h
      rw [h]; exact hm_ns
  | false =>
    by_cases hroot : (i ++ [l] == [[], []]) = true
    · have h1 : toMetaBasePath p false = pyJoin '/' [[], METADOR_META_PREF] := by
        unfold toMetaBasePath
        have h0 : i ++ [l] = [[], []] := by simpa using hroot
        simp only [hi, Bool.false_eq_true, ↓reduceIte, h0]
        rfl
      refine ⟨_, h1, ?_, by simp [hroot]⟩
      rw [h1]; decide
    · have h1 : toMetaBasePath p false = pyJoin '/' (i ++ [l] ++ [METADOR_META_PREF]) := by
        unfold toMetaBasePath
        simp only [hi, Bool.false_eq_true, ↓reduceIte, hroot]
      refine ⟨_, h1, ?_, by simp [hroot]⟩
      rw [h1]
      refine split_join '/' _ (by simp) ?_
      intro seg h
      rcases List.mem_append.mp h with h | h
      · exact hns seg h
      · simp only [List.mem_singleton] at h
        rw [h]; exact meta_pref_no_slash

/-- the metadata directory of any node is a reserved path and is recognised as a base dir -/
theorem metaBase_is_reserved (p : Str) (ds : Bool) :
    hasReservedSeg (toMetaBasePath p ds) ∧ isMetaBasePath (toMetaBasePath p ds) = true ∧
    isInternalPath (toMetaBasePath p ds) = true := by
  obtain ⟨i, hi⟩ := exists_init_last (pySplit p '/') (pySplit_ne_nil p '/')
  generalize pyLast (pySplit p '/') = l at hi
  obtain ⟨segs, _, hsplit, hsegs⟩ := metaBase_segs p ds i l hi
  have hlast : segs ≠ [] ∧ pyStartswith (pyLast segs) METADOR_META_PREF = true := by
    rw [hsegs]
    cases ds with
    | true =>
      simp only [↓reduceIte, pyLast_append_one]
      exact ⟨by simp, pyStartswith_append _ _⟩
    | false =>
      simp only [Bool.false_eq_true, ↓reduceIte]
      split_ifs
      · exact ⟨by simp, by decide⟩
      · rw [pyLast_append_one]
        exact ⟨by simp, by decide⟩
  have hres : hasReservedSeg (toMetaBasePath p ds) := by
    refine ⟨pyLast segs, by rw [hsplit]; exact pyLast_mem segs hlast.1, ?_⟩
    exact startswith_of_append METADOR_PREF "meta_".toList _ hlast.2
  refine ⟨hres, ?_, (isInternalPath_iff _).mpr hres⟩
  unfold isMetaBasePath
  rw [hsplit]; exact hlast.2

/-- `to_data_node_path(to_meta_base_path(p, is_dataset)) == p` for every node name: `p` is not
empty, and a dataset name does not end in `/` (HDF5 node names: `/` or `/a/b`, relative `a/b`). -/
theorem metaBase_roundtrip (p : Str) (ds : Bool) (hp : p ≠ [])
    (hds : ds = true → pyLast (pySplit p '/') ≠ [] ∨ p = ['/']) :
    toDataNodePath (toMetaBasePath p ds) = p := by
  have hjoin := join_split p '/'
  obtain ⟨i, hi⟩ := exists_init_last (pySplit p '/') (pySplit_ne_nil p '/')
  generalize pyLast (pySplit p '/') = l at hi hds
  obtain ⟨segs, _, hsplit, hsegs⟩ := metaBase_segs p ds i l hi
  rw [hi] at hjoin
  have hdrop : ∀ x : Str, pyDrop METADOR_META_PREF.length (METADOR_META_PREF ++ x) = x := by
    intro x; simp [pyDrop]
  have hdrop0 : pyDrop METADOR_META_PREF.length METADOR_META_PREF = [] := by decide
  cases ds with
  | true =>
    rcases hds rfl with hlast | hroot
    · unfold toDataNodePath
      simp only [hsplit, hsegs, ↓reduceIte, pyLast_append_one, pySetLast_append_one, hdrop]
      have : (l == []) = false := by simpa using hlast
      simp only [this, Bool.false_and, Bool.false_eq_true, ↓reduceIte]
      exact hjoin
    · subst hroot; decide
  | false =>
    by_cases hroot : (i ++ [l] == [[], []]) = true
    · have h0 : i ++ [l] = [[], []] := by simpa using hroot
      have : p = ['/'] := by rw [← hjoin, h0]; rfl
      subst this; decide
    · unfold toDataNodePath
      simp only [hsplit, hsegs, Bool.false_eq_true, ↓reduceIte, hroot, pyLast_append_one,
        pySetLast_append_one, hdrop0, beq_self_eq_true, Bool.true_and]
      have hcond : (decide ((i ++ [l] ++ [([] : Str)]).length > 2) ||
          pyHead (i ++ [l] ++ [([] : Str)]) != []) = true := by
        rw [pyHead_append _ _ (by simp)]
        cases i with
        | nil =>
          -- one segment: it is `p` itself, hence not empty
          have : p = l := by rw [← hjoin]; rfl
          have hl : l ≠ [] := this ▸ hp
          simp [pyHead, hl]
        | cons a i => simp
      simp only [hcond, ↓reduceIte, pyPop_append_one]
      exact hjoin

example : toMetaBasePath "/a/b".toList true = "/a/metador_meta_b".toList ∧
    toMetaBasePath "/a/b".toList false = "/a/b/metador_meta_".toList ∧
    toMetaBasePath "/".toList false = "/metador_meta_".toList ∧
    toDataNodePath "a/b/metador_meta_".toList = "a/b".toList := by decide

/-- the hypotheses of `metaBase_roundtrip` cannot be dropped: the empty name and a dataset
name ending in `/` do not come back -/
example : toDataNodePath (toMetaBasePath [] false) ≠ [] ∧
    toDataNodePath (toMetaBasePath "a/".toList true) ≠ "a/".toList := by decide

/-! ## Every path-taking method refuses reserved paths without effect -/

/-- the extracted method table satisfies the guard discipline (re-checked on every run) -/
theorem methods_guarded : ∀ m ∈ Gen.groupMethods, m.guardsAllPaths = true :=
  Bridge.GroupMethods.methods_guarded

/-- A method whose guard sequence covers all its path-typed argument positions, called with a
reserved path in any of these positions (whatever the other arguments, the ACL flags, the raw
operation and the raw state are), raises and leaves the raw state unchanged. -/
theorem reserved_rejected {σ : Type} (m : MethodShape) (hm : m.guardsAllPaths = true)
    (raw : σ → List Str → Except Err σ) (s : σ) (loc ro : Bool) (args : List Str)
    (i : Nat) (hi : i ∈ m.pathArgs) (p : Str) (hp : args[i]? = some p) (hr : hasReservedSeg p) :
    (∃ e, wrappedCall loc ro m.guards raw s args = .error e) ∧
    stateAfter s (wrappedCall loc ro m.guards raw s args) = s := by
  have hg : Guard.path i ∈ m.guards := by
    have := List.all_eq_true.mp hm i hi
    simpa using this
  obtain ⟨e, he⟩ := runGuards_reserved loc ro args i p hp ((isInternalPath_iff p).mpr hr) m.guards hg
  have : wrappedCall loc ro m.guards raw s args = .error e := by simp [wrappedCall, he]
  exact ⟨⟨e, this⟩, by rw [this]; rfl⟩

/-- … and this holds for every method of the table extracted from the current source, for
every argument position (source, destination string, destination group + `name=` (the computed
`dst_path`), positional name/path). -/
theorem reserved_rejected_table {σ : Type} (m : GMethod) (hm : m ∈ Gen.groupMethods)
    (raw : σ → List Str → Except Err σ) (s : σ) (loc ro : Bool) (args : List Str)
    (i : Nat) (hi : i < m.userPaths.length) (p : Str) (hp : args[i]? = some p)
    (hr : hasReservedSeg p) :
    (∃ e, wrappedCall loc ro m.shape.guards raw s args = .error e) ∧
    stateAfter s (wrappedCall loc ro m.shape.guards raw s args) = s := by
  have h := methods_guarded m hm
  simp only [GMethod.guardsAllPaths, Bool.and_eq_true, beq_iff_eq] at h
  obtain ⟨⟨⟨⟨⟨h1, _⟩, _⟩, _⟩, _⟩, h6⟩ := h
  have hi' : i ∈ m.shape.pathArgs := by rw [h6]; exact List.mem_range.mpr hi
  exact reserved_rejected m.shape h1 raw s loc ro args i hi' p hp hr

/-- non-vacuity: `copy` called on a state `5` with a reserved `dst_path` (position 1) -/
example : ∃ m, Gen.groupMethods.find? (fun m => m.name == "copy") = some m ∧
    m.userPaths = ["source", "dst_path"] ∧
    (wrappedCall false false m.shape.guards (fun (s : Nat) _ => .ok (s + 1)) 5
      ["x".toList, "/g/metador_evil".toList]).toOption = none ∧
    (wrappedCall false false m.shape.guards (fun (s : Nat) _ => .ok (s + 1)) 5
      ["x".toList, "/g/ok".toList]).toOption = some 6 := ⟨_, rfl, by decide, by decide, by decide⟩

/-- `name in group` with a reserved name is refused, too -/
theorem contains_reserved_rejected (loc : Bool) (raw : Raw) (g p : Str) (hr : hasReservedSeg p) :
    Paths.contains loc raw g p = .error .internalPath := by
  simp [Paths.contains, guardPath_reserved loc p ((isInternalPath_iff p).mpr hr)]

/-! ## Listings only expose user nodes -/

/-- Whatever the raw tree contains (in particular: nodes with reserved names planted or left
behind), `keys/values/items/__iter__/__len__/__reversed__` and `visit/visititems` of a group
present no name with a reserved segment, and `len` counts exactly the presented keys. -/
theorem userView_hides (raw : Raw) (g : Str) :
    (∀ k ∈ keys raw g, ¬ hasReservedSeg k) ∧ (∀ n ∈ visit raw g, ¬ hasReservedSeg n) ∧
    len raw g = (keys raw g).length := by
  have core : ∀ (r : Str) (nd : RawNode), (r, nd) ∈ rawBelow raw g →
      isInternalPath nd.name = false → ¬ hasReservedSeg r := by
    intro r nd hmem hint hres
    simp only [rawBelow, List.mem_filterMap, Option.map_eq_some_iff, Prod.mk.injEq] at hmem
    obtain ⟨nd', _, r', hrel, hr', hnd⟩ := hmem
    subst hr' hnd
    obtain ⟨q, hq⟩ := relName_eq g nd'.name r' hrel
    have := (isInternalPath_iff nd'.name).mpr (hq ▸ reserved_rel_abs q r' hres)
    rw [hint] at this
    cases this
  refine ⟨?_, ?_, rfl⟩
  · intro k hk
    simp only [keys, items, rawChildren, List.mem_map, List.mem_filter, Bool.not_eq_eq_eq_not,
      Bool.not_true] at hk
    obtain ⟨⟨r, nd⟩, ⟨⟨hmem, _⟩, hint⟩, hk⟩ := hk
    subst hk
    exact core r nd hmem hint
  · intro n hn
    simp only [visit, List.mem_map, List.mem_filter, Bool.not_eq_eq_eq_not, Bool.not_true] at hn
    obtain ⟨⟨r, nd⟩, ⟨hmem, hint⟩, hn⟩ := hn
    subst hn
    exact core r nd hmem hint

/-- non-vacuity: a raw tree with bookkeeping and planted reserved nodes; the user sees `foo`
and `xmetador_` only, `visit` hides everything below a reserved group -/
example :
    let raw : Raw := [⟨"/foo".toList, true⟩, ⟨"/foo/bar".toList, false⟩, ⟨"/foo/metador_meta_bar".toList, true⟩,
      ⟨"/metador_container".toList, true⟩, ⟨"/metador_container/version".toList, false⟩,
      ⟨"/xmetador_".toList, true⟩, ⟨"/foo/metador_x".toList, true⟩, ⟨"/foo/metador_x/deep".toList, false⟩]
    keys raw "/".toList = ["foo".toList, "xmetador_".toList] ∧
    visit raw "/".toList = ["foo".toList, "foo/bar".toList, "xmetador_".toList] ∧
    keys raw "/foo".toList = ["bar".toList] ∧ len raw "/".toList = 2 := by decide

/-! ## The bookkeeping never disturbs user data

Raw operations on the flat raw tree (`create`, `delete` with everything below, `copy` with
everything below, `move`); user operations and the bookkeeping of `MetadorMeta` / the TOC are
both sequences of them. -/

/-- A bookkeeping operation (what it creates, deletes, copies to or moves lies in the reserved
namespace) leaves the user-visible tree exactly as it was. -/
theorem bookkeeping_invisible (op : RawOp) (h : op.isBookkeeping = true) (raw : Raw) :
    userView (applyRaw op raw) = userView raw := by
  cases op with
  | create n =>
    simp only [RawOp.isBookkeeping] at h
    simp [applyRaw, userView, h]
  | delete p => exact userView_delete_internal p h raw
  | copy s d =>
    simp only [RawOp.isBookkeeping] at h
    simp only [applyRaw, rawCopy_eq, userView_append, userView_copied_internal s d h, List.append_nil]
  | move s d =>
    simp only [RawOp.isBookkeeping, Bool.and_eq_true] at h
    simp only [applyRaw, rawCopy_eq]
    rw [userView_delete_internal s h.1, userView_append, userView_copied_internal s d h.2, List.append_nil]

/-- A user operation acts on the user-visible tree exactly as it would on a plain tree that
never had any bookkeeping in it: `userView (step raw op) = step (userView raw) op`. -/
theorem userView_refines (op : RawOp) (h : op.isUser = true) (raw : Raw) :
    userView (applyRaw op raw) = applyRaw op (userView raw) := by
  cases op with
  | create n =>
    simp only [RawOp.isUser] at h
    simp [applyRaw, userView, h]
  | delete p => exact userView_delete_comm p raw
  | copy s d =>
    simp only [RawOp.isUser, Bool.and_eq_true, Bool.not_eq_eq_eq_not, Bool.not_true] at h
    simp only [applyRaw, rawCopy_eq, userView_append, userView_copied_user s d h.1 h.2]
  | move s d =>
    simp only [RawOp.isUser, Bool.and_eq_true, Bool.not_eq_eq_eq_not, Bool.not_true] at h
    simp only [applyRaw, rawCopy_eq]
    rw [userView_delete_comm, userView_append, userView_copied_user s d h.1 h.2]

/-- … hence for whole histories: interleave any bookkeeping with the user operations, the
user-visible tree is the plain tree driven by the user operations alone. -/
theorem userView_history (ops : List RawOp) (h : ∀ op ∈ ops, op.isUser = true ∨ op.isBookkeeping = true)
    (raw : Raw) :
    userView (ops.foldl (fun r op => applyRaw op r) raw) =
    (ops.filter (·.isUser)).foldl (fun r op => applyRaw op r) (userView raw) := by
  induction ops generalizing raw with
  | nil => rfl
  | cons op ops ih =>
    have hrest : ∀ o ∈ ops, o.isUser = true ∨ o.isBookkeeping = true :=
      fun o ho => h o (List.mem_cons_of_mem _ ho)
    simp only [List.foldl_cons]
    rw [ih hrest]
    by_cases hu : op.isUser = true
    · simp only [List.filter_cons, hu, ↓reduceIte, List.foldl_cons, userView_refines op hu]
    · have hb : op.isBookkeeping = true := by
        rcases h op (by simp) with h1 | h1
        · exact absurd h1 hu
        · exact h1
      simp only [List.filter_cons, hu, Bool.false_eq_true, ↓reduceIte, bookkeeping_invisible op hb]

/-- non-vacuity: data with metadata directories and TOC entries; a copy of the group (which
copies the metadata directory along), bookkeeping that renames the copied metadata object, and
a delete — the user sees the plain result -/
example :
    let raw : Raw := [⟨"/foo".toList, true⟩, ⟨"/foo/bar".toList, false⟩, ⟨"/foo/metador_meta_bar".toList, true⟩,
      ⟨"/foo/metador_meta_bar/core.bib__0.1.0=u1".toList, false⟩, ⟨"/metador_container".toList, true⟩]
    let ops : List RawOp := [.copy "/foo".toList "/baz".toList,
      .move "/baz/metador_meta_bar/core.bib__0.1.0=u1".toList "/baz/metador_meta_bar/core.bib__0.1.0=u2".toList,
      .create ⟨"/metador_container/links/u2".toList, false⟩, .delete "/foo/bar".toList]
    (userView (ops.foldl (fun r op => applyRaw op r) raw)).map (·.name) =
      ["/foo".toList, "/baz".toList, "/baz/bar".toList] ∧
    (ops.map fun o => (o.isUser, o.isBookkeeping)) = [(true, false), (false, true), (false, true), (true, false)] := by
  decide

/-! ## Paths handed over as other types

What a caller passes where a path is expected need not be a `str`: the raw h5py driver takes
`bytes` names as well. `_guard_path` starts with `is_internal_path(path)` on the value as it was
handed over (`Bridge.GroupMethods.guard_path_shape`), which raises for everything that is not a
`str` — so a reserved path cannot be smuggled past the guard by spelling it differently. -/

/-- the typed model extends the `str` model: on `str` arguments the guards decide alike -/
theorem typed_guards_extend_str (loc ro : Bool) (ss : List Str) (gs : List Guard) :
    runGuardsV loc ro (ss.map PathVal.str) gs =
      match runGuards loc ro ss gs with
      | .ok u => .ok u
      | .error e => .error (.guard e) :=
  runGuardsV_str loc ro ss gs

/-- A method whose guard sequence covers all its path-typed argument positions, called with a
value in one of these positions that is not a `str`, or that spells (as `str` or as `bytes`) a
path with a reserved segment, raises and leaves the raw state unchanged — whatever the other
arguments, the ACL flags, the raw operation and the raw state are. -/
theorem typed_rejected {σ : Type} (m : MethodShape) (hm : m.guardsAllPaths = true)
    (raw : σ → List PathVal → Except VErr σ) (s : σ) (loc ro : Bool) (args : List PathVal)
    (i : Nat) (hi : i ∈ m.pathArgs) (v : PathVal) (hp : args[i]? = some v)
    (hv : v.isStr = false ∨ ∃ p, v.text = some p ∧ hasReservedSeg p) :
    (∃ e, wrappedCallV loc ro m.guards raw s args = .error e) ∧
    stateAfterV s (wrappedCallV loc ro m.guards raw s args) = s := by
  have hg : Guard.path i ∈ m.guards := by
    have := List.all_eq_true.mp hm i hi
    simpa using this
  have hbad : ∃ e, guardPathV loc v = .error e := by
    rcases hv with hns | ⟨p, ht, hr⟩
    · exact ⟨_, guardPathV_nonstr loc v hns⟩
    · cases v with
      | str q =>
        simp only [PathVal.text, Option.some.injEq] at ht
        subst ht
        exact ⟨_, guardPathV_reserved loc q ((isInternalPath_iff q).mpr hr)⟩
      | bytes q => exact ⟨_, guardPathV_nonstr loc _ rfl⟩
      | other => exact ⟨_, guardPathV_nonstr loc _ rfl⟩
  obtain ⟨e, he⟩ := runGuardsV_rejects loc ro args i v hp hbad m.guards hg
  have : wrappedCallV loc ro m.guards raw s args = .error e := by simp [wrappedCallV, he]
  exact ⟨⟨e, this⟩, by rw [this]; rfl⟩

/-- … for every method of the table extracted from the current source and every argument
position. -/
theorem typed_rejected_table {σ : Type} (m : GMethod) (hm : m ∈ Gen.groupMethods)
    (raw : σ → List PathVal → Except VErr σ) (s : σ) (loc ro : Bool) (args : List PathVal)
    (i : Nat) (hi : i < m.userPaths.length) (v : PathVal) (hp : args[i]? = some v)
    (hv : v.isStr = false ∨ ∃ p, v.text = some p ∧ hasReservedSeg p) :
    (∃ e, wrappedCallV loc ro m.shape.guards raw s args = .error e) ∧
    stateAfterV s (wrappedCallV loc ro m.shape.guards raw s args) = s := by
  have h := methods_guarded m hm
  simp only [GMethod.guardsAllPaths, Bool.and_eq_true, beq_iff_eq] at h
  obtain ⟨⟨⟨⟨⟨h1, _⟩, _⟩, _⟩, _⟩, h6⟩ := h
  have hi' : i ∈ m.shape.pathArgs := by rw [h6]; exact List.mem_range.mpr hi
  exact typed_rejected m.shape h1 raw s loc ro args i hi' v hp hv

/-- non-vacuity: `move` with the destination `b"metador_container"` / `b"plain"` / a tuple is
refused, with `"plain"` it reaches the raw operation -/
example : ∃ m, Gen.groupMethods.find? (fun m => m.name == "move") = some m ∧
    refusedNotStr (wrappedCallV false false m.shape.guards (fun (s : Nat) _ => .ok (s + 1)) 5
      [.str "x".toList, .bytes "metador_container".toList]) = true ∧
    refusedNotStr (wrappedCallV false false m.shape.guards (fun (s : Nat) _ => .ok (s + 1)) 5
      [.str "x".toList, .bytes "plain".toList]) = true ∧
    refusedNotStr (wrappedCallV false false m.shape.guards (fun (s : Nat) _ => .ok (s + 1)) 5
      [.other, .str "plain".toList]) = true ∧
    (wrappedCallV false false m.shape.guards (fun (s : Nat) _ => .ok (s + 1)) 5
      [.str "x".toList, .str "plain".toList]).toOption = some 6 := ⟨_, rfl, by decide, by decide, by decide, by decide⟩

/-! ## Values that name or reference other nodes

The path guard looks at the name a value is stored under, the listing filter at the name a node
is reported under. A link stored under an ordinary name makes its target reachable — and
listed — under ordinary names. `MetadorGroup.__setitem__` therefore refuses every value of a
link / reference class before anything else (`Bridge.GroupMethods.link_values_refused`). -/

/-- a value of a link / reference class is refused by `__setitem__`, whatever the name, the ACL
flags and the raw driver are, and nothing happens to the raw state -/
theorem link_values_refused {σ : Type} (refused : List String) (h : ∀ ty ∈ linkTypes, ty ∈ refused)
    (loc ro : Bool) (raw : σ → PathVal → SetVal → Except VErr σ) (s : σ) (name : PathVal) (v : SetVal)
    (hv : v.isLink = true) :
    setitemV refused loc ro raw s name v = .error .refValue ∧
    stateAfterV s (setitemV refused loc ro raw s name v) = s := by
  have : setitemV refused loc ro raw s name v = .error .refValue := by
    simp [setitemV, valueRefused_of_link refused h v hv]
  exact ⟨this, by rw [this]; rfl⟩

/-- … in particular with the list of refused classes of the current source -/
theorem link_values_refused_src {σ : Type} (loc ro : Bool) (raw : σ → PathVal → SetVal → Except VErr σ)
    (s : σ) (name : PathVal) (v : SetVal) (hv : v.isLink = true) :
    setitemV Gen.refusedValueTypes loc ro raw s name v = .error .refValue :=
  (link_values_refused Gen.refusedValueTypes Bridge.GroupMethods.link_values_refused.2 loc ro raw s name v hv).1

/-- a value that would be stored as a named datatype (`numpy.dtype`, `h5py.Datatype`) is refused
likewise (F35) … -/
theorem type_values_refused {σ : Type} (refused : List String) (h : ∀ ty ∈ typeTypes, ty ∈ refused)
    (loc ro : Bool) (raw : σ → PathVal → SetVal → Except VErr σ) (s : σ) (name : PathVal) (v : SetVal)
    (hv : v.isType = true) :
    setitemV refused loc ro raw s name v = .error .refValue ∧
    stateAfterV s (setitemV refused loc ro raw s name v) = s := by
  have : setitemV refused loc ro raw s name v = .error .refValue := by
    simp [setitemV, valueRefused_of_type refused h v hv]
  exact ⟨this, by rw [this]; rfl⟩

/-- … so no history of assignments through the wrapper (with the refused classes of the current
source) creates a node that is neither group nor dataset: everything a lookup hands out is a
wrapper object, never the raw driver object with its unfiltered `.parent` / `.file`. -/
theorem no_raw_handle_escapes (t0 : LRaw) (h0 : t0.types = []) (cs : List SetCall) (p : Str) :
    handedOutWrapped (runSets Gen.refusedValueTypes t0 cs) p = true := by
  simp [handedOutWrapped, runSets_types Gen.refusedValueTypes Bridge.GroupMethods.type_values_refused, h0]

/-- before F35 (`_H5_TYPE_TYPES` not refused) one assignment was enough -/
theorem legacy_named_type_escapes :
    let t0 : LRaw := ⟨[⟨"/foo".toList, true⟩, ⟨"/metador_container".toList, true⟩], [], []⟩
    handedOutWrapped (runSets linkTypes t0 [⟨"/".toList, .str "t".toList, .namedType⟩]) "/t".toList = false ∧
    handedOutWrapped (runSets (linkTypes ++ typeTypes) t0 [⟨"/".toList, .str "t".toList, .namedType⟩]) "/t".toList = true := by
  decide

/-- no history of assignments through the wrapper ever stores a link -/
theorem links_never_accepted (refused : List String) (h : ∀ ty ∈ linkTypes, ty ∈ refused)
    (t : LRaw) (cs : List SetCall) : (runSets refused t cs).links = t.links :=
  runSets_links refused h t cs

/-- Hence, starting from a tree without links, after any history of assignments — names and
values of every kind — every name a group lists is free of reserved segments, is not a reserved
path, and denotes the entity of that very name: nothing the user sees or reaches by the names
shown to him is a bookkeeping entity. -/
theorem visible_names_are_user_entities (refused : List String) (h : ∀ ty ∈ linkTypes, ty ∈ refused)
    (t0 : LRaw) (h0 : t0.links = []) (cs : List SetCall) (fuel : Nat) (g k : Str)
    (hk : k ∈ keysL (runSets refused t0 cs) fuel g) :
    ¬ hasReservedSeg k ∧ isInternalPath (childName g k) = false ∧
    denotes (runSets refused t0 cs) fuel (childName g k) = childName g k := by
  have hl : (runSets refused t0 cs).links = [] := by rw [runSets_links refused h, h0]
  refine ⟨?_, ?_, ?_⟩
  · rw [keysL_nolinks _ hl] at hk
    exact (userView_hides _ g).1 k hk
  · unfold keysL at hk
    simpa using (List.mem_filter.mp hk).2
  · simp [denotes, hl, resolve_nil]

theorem visible_names_are_user_entities_src (t0 : LRaw) (h0 : t0.links = []) (cs : List SetCall)
    (fuel : Nat) (g k : Str) (hk : k ∈ keysL (runSets Gen.refusedValueTypes t0 cs) fuel g) :
    ¬ hasReservedSeg k ∧ isInternalPath (childName g k) = false ∧
    denotes (runSets Gen.refusedValueTypes t0 cs) fuel (childName g k) = childName g k :=
  visible_names_are_user_entities Gen.refusedValueTypes Bridge.GroupMethods.link_values_refused.2 t0 h0 cs fuel g k hk

/-- The refusal cannot be relaxed. With `SoftLink` taken out of the refused classes, one
assignment under the ordinary name `toc` makes the table of contents appear in `keys()` of the
root, `toc` and `toc/links` pass the name-based filter, and both denote bookkeeping entities. -/
theorem softlink_accepted_exposes :
    let t0 : LRaw := ⟨[⟨"/foo".toList, true⟩, ⟨"/metador_container".toList, true⟩,
      ⟨"/metador_container/links".toList, true⟩], [], []⟩
    let t := runSets ["HardLink", "ExternalLink", "Reference"] t0
      [⟨"/".toList, .str "toc".toList, .softLink "/metador_container".toList⟩]
    keysL t 4 "/".toList = ["foo".toList, "toc".toList] ∧
    keysL t 4 "/toc".toList = ["links".toList] ∧
    isInternalPath (denotes t 4 "/toc".toList) = true ∧
    isInternalPath (denotes t 4 "/toc/links".toList) = true ∧
    -- … whereas the same assignment is refused by the source as it is
    (runSets linkTypes t0 [⟨"/".toList, .str "toc".toList, .softLink "/metador_container".toList⟩]).links = [] := by
  decide

end MetadorModel.C08
