import MetadorModel.Proofs.Crash
/-!
# C11 — A crash while patching never damages what was committed

Theorems about `MetadorModel.Crash.Reach` (the crash states of `create_patch` … `commit_patch`
unfolded into file-system steps, see `Model/Crash.lean`), the concrete user-block parser of
`Model/UBlock.lean` and `validate` of `Model/Chain.lean`.

Assumed about the file system (stated in the model, not as axioms): a write to one file does
not alter another; an interrupted in-place write leaves a prefix of the new bytes followed by
the old bytes (`torn k old data = data.take k ++ old.drop k`). The payload of the container
that is being written is arbitrary (`∀ p`), so nothing is assumed about what HDF5 leaves
behind. No assumption on the hash function is needed.
-/
namespace MetadorModel.C11
open MetadorModel.Chain MetadorModel.UBlock MetadorModel.Crash List

variable {P M : Type} (H : P → Digest) (HM : M → Digest) (mfAware : Bool)
variable {d0 d : Disk P M} {nn : Name} {uOld uNew : UBT} {pf : P}

/-- **Frame**: no step of creating, filling, committing or discarding a patch touches any file
but the new container (and its own sidecar manifest). -/
theorem crash_frame (h : Reach d0 nn uOld uNew pf d) (n : Name) (hn : n ≠ nn) :
    d.cont n = d0.cont n ∧ d.mf n = d0.mf n :=
  h.frame n hn

/-- **The committed containers, on their own, still open and show the last committed state**:
opening them on the crash disk gives exactly what it gave before the session started. -/
theorem crash_committed_opens (h : Reach d0 nn uOld uNew pf d) {ns : List Name} (hn : nn ∉ ns) :
    openRec H HM mfAware d ns = openRec H HM mfAware d0 ns := by
  unfold openRec
  rw [h.loadFile_other hn]

/-- **Torn first write** (`_new_container`): for every cut `k` the block does not load or loads
as the block that was being written. -/
theorem torn_create_classified (u : UBT) (hw : u.wf = true) (hfit : (frame SZ1024 u).length ≤ UBSIZE)
    (k : Nat) :
    (∃ e, loadUB (torn k (zeros UBSIZE) (frame SZ1024 u)) = .error e) ∨
    loadUB (torn k (zeros UBSIZE) (frame SZ1024 u)) = .ok u.toUB := by
  rcases hl : loadUBT (torn k (zeros UBSIZE) (frame SZ1024 u)) with e | v
  · left; exact ⟨e, by rw [loadUB_eq, hl]; rfl⟩
  · right
    rw [UBlock.torn_create_classified u hw hfit k v hl] at hl
    exact loadUB_ok hl

/-- **Torn commit write**: for every cut `k` of the in-place write of the committed user block over
the uncommitted one, `load` fails, or gives the old block, or gives the new block. -/
theorem torn_classified {h : List Char} (c : CommitPair uOld uNew h) (k : Nat) :
    (∃ e, loadUB (torn k (written (zeros UBSIZE) uOld) (frame SZ1024 uNew)) = .error e) ∨
    loadUB (torn k (written (zeros UBSIZE) uOld) (frame SZ1024 uNew)) = .ok uOld.toUB ∨
    loadUB (torn k (written (zeros UBSIZE) uOld) (frame SZ1024 uNew)) = .ok uNew.toUB := by
  rcases hl : loadUBT (torn k (written (zeros UBSIZE) uOld) (frame SZ1024 uNew)) with e | v
  · left; exact ⟨e, by rw [loadUB_eq, hl]; rfl⟩
  · right
    rcases UBlock.torn_classified c k v hl with rfl | rfl
    · left; exact loadUB_ok hl
    · right; exact loadUB_ok hl

/-- what the new container can look like to `_open` in a crash state: missing / unloadable, the
uncommitted block with any payload, or the committed block with the final payload -/
theorem reach_newfile {h : List Char} (c : CommitPair uOld uNew h) (hfresh : d0.cont nn = none)
    (hr : Reach d0 nn uOld uNew pf d) :
    loadFile d nn = none ∨
    (∃ p ok, loadFile d nn = some ⟨uOld.toUB, p, ok, d.mf nn⟩) ∨
    (∃ ok, loadFile d nn = some ⟨uNew.toUB, pf, ok, d.mf nn⟩) := by
  have hfit_old : (frame SZ1024 uOld).length ≤ UBSIZE := by
    have h1 := c.fits
    rw [frame_length] at h1 ⊢
    have e1 : (render uOld).length = (headText uOld).length + 20 := by
      rw [c.render_old, length_append, TAIL0_length]
    have e2 : (render uNew).length ≥ (headText uOld).length + 21 := by
      rw [c.render_new]; simp [q]; have := c.hlen; omega
    omega
  cases hr with
  | absent => left; unfold loadFile; rw [hfresh]
  | creating n hn p ok =>
    left
    unfold loadFile
    simp only [Disk.setC, if_true]
    rcases hl : loadUB (zeros n) with e | x
    · rfl
    · obtain ⟨u, hu, -⟩ := loadUB_ok_inv hl
      exact absurd hu (loadUBT_zeros n u)
  | initUB k p ok =>
    unfold loadFile
    simp only [Disk.setC, if_true]
    rcases torn_create_classified uOld c.wfOld hfit_old k with ⟨e, he⟩ | hok
    · left; rw [he]
    · right; left; rw [hok]; exact ⟨p, ok, rfl⟩
  | filling p ok =>
    right; left
    unfold loadFile
    simp only [Disk.setC, if_true]
    rw [loadUB_ok (loadUBT_written uOld c.wfOld hfit_old)]
    exact ⟨p, ok, rfl⟩
  | committing k ok =>
    unfold loadFile
    simp only [Disk.setC, if_true]
    rcases torn_classified c k with ⟨e, he⟩ | hok | hok
    · left; rw [he]
    · right; left; rw [hok]; exact ⟨pf, ok, rfl⟩
    · right; right; rw [hok]; exact ⟨ok, rfl⟩
  | manifest m ok =>
    right; right
    unfold loadFile
    simp only [Disk.setC, Disk.setM, if_true]
    rw [loadUB_ok (loadUBT_committed c)]
    exact ⟨ok, rfl⟩

/-- **Trichotomy.** Let `s` be the committed state (what the committed containers `ns` open as
before the session). In every crash state, opening the complete file set — in any order of
the names — either

* fails with an error, or
* gives `s` followed by the new container with **no hash** in its user block (recognisably
  uncommitted; its payload is whatever was written so far), or
* gives `s` followed by the new container with the committed user block and the final payload,
  i.e. the fully committed new state.

It never succeeds with anything else. (`hidx`: the index given by `IH5UserBlock.create` is larger
than all committed ones; `hfresh`: the new name did not exist, `create` uses mode `x`.) -/
theorem crash_trichotomy {h : List Char} (c : CommitPair uOld uNew h)
    {ns : List Name} {s : List (File P M)}
    (hs : openRec H HM mfAware d0 ns = .ok s) (hnn : nn ∉ ns) (hfresh : d0.cont nn = none)
    (hidx : ∀ g ∈ s, g.ub.idx < decVal uOld.idx)
    (hr : Reach d0 nn uOld uNew pf d) (l : List Name) (hl : l.Perm (ns ++ [nn])) :
    (∃ e, openRec H HM mfAware d l = .error e) ∨
    (∃ p ok, openRec H HM mfAware d l = .ok (s ++ [⟨uOld.toUB, p, ok, d.mf nn⟩])) ∨
    (∃ ok, openRec H HM mfAware d l = .ok (s ++ [⟨uNew.toUB, pf, ok, d.mf nn⟩])) := by
  -- it suffices to look at the canonical order, successful results are order independent
  have key : ∀ x, openRec H HM mfAware d (ns ++ [nn]) = .ok x →
      (∃ p ok, x = s ++ [⟨uOld.toUB, p, ok, d.mf nn⟩]) ∨ (∃ ok, x = s ++ [⟨uNew.toUB, pf, ok, d.mf nn⟩]) := by
    intro x hx
    unfold openRec at hx hs
    rw [map_append, hr.loadFile_other hnn, map_singleton] at hx
    obtain ⟨fs0, hm0, hv0⟩ := openFiles_ok_inv H HM mfAware hs
    have hsorted_s : SortedLt s := ((validate_ok_iff H HM mfAware false fs0 s).mp hv0).2.sortedLt H HM
    have hperm_s : s ~ fs0 := ((validate_ok_iff H HM mfAware false fs0 s).mp hv0).1
    have finish : ∀ f : File P M, f.ub.idx = decVal uOld.idx →
        loadFile d nn = some f → x = s ++ [f] := by
      intro f hfi hlf
      rw [hlf, openFiles_append_some H HM mfAware f hm0] at hx
      obtain ⟨hp, hc⟩ := (validate_ok_iff H HM mfAware false _ x).mp hx
      refine sortedLt_unique (hp.trans (hperm_s.symm.append_right [f])) (hc.sortedLt H HM) ?_
      simp only [SortedLt, pairwise_append, pairwise_cons, mem_singleton] at hsorted_s ⊢
      refine ⟨hsorted_s, by simp, ?_⟩
      intro a ha b hb; subst hb; rw [hfi]; exact hidx a ha
    rcases reach_newfile c hfresh hr with hn | ⟨p, ok, hf⟩ | ⟨ok, hf⟩
    · rw [hn, openFiles_append_none] at hx; cases hx
    · left; exact ⟨p, ok, finish _ rfl hf⟩
    · right; exact ⟨ok, finish _ (by simp [UBT.toUB, c.idx]) hf⟩
  have hmap : (ns ++ [nn]).map (loadFile d) ~ l.map (loadFile d) := (hl.map _).symm
  rcases hres : openRec H HM mfAware d l with e | x
  · left; exact ⟨e, rfl⟩
  · right
    have hx : openRec H HM mfAware d (ns ++ [nn]) = .ok x :=
      openFiles_perm H HM mfAware hmap.symm x hres
    rcases key x hx with ⟨p, ok, rfl⟩ | ⟨ok, rfl⟩
    · left; exact ⟨p, ok, rfl⟩
    · right; exact ⟨ok, rfl⟩

/-- in the second outcome the interrupted patch is recognisable: its user block has no hash -/
theorem uncommitted_recognisable {h : List Char} (c : CommitPair uOld uNew h) :
    uOld.toUB.hash = none := by
  simp [UBT.toUB, c.hashOld]

/-- in the third outcome the payload shown is the one whose hash commit stored: a state that opens
with every container committed is the state that was written -/
theorem committed_state_verified {h : List Char} (c : CommitPair uOld uNew h)
    {s : List (File P M)} {fs : List (File P M)} {ok : Bool} {m : Option M}
    (hx : validate H HM mfAware false fs = .ok (s ++ [⟨uNew.toUB, pf, ok, m⟩])) :
    h = H pf := by
  obtain ⟨-, hc⟩ := (validate_ok_iff H HM mfAware false fs _).mp hx
  have := hc.hash_mem (⟨uNew.toUB, pf, ok, m⟩ : File P M) (by simp)
  simp only [UBT.toUB, c.hashNew, HashOK] at this
  rcases this with h' | h'
  · cases h'
  · injection h'

/-! ## Opening for writing: recovery of an interrupted patch, patching on, prefixes of the file list -/

/-- **Recovery continues the interrupted session, in every writable mode.** When the complete file
set of a crash state opens with the interrupted container recognisably uncommitted (second outcome
of `crash_trichotomy`), a writable open (`"r+"` and `"a"` alike — the model has no mode argument
because the code only tests `mode != "r"`) re-opens that container; no container is created, so
nothing is ever stacked on an uncommitted patch, and the steps that follow are again crash states
of the same session (`Reach.filling` with the same `d0`, `nn`, `uOld`). -/
theorem recover_reopens {h : List Char} (c : CommitPair uOld uNew h) (next : Nat → Name)
    {s : List (File P M)} {p : P} {ok : Bool} {m : Option M} {l : List Name}
    (hx : openRec H HM mfAware d l = .ok (s ++ [⟨uOld.toUB, p, ok, m⟩])) :
    openRecW H HM mfAware next d l = .ok .reopen := by
  unfold openRecW
  rw [hx]
  simp [Except.map, writableAct, UBT.toUB, c.hashOld]

/-- a writable open re-opens an existing container for writing only if it is the newest one and
carries no hash: a committed container is never opened for writing -/
theorem reopen_only_uncommitted (next : Nat → Name) {l : List Name}
    (hx : openRecW H HM mfAware next d l = .ok .reopen) :
    ∃ s f, openRec H HM mfAware d l = .ok s ∧ s.getLast? = some f ∧ f.ub.hash = none := by
  unfold openRecW at hx
  rcases hs : openRec H HM mfAware d l with e | s
  · rw [hs] at hx; cases hx
  · rw [hs] at hx
    rcases hl : s.getLast? with _ | f
    · simp [Except.map, writableAct, hl] at hx
    · refine ⟨s, f, rfl, hl, ?_⟩
      rcases hh : f.ub.hash with _ | g
      · rfl
      · exfalso
        simp only [Except.map, writableAct, hl, hh, Option.isNone_some] at hx
        by_cases ht : (d.cont (next (f.ub.idx + 1))).isSome = true <;> simp [ht] at hx

/-- a writable open creates a container only on top of a newest container that is committed, and
only under a name that is free (`h5py.File(path, "x")`): this is `hfresh` of `crash_trichotomy`
for the session that follows, so by `crash_frame` no existing file is touched -/
theorem create_only_fresh (next : Nat → Name) {l : List Name}
    (hx : openRecW H HM mfAware next d l = .ok .create) :
    ∃ s f, openRec H HM mfAware d l = .ok s ∧ s.getLast? = some f ∧ f.ub.hash.isSome = true ∧
      d.cont (next (f.ub.idx + 1)) = none := by
  unfold openRecW at hx
  rcases hs : openRec H HM mfAware d l with e | s
  · rw [hs] at hx; cases hx
  · rw [hs] at hx
    rcases hl : s.getLast? with _ | f
    · simp [Except.map, writableAct, hl] at hx
    · refine ⟨s, f, rfl, hl, ?_⟩
      rcases hh : f.ub.hash with _ | g
      · simp [Except.map, writableAct, hl, hh] at hx
      · rcases hc : d.cont (next (f.ub.idx + 1)) with _ | x
        · simp
        · simp [Except.map, writableAct, hl, hh, hc] at hx

/-- **A writable open of a strict prefix of the file list is refused**: when the files opened end
in a committed container and the name of the next patch is taken (as it is when later containers
of the record sit in the same directory), the answer is `FileExistsError` — nothing is created,
nothing is written. -/
theorem prefix_open_refused (next : Nat → Name) {l : List Name} {s : List (File P M)} {f : File P M}
    {x : CFile P}
    (hs : openRec H HM mfAware d l = .ok s) (hl : s.getLast? = some f) (hh : f.ub.hash.isSome = true)
    (ht : d.cont (next (f.ub.idx + 1)) = some x) :
    openRecW H HM mfAware next d l = .ok .refuse := by
  unfold openRecW
  rw [hs]
  rcases hq : f.ub.hash with _ | g
  · rw [hq] at hh; cases hh
  · simp [Except.map, writableAct, hl, hq, ht]

/-! ## Non-vacuity: a concrete session on top of a committed base container -/

section Example
def uBase : UBT :=
  ⟨"00000000-0000-0000-0000-0000000000aa".toList, ['0'], "00000000-0000-0000-0000-000000000001".toList,
    none, some "sha256:00000000000000000007".toList, none⟩
def uO : UBT :=
  ⟨"00000000-0000-0000-0000-0000000000aa".toList, ['1'], "00000000-0000-0000-0000-000000000002".toList,
    some "00000000-0000-0000-0000-000000000001".toList, none, none⟩
def hN : List Char := "sha256:00000000000000000008".toList
def uN : UBT := { uO with hash := some hN }
def EH : Nat → Digest := fun p => if p = 7 then "sha256:00000000000000000007".toList else hN
def EM : Nat → Digest := fun _ => []
def xd0 : Disk Nat Nat :=
  { cont := fun n => if n = "rec.ih5" then some ⟨written (zeros UBSIZE) uBase, 7, true⟩ else none,
    mf := fun _ => none }
def fBase : File Nat Nat := { ub := uBase.toUB, payload := 7 }
/-- a commit write cut after 300 bytes -/
def xd : Disk Nat Nat :=
  xd0.setC "rec.p1.ih5" ⟨torn 300 (written (zeros UBSIZE) uO) (frame SZ1024 uN), 8, true⟩

set_option maxRecDepth 8000 in
theorem ex_pair : CommitPair uO uN hN :=
  { wfOld := by decide, wfNew := by decide, hashOld := rfl, extOld := rfl, rid := rfl, idx := rfl,
    pid := rfl, prev := rfl, hashNew := rfl, hlen := by decide, fits := by decide }

set_option maxRecDepth 8000 in
theorem ex_committed : openRec EH EM false xd0 ["rec.ih5"] = .ok [fBase] := by
  have hl : loadFile xd0 "rec.ih5" = some fBase := by
    unfold loadFile xd0
    simp only [if_true]
    rw [loadUB_ok (loadUBT_written uBase (by decide) (by decide))]
    rfl
  unfold openRec
  rw [map_singleton, hl]
  decide

/-- the hypotheses of `crash_trichotomy` hold for this session -/
example :
    (∃ e, openRec EH EM false xd ["rec.p1.ih5", "rec.ih5"] = .error e) ∨
    (∃ p ok, openRec EH EM false xd ["rec.p1.ih5", "rec.ih5"] =
      .ok ([fBase] ++ [⟨uO.toUB, p, ok, xd.mf "rec.p1.ih5"⟩])) ∨
    (∃ ok, openRec EH EM false xd ["rec.p1.ih5", "rec.ih5"] =
      .ok ([fBase] ++ [⟨uN.toUB, 8, ok, xd.mf "rec.p1.ih5"⟩])) :=
  crash_trichotomy EH EM false ex_pair ex_committed (nn := "rec.p1.ih5") (by decide) rfl (by decide)
    (Reach.committing 300 true) _ (Perm.swap _ _ _)
/-- patch names as made by `_next_patch_filepath` -/
def xnext (i : Nat) : Name := s!"rec.p{i}.ih5"

set_option maxRecDepth 8000 in
/-- recovery: the base alone is committed, a writable open creates `rec.p1.ih5` (the name is free) -/
example : openRecW EH EM false xnext xd0 ["rec.ih5"] = .ok .create := by
  unfold openRecW
  rw [ex_committed]
  decide

set_option maxRecDepth 8000 in
/-- strict prefix: on the crash disk `xd` the name `rec.p1.ih5` is taken, so a writable open of the
base alone is refused (`prefix_open_refused` applies) -/
example : openRecW EH EM false xnext xd ["rec.ih5"] = .ok .refuse := by
  have hr : Reach xd0 "rec.p1.ih5" uO uN 8 xd := Reach.committing 300 true
  have ho : openRec EH EM false xd ["rec.ih5"] = .ok [fBase] := by
    rw [crash_committed_opens EH EM false hr (ns := ["rec.ih5"]) (by decide)]
    exact ex_committed
  have hn : xnext (fBase.ub.idx + 1) = "rec.p1.ih5" := by decide
  refine prefix_open_refused EH EM false xnext ho (f := fBase) rfl rfl
    (x := ⟨torn 300 (written (zeros UBSIZE) uO) (frame SZ1024 uN), 8, true⟩) ?_
  rw [hn]
  simp [xd, Disk.setC]
end Example

end MetadorModel.C11
