import MetadorModel.Model.Merge
import MetadorModel.Proofs.Listing
import MetadorModel.Proofs.MergeFollow
import MetadorModel.Proofs.StubFollow
import MetadorModel.Proofs.OverlayWriteStep
/-!
# C05 — merge materialises the overlay view and continues the patch chain

Theorems about `MetadorModel.Merge` (model of `IH5Record.merge_files`).
Part 1 (this section): the merged container identifies itself as the same record at the same
patch state, so exactly the patch blocks that are accepted on top of the source are accepted on
top of the merged container. Part 2 (tree level: the merged tree is the overlay view, follow-up
patches give the same view) is in the section `tree` below.
-/
namespace MetadorModel.C05
open MetadorModel.Merge

/-- the merged block is the newest source block, except for `prev_patch` (taken from the oldest
block: the merged container takes the place of the whole chain) and the payload hash -/
theorem merge_identity (ubs : List UB) (h : Nat) (first last m : UB)
    (hf : ubs.head? = some first) (hl : ubs.getLast? = some last)
    (hm : mergeUB ubs h = some m) :
    m.record = last.record ∧ m.index = last.index ∧ m.patch = last.patch ∧
    m.prev = first.prev ∧ m.hash = some h := by
  simp only [mergeUB, hf, hl, Option.some.injEq] at hm
  subst hm
  exact ⟨rfl, rfl, rfl, rfl, rfl⟩

/-- merging always yields a block when there is at least one container -/
theorem merge_defined (ubs : List UB) (h : Nat) (hne : ubs ≠ []) : ∃ m, mergeUB ubs h = some m := by
  cases ubs with
  | nil => exact absurd rfl hne
  | cons u us =>
    have : ((u :: us).getLast?).isSome := by simp [List.getLast?_isSome]
    obtain ⟨l, hl⟩ := Option.isSome_iff_exists.mp this
    exact ⟨{ l with prev := u.prev, hash := some h }, by simp [mergeUB, hl]⟩

/-- **chain continuation**: a patch block is accepted on top of the merged container exactly
when it is accepted on top of the newest container of the source (`_check_ublock`: same record
uuid, larger index, `prev_patch` = predecessor's patch uuid) -/
theorem merge_continues_chain (ubs : List UB) (h : Nat) (last m p : UB)
    (hl : ubs.getLast? = some last) (hm : mergeUB ubs h = some m) :
    follows p m = follows p last := by
  cases hf : ubs.head? with
  | none => simp [mergeUB, hf] at hm
  | some first =>
    obtain ⟨h1, h2, h3, _, _⟩ := merge_identity ubs h first last m hf hl hm
    simp [follows, h1, h2, h3]

/-- the merged container is a base container whenever the source starts with one, and it is
committed (carries the hash of its payload) -/
theorem merge_is_base (ubs : List UB) (h : Nat) (first m : UB)
    (hf : ubs.head? = some first) (hbase : first.prev = none) (hm : mergeUB ubs h = some m) :
    m.prev = none ∧ m.hash = some h := by
  cases hl : ubs.getLast? with
  | none => simp [mergeUB, hf, hl] at hm
  | some last =>
    obtain ⟨_, _, _, h4, h5⟩ := merge_identity ubs h first last m hf hl hm
    exact ⟨h4.trans hbase, h5⟩

/-- the next patch created on the *source* (`IH5UserBlock.create(prev = newest)`) follows the
merged container -/
theorem next_patch_follows_merged (ubs : List UB) (h fresh : Nat) (last m : UB)
    (hl : ubs.getLast? = some last) (hm : mergeUB ubs h = some m) :
    follows (nextUB last fresh) m = true := by
  rw [merge_continues_chain ubs h last m _ hl hm]
  simp [follows, nextUB]

/-- non-vacuity: a three-container chain -/
example : mergeUB [⟨7, 0, 100, none, some 1⟩, ⟨7, 1, 101, some 100, some 2⟩, ⟨7, 2, 102, some 101, some 3⟩] 9
    = some ⟨7, 2, 102, none, some 9⟩ := by decide

/-! ### a merged run of patches inside the chain -/

/-- along a coherent chain the record uuid is constant and the patch index does not decrease -/
theorem coherent_ends : ∀ (l : List UB) (first last : UB), coherent l = true →
    l.head? = some first → l.getLast? = some last →
    last.record = first.record ∧ first.index ≤ last.index
  | [], _, _, _, hf, _ => by simp at hf
  | [a], first, last, _, hf, hl => by
    simp at hf hl; subst hf; subst hl; exact ⟨rfl, Nat.le_refl _⟩
  | a :: b :: rest, first, last, hc, hf, hl => by
    simp only [coherent, Bool.and_eq_true] at hc
    simp at hf; subst hf
    have hl' : (b :: rest).getLast? = some last := by simpa [List.getLast?_cons_cons] using hl
    obtain ⟨h1, h2⟩ := coherent_ends (b :: rest) b last hc.2 rfl hl'
    have hfo := hc.1
    simp only [follows, Bool.and_eq_true, beq_iff_eq, decide_eq_true_eq] at hfo
    exact ⟨h1.trans hfo.1.1, by omega⟩

/-- coherence of a concatenation: both parts coherent and the seam is a valid link -/
theorem coherent_append : ∀ (xs ys : List UB), coherent (xs ++ ys) =
    (coherent xs && coherent ys &&
      (match xs.getLast?, ys.head? with
        | some a, some b => follows b a
        | _, _ => true))
  | [], ys => by simp [coherent]
  | [a], [] => by simp [coherent]
  | [a], b :: ys => by simp [coherent, Bool.and_comm]
  | a :: b :: xs, ys => by
    have ih := coherent_append (b :: xs) ys
    simp only [List.cons_append] at ih ⊢
    simp only [coherent, ih, List.getLast?_cons_cons]
    cases follows b a <;> simp


/-- **a merged run takes the place of the run inside the chain**: if `pre ++ run ++ post`
(oldest first) is a coherent chain and `m` is the block `merge_files` writes for `run`
(opened with `allow_baseless=True`), then `pre ++ [m] ++ post` is coherent. The link to the
predecessor is what `prev_patch` of the OLDEST merged container provides. -/
theorem squash_coherent (pre run post : List UB) (h : Nat) (m : UB)
    (hc : coherent (pre ++ (run ++ post)) = true) (hm : mergeUB run h = some m) :
    coherent (pre ++ ([m] ++ post)) = true := by
  cases hf : run.head? with
  | none => simp [mergeUB, hf] at hm
  | some first =>
  cases hl : run.getLast? with
  | none => simp [mergeUB, hf, hl] at hm
  | some last =>
  obtain ⟨i1, i2, i3, i4, _⟩ := merge_identity run h first last m hf hl hm
  rw [coherent_append, coherent_append run post] at hc
  simp only [Bool.and_eq_true] at hc
  obtain ⟨⟨hpre, ⟨hrun, hpost⟩, hseam2⟩, hseam1⟩ := hc
  obtain ⟨e1, e2⟩ := coherent_ends run first last hrun hf hl
  rw [coherent_append, coherent_append [m] post]
  simp only [Bool.and_eq_true]
  refine ⟨⟨hpre, ⟨rfl, hpost⟩, ?_⟩, ?_⟩
  · -- the first block of `post` follows `m` as it followed `last`
    simp only [hl] at hseam2
    simp only [List.getLast?_singleton]
    cases hp : post.head? with
    | none => rfl
    | some p =>
      simp only [hp] at hseam2 ⊢
      simpa [follows, i1, i2, i3] using hseam2
  · -- `m` follows the last block of `pre` as `first` did
    have hh : (run ++ post).head? = some first := by
      cases run with
      | nil => simp at hf
      | cons a t => simpa using hf
    simp only [hh] at hseam1
    have hh' : ([m] ++ post).head? = some m := rfl
    simp only [hh']
    cases ha : pre.getLast? with
    | none => rfl
    | some a =>
      simp only [ha] at hseam1 ⊢
      simp only [follows, Bool.and_eq_true, beq_iff_eq, decide_eq_true_eq] at hseam1 ⊢
      refine ⟨⟨?_, ?_⟩, ?_⟩
      · rw [i1, e1]; exact hseam1.1.1
      · rw [i2]; omega
      · rw [i4]; exact hseam1.2

/-! ### the refusal guard -/

/-- merging is refused when the set contains a stub — whichever container of the set it is (in
particular the oldest one of a stub with committed patches on top, re-opened from disk) and
whether or not there is an uncommitted container -/
theorem merge_refused_with_stub (flags : List Bool) (w : Bool) (h : true ∈ flags) :
    mergeGuard flags w = .error .stub := by
  have : flags.any id = true := List.any_eq_true.mpr ⟨true, h, rfl⟩
  simp [mergeGuard, this]

/-- merging is refused while there are uncommitted changes -/
theorem merge_refused_when_writable (flags : List Bool) : mergeGuard flags true ≠ .ok () := by
  unfold mergeGuard
  split <;> simp

/-- the guard lets a merge through exactly when no container is a stub and all are committed -/
theorem merge_allowed_iff (flags : List Bool) (w : Bool) :
    mergeGuard flags w = .ok () ↔ (∀ f ∈ flags, f = false) ∧ w = false := by
  unfold mergeGuard
  by_cases hs : flags.any id = true
  · simp only [hs, if_true]
    constructor
    · intro h; cases h
    · rintro ⟨h, _⟩
      obtain ⟨f, hf, hid⟩ := List.any_eq_true.mp hs
      have := h f hf
      simp_all
  · have hall : ∀ f ∈ flags, f = false := by
      intro f hf
      cases f with
      | false => rfl
      | true => exact absurd (List.any_eq_true.mpr ⟨true, hf, rfl⟩) hs
    cases w
    · constructor
      · intro _; exact ⟨hall, rfl⟩
      · intro _; simp [hs]
    · simp [hs]

/-- non-vacuity: a stub with two committed patches on top; a plain three-container record -/
example : mergeGuard [true, false, false] false = .error .stub ∧
    mergeGuard [false, false, false] false = .ok () ∧
    mergeGuard [false, false, false] true = .error .writable := ⟨rfl, rfl, rfl⟩

/-- non-vacuity of `squash_coherent`: patches 1..2 of a four-container chain squashed -/
example : coherent ([⟨7, 0, 100, none, some 1⟩] ++ ([⟨7, 1, 101, some 100, some 2⟩, ⟨7, 2, 102, some 101, some 3⟩] ++
      [⟨7, 3, 103, some 102, some 4⟩])) = true ∧
    mergeUB [⟨7, 1, 101, some 100, some 2⟩, ⟨7, 2, 102, some 101, some 3⟩] 9 = some ⟨7, 2, 102, some 100, some 9⟩ ∧
    coherent ([⟨7, 0, 100, none, some 1⟩] ++ ([⟨7, 2, 102, some 100, some 9⟩] ++ [⟨7, 3, 103, some 102, some 4⟩])) = true := by
  decide

/-! ## tree level: the merged container shows the overlay view of the source -/
section tree
open MetadorModel.Tree MetadorModel.Overlay MetadorModel.Single MetadorModel.Listing
variable {V : Type}

/-- The view of the source can be replayed parents-first (every listed node other than the
root has its parent listed before it, as a group, and is listed once). This is a property of
the *view* of `r`; it is what "the view is a tree, listed in pre-order" means and is checked on
every generated history by the correspondence run (the model's `merge` would fail otherwise). -/
def ViewReplayable (r : Rec V) : Prop := Replayable (Overlay.listing r)

/-- **merge materialises the overlay view**: at every path the merged single container shows
the kind/value and every attribute the source record shows, for any number of source
containers, deletions and replacements. -/
theorem merge_view (r m : Rec V) (h : ViewReplayable r) (hm : mergeCont r = .ok m) (q : Path) :
    viewKind m q = viewKind r q ∧ ∀ k, viewAttr m q k = viewAttr r q k := by
  by_cases hq : q = []
  · subst hq
    have hroot := fun k => materialise_root_attr (Overlay.listing r) h m hm (rootAttrs_nodup r) k
    refine ⟨by rw [(hroot "").2, Listing.viewKind_root], fun k => ?_⟩
    rw [(hroot k).1, root_attr_listing]
  · have hkind := materialise_kind (Overlay.listing r) h m hm q hq
    rw [aget_nonRoot _ q hq, aget_listing r q hq] at hkind
    refine ⟨by rw [hkind]; cases viewKind r q <;> rfl, fun k => ?_⟩
    have hattr := materialise_attr (Overlay.listing r) h m hm (listing_attrs_nodup r) q hq k
    rw [aget_nonRoot _ q hq, aget_listing r q hq] at hattr
    rw [hattr]
    cases hv : viewKind r q with
    | none => simp [viewAttr_none_of_kind_none r q hq k hv]
    | some kd => simp [aget_attrsList]

/-- the merged record consists of exactly one container -/
theorem merge_single (r m : Rec V) (h : ViewReplayable r) (hm : mergeCont r = .ok m) :
    m.length = 1 := by
  obtain ⟨heq, _⟩ := materialise_eq (Overlay.listing r) h
  rw [mergeCont, heq] at hm
  cases hm; rfl

/-- merging does not fail when the view is a tree -/
theorem merge_succeeds (r : Rec V) (h : ViewReplayable r) : ∃ m, mergeCont r = .ok m :=
  ⟨_, (materialise_eq (Overlay.listing r) h).1⟩

/-- merging is a pure function of the source record: the source is the same value before and
after (the model has no hidden state; on the implementation this clause is checked by hashing
all source files and comparing dumps and `ih5_meta` of the still-open object) -/
theorem merge_idempotent_on_view (r m m' : Rec V) (h : ViewReplayable r)
    (hm : mergeCont r = .ok m) (h' : ViewReplayable m) (hm' : mergeCont m = .ok m') (q : Path) :
    viewKind m' q = viewKind r q ∧ ∀ k, viewAttr m' q k = viewAttr r q k := by
  obtain ⟨a1, a2⟩ := merge_view r m h hm q
  obtain ⟨b1, b2⟩ := merge_view m m' h' hm' q
  exact ⟨b1.trans a1, fun k => (b2 k).trans (a2 k)⟩

/-- non-vacuity: a three-container record (set, attributes incl. a root attribute, delete,
re-create in later patches) satisfies the hypothesis of the tree-level theorems -/
def exRec : Rec Nat :=
  (W.run Rec.init [.set ["a", "x"] 1, .sattr ["a"] "k" 5, .patch, .del ["a", "x"], .grp ["b"],
    .sattr [] "r" 9, .patch, .set ["a", "y"] 2]).1

example : exRec.length = 3 ∧ ViewReplayable exRec :=
  ⟨by decide +kernel, replayableB_sound _ (by decide +kernel)⟩

/-! ### follow-up patches: every patch that applies to the source applies to the merged container
with the same result -/
open MetadorModel.Follow

/-- the merged record is one well-formed container (plain root group, parent-closed, no deletion
markers): it satisfies the record invariant on its own -/
theorem merge_inv (r m : Rec V) (h : ViewReplayable r) (hm : mergeCont r = .ok m) : Inv m := by
  obtain ⟨c, rfl, g, hroot⟩ := materialise_shape _ h m hm
  exact inv_single c g hroot

/-- the merged container mentions no path (other than the root) that the source never mentions -/
theorem merge_mentions (r m : Rec V) (h : ViewReplayable r) (hm : mergeCont r = .ok m) :
    MentionSub r m := by
  obtain ⟨c, rfl, g, _⟩ := materialise_shape _ h m hm
  refine mentionSub_single c g r (fun q _ hne => ?_)
  rw [← (merge_view r [c] h hm q).1]
  exact hne

/-- **follow-up patches, strongest form**: the patch containers `ps` (newest first) only have to
be valid continuations of the source record `r` (`InvOver ps r`; nothing is asked of the
containers of `r` themselves). Then they are valid continuations of the merged container, the
combined record satisfies the record invariant, and at every path it shows what the patches
show on top of the source. -/
theorem merge_followups_over (r m : Rec V) (h : ViewReplayable r) (hm : mergeCont r = .ok m)
    (ps : List (Cont V)) (hps : InvOver ps r) :
    Inv (ps ++ m) ∧ ∀ q, viewKind (ps ++ m) q = viewKind (ps ++ r) q ∧
      ∀ k, viewAttr (ps ++ m) q k = viewAttr (ps ++ r) q k := by
  have hv : SameView r m := fun q =>
    ⟨((merge_view r m h hm q).1).symm, fun k => ((merge_view r m h hm q).2 k).symm⟩
  obtain ⟨h1, h2⟩ := follow_same_view r m hv (merge_mentions r m h hm) ps hps
  exact ⟨inv_append ps m h1 (merge_inv r m h hm), h2.symm⟩

/-- **every patch that applies to the source applies to the merged container with the same
result**: any list of patch containers `ps` that is a valid continuation of the source record
(`Inv (ps ++ r)`, the invariant every record produced by the write paths satisfies) is a valid
continuation of the merged single container, and the patched merged record shows, at every
path, the same kind/value and the same attributes as the patched source. -/
theorem merge_followups_same_view (r m : Rec V) (h : ViewReplayable r) (hm : mergeCont r = .ok m)
    (ps : List (Cont V)) (hinv : Inv (ps ++ r)) :
    Inv (ps ++ m) ∧ ∀ q, viewKind (ps ++ m) q = viewKind (ps ++ r) q ∧
      ∀ k, viewAttr (ps ++ m) q k = viewAttr (ps ++ r) q k :=
  merge_followups_over r m h hm ps (invOver_of_inv ps r hinv)

/-- closed form: the patched merged record shows the patches `ps` applied (oldest first, as the
monoid action `applyKind/applyAttr` of C01) to the view of the source -/
theorem merge_followups_fold (r m : Rec V) (h : ViewReplayable r) (hm : mergeCont r = .ok m)
    (ps : List (Cont V)) (hps : InvOver ps r) :
    viewKind (ps ++ m) = ps.foldr applyKind (viewKind r) ∧
    viewAttr (ps ++ m) = ps.foldr applyAttr (viewAttr r) := by
  obtain ⟨_, hsame⟩ := merge_followups_over r m h hm ps hps
  obtain ⟨f1, f2⟩ := view_fold_over ps r hps
  exact ⟨(funext fun q => (hsame q).1).trans f1, (funext fun q => funext fun k => (hsame q).2 k).trans f2⟩

/-- non-vacuity: two further patches written on top of the three-container source `exRec`
(replace a dataset by a group, delete a group, attributes on an old node, a new root attribute);
the five-container record satisfies the invariant, so the theorem applies with these `ps`;
the merged container exists and the patched merged record shows the updates. -/
def exFollow : Rec Nat :=
  (W.run exRec [.patch, .del ["a", "y"], .grp ["a", "y"], .set ["a", "y", "z"] 7, .sattr ["a"] "k" 6,
    .patch, .del ["b"], .sattr [] "s" 1, .dattr ["a"] "k"]).1

def exPatches : List (Cont Nat) := exFollow.take 2

example : exFollow = exPatches ++ exRec ∧ exPatches.length = 2 ∧ Inv (exPatches ++ exRec) :=
  ⟨by decide +kernel, by decide +kernel, invB_sound _ (by decide +kernel)⟩

example : ∃ m, mergeCont exRec = .ok m ∧
    viewKind (exPatches ++ m) ["a", "y", "z"] = some (.data 7) ∧
    viewKind (exPatches ++ m) ["b"] = none ∧ viewKind (exPatches ++ m) ["a", "x"] = none ∧
    viewAttr (exPatches ++ m) [] "s" = some 1 ∧ viewAttr (exPatches ++ m) [] "r" = some 9 ∧
    viewAttr (exPatches ++ m) ["a"] "k" = none :=
  ⟨_, (materialise_eq _ (replayableB_sound _ (by decide +kernel))).1, by decide +kernel⟩

/-- **operational form, for the existence-based part of the API** (`create_group`,
`create_dataset`, `del`, `attrs[k] = v`, `del attrs[k]`, any number of patch boundaries; `copy` and
`move` are not covered here): performing the same update in new patches on top of the source
and on top of the merged container reports the same outcome for every operation and creates the
very same patch containers `ps`; the two patched records show the same tree.

Hypothesis `InvAlong (newPatch r) ops`: the update of the *source* keeps the record invariant of
C01 at every step (preservation of `Inv` by the write paths — C01 write side); nothing is assumed
about the run on the merged container. -/
theorem merge_same_update_partial (r m : Rec V) (h : ViewReplayable r) (hm : mergeCont r = .ok m)
    (hne : r ≠ []) (ops : List (Op V)) (hex : ∀ op ∈ ops, isExP op = true)
    (hinv : InvAlong (newPatch r) ops) :
    ∃ ps outs, ps ≠ [] ∧
      W.run (newPatch m) ops = (ps ++ m, outs) ∧ W.run (newPatch r) ops = (ps ++ r, outs) ∧
      Inv (ps ++ m) ∧ ∀ q, viewKind (ps ++ m) q = viewKind (ps ++ r) q ∧
        ∀ k, viewAttr (ps ++ m) q k = viewAttr (ps ++ r) q k := by
  have hv : SameView r m := fun q =>
    ⟨((merge_view r m h hm q).1).symm, fun k => ((merge_view r m h hm q).2 k).symm⟩
  have he : r.isEmpty = m.isEmpty := by
    obtain ⟨c, rfl, _, _⟩ := materialise_shape _ h m hm
    cases r with
    | nil => exact absurd rfl hne
    | cons a r => rfl
  obtain ⟨ps, outs, e1, e2, h3, h4, _⟩ :=
    run_same_patches ops r m Cont.init hv.skel (merge_mentions r m h hm) he hex hinv
  obtain ⟨i1, i2⟩ := merge_followups_same_view r m h hm ps h4
  exact ⟨ps, outs, h3, e2, e1, i1, i2⟩

theorem isBasic_of_isExP (op : Op V) (h : isExP op = true) : op.isBasic = true := by
  cases op <;> first | rfl | cases h

/-- the same without any assumption on the runs: the source record satisfies the record
invariant (every record produced by the write paths does, `Overlay.step_inv_basic`) -/
theorem merge_same_update (r m : Rec V) (h : ViewReplayable r) (hm : mergeCont r = .ok m)
    (hne : r ≠ []) (hinv : Inv r) (ops : List (Op V)) (hex : ∀ op ∈ ops, isExP op = true) :
    ∃ ps outs, ps ≠ [] ∧
      W.run (newPatch m) ops = (ps ++ m, outs) ∧ W.run (newPatch r) ops = (ps ++ r, outs) ∧
      Inv (ps ++ m) ∧ ∀ q, viewKind (ps ++ m) q = viewKind (ps ++ r) q ∧
        ∀ k, viewAttr (ps ++ m) q k = viewAttr (ps ++ r) q k :=
  merge_same_update_partial r m h hm hne ops hex
    (invAlong_of_step_inv
      (fun R R' op hb hI hstep => (step_inv_basic R R' op (isBasic_of_isExP op hb) hI hstep).1)
      ops (newPatch r) hex ⟨wf_init, invLast_init r, hinv⟩)

example : Inv exRec := invB_sound _ (by decide +kernel)

/-- non-vacuity: an update in two patches on the three-container source -/
def exOps : List (Op Nat) :=
  [.grp ["c"], .set ["a", "x"] 5, .del ["b"], .sattr ["a"] "k" 8, .dattr ["a"] "k",
   .set ["a", "y", "t"] 3, .patch, .set ["c", "d"] 1, .del ["a", "y"], .grp ["q", "w", "e"]]

example : (∀ op ∈ exOps, isExP op = true) ∧ exRec ≠ [] ∧ InvAlong (newPatch exRec) exOps :=
  ⟨by decide, by decide +kernel, invAlongB_sound _ _ (by decide +kernel)⟩

end tree

end MetadorModel.C05
