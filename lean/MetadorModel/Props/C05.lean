import MetadorModel.Model.Merge
/-!
# C05 — merge materialises the overlay view and continues the patch chain

Theorems about `MetadorModel.Merge` (model of `IH5Record.merge_files`).
Part 1 (this section): the merged container identifies itself as the same record at the same
patch state, so exactly the patch blocks that are accepted on top of the source are accepted on
top of the merged container. Part 2 (tree level: the merged tree is the overlay view, follow-up
patches give the same view) is in the section `tree` below.
-/
namespace MetadorModel.C05
open MetadorModel.Merge

/-- the merged block is the newest source block, except for `prev_patch` (taken from the oldest
block: the merged container takes the place of the whole chain) and the payload hash -/
theorem merge_identity (ubs : List UB) (h : Nat) (first last m : UB)
    (hf : ubs.head? = some first) (hl : ubs.getLast? = some last)
    (hm : mergeUB ubs h = some m) :
    m.record = last.record ∧ m.index = last.index ∧ m.patch = last.patch ∧
    m.prev = first.prev ∧ m.hash = some h := by
  simp only [mergeUB, hf, hl, Option.some.injEq] at hm
  subst hm
  exact ⟨rfl, rfl, rfl, rfl, rfl⟩

/-- merging always yields a block when there is at least one container -/
theorem merge_defined (ubs : List UB) (h : Nat) (hne : ubs ≠ []) : ∃ m, mergeUB ubs h = some m := by
  cases ubs with
  | nil => exact absurd rfl hne
  | cons u us =>
    have : ((u :: us).getLast?).isSome := by simp [List.getLast?_isSome]
    obtain ⟨l, hl⟩ := Option.isSome_iff_exists.mp this
    exact ⟨{ l with prev := u.prev, hash := some h }, by simp [mergeUB, hl]⟩

/-- **chain continuation**: a patch block is accepted on top of the merged container exactly
when it is accepted on top of the newest container of the source (`_check_ublock`: same record
uuid, larger index, `prev_patch` = predecessor's patch uuid) -/
theorem merge_continues_chain (ubs : List UB) (h : Nat) (last m p : UB)
    (hl : ubs.getLast? = some last) (hm : mergeUB ubs h = some m) :
    follows p m = follows p last := by
  cases hf : ubs.head? with
  | none => simp [mergeUB, hf] at hm
  | some first =>
    obtain ⟨h1, h2, h3, _, _⟩ := merge_identity ubs h first last m hf hl hm
    simp [follows, h1, h2, h3]

/-- the merged container is a base container whenever the source starts with one, and it is
committed (carries the hash of its payload) -/
theorem merge_is_base (ubs : List UB) (h : Nat) (first m : UB)
    (hf : ubs.head? = some first) (hbase : first.prev = none) (hm : mergeUB ubs h = some m) :
    m.prev = none ∧ m.hash = some h := by
  cases hl : ubs.getLast? with
  | none => simp [mergeUB, hf, hl] at hm
  | some last =>
    obtain ⟨_, _, _, h4, h5⟩ := merge_identity ubs h first last m hf hl hm
    exact ⟨h4.trans hbase, h5⟩

/-- the next patch created on the *source* (`IH5UserBlock.create(prev = newest)`) follows the
merged container -/
theorem next_patch_follows_merged (ubs : List UB) (h fresh : Nat) (last m : UB)
    (hl : ubs.getLast? = some last) (hm : mergeUB ubs h = some m) :
    follows (nextUB last fresh) m = true := by
  rw [merge_continues_chain ubs h last m _ hl hm]
  simp [follows, nextUB]

/-- non-vacuity: a three-container chain -/
example : mergeUB [⟨7, 0, 100, none, some 1⟩, ⟨7, 1, 101, some 100, some 2⟩, ⟨7, 2, 102, some 101, some 3⟩] 9
    = some ⟨7, 2, 102, none, some 9⟩ := by decide

end MetadorModel.C05
