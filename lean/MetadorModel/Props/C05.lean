import MetadorModel.Model.Merge
import MetadorModel.Proofs.Listing
/-!
# C05 — merge materialises the overlay view and continues the patch chain

Theorems about `MetadorModel.Merge` (model of `IH5Record.merge_files`).
Part 1 (this section): the merged container identifies itself as the same record at the same
patch state, so exactly the patch blocks that are accepted on top of the source are accepted on
top of the merged container. Part 2 (tree level: the merged tree is the overlay view, follow-up
patches give the same view) is in the section `tree` below.
-/
namespace MetadorModel.C05
open MetadorModel.Merge

/-- the merged block is the newest source block, except for `prev_patch` (taken from the oldest
block: the merged container takes the place of the whole chain) and the payload hash -/
theorem merge_identity (ubs : List UB) (h : Nat) (first last m : UB)
    (hf : ubs.head? = some first) (hl : ubs.getLast? = some last)
    (hm : mergeUB ubs h = some m) :
    m.record = last.record ∧ m.index = last.index ∧ m.patch = last.patch ∧
    m.prev = first.prev ∧ m.hash = some h := by
  simp only [mergeUB, hf, hl, Option.some.injEq] at hm
  subst hm
  exact ⟨rfl, rfl, rfl, rfl, rfl⟩

/-- merging always yields a block when there is at least one container -/
theorem merge_defined (ubs : List UB) (h : Nat) (hne : ubs ≠ []) : ∃ m, mergeUB ubs h = some m := by
  cases ubs with
  | nil => exact absurd rfl hne
  | cons u us =>
    have : ((u :: us).getLast?).isSome := by simp [List.getLast?_isSome]
    obtain ⟨l, hl⟩ := Option.isSome_iff_exists.mp this
    exact ⟨{ l with prev := u.prev, hash := some h }, by simp [mergeUB, hl]⟩

/-- **chain continuation**: a patch block is accepted on top of the merged container exactly
when it is accepted on top of the newest container of the source (`_check_ublock`: same record
uuid, larger index, `prev_patch` = predecessor's patch uuid) -/
theorem merge_continues_chain (ubs : List UB) (h : Nat) (last m p : UB)
    (hl : ubs.getLast? = some last) (hm : mergeUB ubs h = some m) :
    follows p m = follows p last := by
  cases hf : ubs.head? with
  | none => simp [mergeUB, hf] at hm
  | some first =>
    obtain ⟨h1, h2, h3, _, _⟩ := merge_identity ubs h first last m hf hl hm
    simp [follows, h1, h2, h3]

/-- the merged container is a base container whenever the source starts with one, and it is
committed (carries the hash of its payload) -/
theorem merge_is_base (ubs : List UB) (h : Nat) (first m : UB)
    (hf : ubs.head? = some first) (hbase : first.prev = none) (hm : mergeUB ubs h = some m) :
    m.prev = none ∧ m.hash = some h := by
  cases hl : ubs.getLast? with
  | none => simp [mergeUB, hf, hl] at hm
  | some last =>
    obtain ⟨_, _, _, h4, h5⟩ := merge_identity ubs h first last m hf hl hm
    exact ⟨h4.trans hbase, h5⟩

/-- the next patch created on the *source* (`IH5UserBlock.create(prev = newest)`) follows the
merged container -/
theorem next_patch_follows_merged (ubs : List UB) (h fresh : Nat) (last m : UB)
    (hl : ubs.getLast? = some last) (hm : mergeUB ubs h = some m) :
    follows (nextUB last fresh) m = true := by
  rw [merge_continues_chain ubs h last m _ hl hm]
  simp [follows, nextUB]

/-- non-vacuity: a three-container chain -/
example : mergeUB [⟨7, 0, 100, none, some 1⟩, ⟨7, 1, 101, some 100, some 2⟩, ⟨7, 2, 102, some 101, some 3⟩] 9
    = some ⟨7, 2, 102, none, some 9⟩ := by decide

/-! ## tree level: the merged container shows the overlay view of the source -/
section tree
open MetadorModel.Tree MetadorModel.Overlay MetadorModel.Single MetadorModel.Listing
variable {V : Type}

/-- The view of the source can be replayed parents-first (every listed node other than the
root has its parent listed before it, as a group, and is listed once). This is a property of
the *view* of `r`; it is what "the view is a tree, listed in pre-order" means and is checked on
every generated history by the correspondence run (the model's `merge` would fail otherwise). -/
def ViewReplayable (r : Rec V) : Prop := Replayable (Overlay.listing r)

/-- **merge materialises the overlay view**: at every path the merged single container shows
the kind/value and every attribute the source record shows, for any number of source
containers, deletions and replacements. -/
theorem merge_view (r m : Rec V) (h : ViewReplayable r) (hm : mergeCont r = .ok m) (q : Path) :
    viewKind m q = viewKind r q ∧ ∀ k, viewAttr m q k = viewAttr r q k := by
  by_cases hq : q = []
  · subst hq
    have hroot := fun k => materialise_root_attr (Overlay.listing r) h m hm (rootAttrs_nodup r) k
    refine ⟨by rw [(hroot "").2, viewKind_root], fun k => ?_⟩
    rw [(hroot k).1, root_attr_listing]
  · have hkind := materialise_kind (Overlay.listing r) h m hm q hq
    rw [aget_nonRoot _ q hq, aget_listing r q hq] at hkind
    refine ⟨by rw [hkind]; cases viewKind r q <;> rfl, fun k => ?_⟩
    have hattr := materialise_attr (Overlay.listing r) h m hm (listing_attrs_nodup r) q hq k
    rw [aget_nonRoot _ q hq, aget_listing r q hq] at hattr
    rw [hattr]
    cases hv : viewKind r q with
    | none => simp [viewAttr_none_of_kind_none r q hq k hv]
    | some kd => simp [aget_attrsList]

/-- the merged record consists of exactly one container -/
theorem merge_single (r m : Rec V) (h : ViewReplayable r) (hm : mergeCont r = .ok m) :
    m.length = 1 := by
  obtain ⟨heq, _⟩ := materialise_eq (Overlay.listing r) h
  rw [mergeCont, heq] at hm
  cases hm; rfl

/-- merging does not fail when the view is a tree -/
theorem merge_succeeds (r : Rec V) (h : ViewReplayable r) : ∃ m, mergeCont r = .ok m :=
  ⟨_, (materialise_eq (Overlay.listing r) h).1⟩

/-- merging is a pure function of the source record: the source is the same value before and
after (the model has no hidden state; on the implementation this clause is checked by hashing
all source files and comparing dumps and `ih5_meta` of the still-open object) -/
theorem merge_idempotent_on_view (r m m' : Rec V) (h : ViewReplayable r)
    (hm : mergeCont r = .ok m) (h' : ViewReplayable m) (hm' : mergeCont m = .ok m') (q : Path) :
    viewKind m' q = viewKind r q ∧ ∀ k, viewAttr m' q k = viewAttr r q k := by
  obtain ⟨a1, a2⟩ := merge_view r m h hm q
  obtain ⟨b1, b2⟩ := merge_view m m' h' hm' q
  exact ⟨b1.trans a1, fun k => (b2 k).trans (a2 k)⟩

/-- non-vacuity: a three-container record (set, attributes incl. a root attribute, delete,
re-create in later patches) satisfies the hypothesis of the tree-level theorems -/
def exRec : Rec Nat :=
  (W.run Rec.init [.set ["a", "x"] 1, .sattr ["a"] "k" 5, .patch, .del ["a", "x"], .grp ["b"],
    .sattr [] "r" 9, .patch, .set ["a", "y"] 2]).1

example : exRec.length = 3 ∧ ViewReplayable exRec :=
  ⟨by decide +kernel, replayableB_sound _ (by decide +kernel)⟩

end tree

end MetadorModel.C05
