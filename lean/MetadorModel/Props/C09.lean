import MetadorModel.Proofs.ContainerDrvSim
import MetadorModel.Proofs.ContainerDrvCongOps
/-!
# C09: containers behave identically on plain HDF5 and on IH5 records

"Every container operation gives the same user-visible result whether the raw driver is a
plain HDF5 file or an IH5 record, regardless of where patch boundaries fall and where the
container is closed and opened again."

* (a) `boundaries_unobservable`: inserting patch boundaries anywhere in a history changes
  neither what the caller observes nor the state.
* (b) `reopen_unobservable_upto`: inserting reopen points is unobservable up to any relation
  that is preserved by reopening one side and is a congruence for all operations.
  (Literal equality of the rebuilt and the incrementally maintained caches does not hold:
  `literal_coherence_fails`.) `reopen_unobservable_of_coherent`: the concrete instance for
  histories from a fresh container — same observations, same raw tree, same uuid counter,
  `CachesEqv` caches — under the single hypothesis `CacheCoherent e` (in every reachable state
  the caches rebuilt from the raw tree are `CachesEqv` to the maintained ones; a consequence
  of the container invariant of C06). That `CachesEqv`-related states cannot be told apart
  (`obsEq_congruent`) is proved outright, through every definition of the model.
* (c) `driver_refinement`, `container_refines`, `container_refines_queries`,
  `container_refines_any_boundaries`: the container layer, written against an abstract raw
  driver that satisfies the view laws, is in lock-step with the model on the viewed state; so
  any two law-abiding drivers (plain tree, IH5-like patch log, …) are indistinguishable, also
  when patch boundaries are inserted.
-/
namespace MetadorModel.C09
open MetadorModel.Container

/-! ## Example data -/

def core : SRef := ⟨"core", (0, 1, 0)⟩
def pk : PkgId := ⟨"pk", (1, 0, 0)⟩
/-- one installed schema `core` provided by package `pk` -/
def exEnv : Env := { schemas := [⟨core, [core], pk, false⟩], pkgs := [(pk, [core])] }

def pa : Path := [.user "a"]
def pd : Path := [.user "a", .user "d"]
def pd2 : Path := [.user "a", .user "d2"]
def pb : Path := [.user "b"]

/-- group, dataset, metadata on the dataset, copy with metadata, move of the copy, query,
delete of the group (each operation depends on the previous ones) -/
def exH : List Op :=
  [.createGroup pa, .createDataset pd "x", .onMeta pd [.set "core" none true "m", .get "core" none],
   .copy pd pd2 false, .move pd2 pb, .onMeta pb [.get "core" none, .del "core"], .delete pa]

/-- the same history with a patch boundary after every operation (and two in a row) -/
def exH' : List Op :=
  [.createGroup pa, .patch, .createDataset pd "x", .patch,
   .onMeta pd [.set "core" none true "m", .get "core" none], .patch, .patch,
   .copy pd pd2 false, .patch, .move pd2 pb, .patch,
   .onMeta pb [.get "core" none, .del "core"], .patch, .delete pa, .patch]

/-- the same history with the container closed and opened again between the operations -/
def exHr : List Op :=
  [.createGroup pa, .reopen, .createDataset pd "x", .reopen,
   .onMeta pd [.set "core" none true "m", .get "core" none], .reopen,
   .copy pd pd2 false, .reopen, .move pd2 pb, .reopen,
   .onMeta pb [.get "core" none, .del "core"], .reopen, .delete pa]

/-! ## (a) patch boundaries -/

/-- **C09 (a).** A history with patch boundaries inserted at arbitrary positions gives the same
observations (status of every non-boundary operation, outcomes of all metadata
sub-operations) and the same final state as the history without them — for every schema
environment and every start state, without hypotheses. -/
theorem boundaries_unobservable {e : Env} {h h' : List Op} (hi : Ins isPatch h h') (s : St) :
    outcomes isPatch e s h' = outcomes isPatch e s h ∧ run e s h' = run e s h := by
  induction hi generalizing s with
  | nil => exact ⟨rfl, rfl⟩
  | keep op _ ih =>
    obtain ⟨i1, i2⟩ := ih (step e op s).2
    simp only [outcomes, run, i1, i2, and_self]
  | skip op hp _ ih =>
    have hop : op = .patch := by
      cases op <;> first | rfl | exact absurd hp (by simp [isPatch])
    subst hop
    obtain ⟨i1, i2⟩ := ih s
    have hs : (step e .patch s).2 = s := rfl
    simp only [outcomes, run, hs, isPatch, if_true]
    exact ⟨i1, i2⟩

/-- `exH'` is `exH` with boundaries inserted between dependent operations -/
example : Ins isPatch exH exH' := by
  unfold exH exH'
  repeat (first | exact Ins.nil | apply Ins.keep | apply Ins.skip _ rfl)

/-- the example history is not trivial: every operation succeeds, the metadata sub-operations
are answered (`set` done, `get` finds the object, also at the moved copy) -/
example : (outcomes isPatch exEnv initSt exH).map (fun o => (o.status.toBool, o.sub)) =
    [(true, []), (true, []), (true, [.done, .found true]), (true, []), (true, []),
     (true, [.found true, .done]), (true, [])] := by decide +kernel

/-! ## (b) reopen points, up to a relation -/

/-- **C09 (b), general form.** Let `R` relate states that the caller cannot tell apart
(`Congruent`: equal observations for every operation, and the relation is kept) and let
rebuilding the caches from the raw tree keep the relation (`CacheCoherentR`). Then a history
with reopen points inserted anywhere gives the same observations and related final states.

The relation cannot be equality: see `literal_coherence_fails`. -/
theorem reopen_unobservable_upto {e : Env} {R : St → St → Prop}
    (hc : CacheCoherentR e R) (hg : Congruent e R) {h h' : List Op} (hi : Ins isReopen h h')
    {s s' : St} (hr : R s s') :
    outcomes isReopen e s h = outcomes isReopen e s' h' ∧ R (run e s h) (run e s' h') := by
  induction hi generalizing s s' with
  | nil => exact ⟨rfl, hr⟩
  | keep op _ ih =>
    obtain ⟨ho, hr'⟩ := hg op s s' hr
    obtain ⟨i1, i2⟩ := ih hr'
    simp only [outcomes, run]
    exact ⟨by rw [i1, ho], i2⟩
  | skip op hp _ ih =>
    have hop : op = .reopen := by
      cases op <;> first | rfl | exact absurd hp (by simp [isReopen])
    subst hop
    obtain ⟨i1, i2⟩ := ih (hc s s' hr)
    simp only [outcomes, run, isReopen, if_true]
    exact ⟨i1, i2⟩

/-- **Literal cache coherence fails.** After attaching and deleting one metadata object the
incrementally maintained `used` table keeps the stale entry `(pk, [])`, the caches rebuilt from
the raw tree do not have it: `reload s.raw ≠ s.c` for a reachable state. (Other reachable
differences: the order of the `children`/`schemas`/`tocPath` association lists.) This is why
reopen-unobservability is stated up to a relation. -/
theorem literal_coherence_fails :
    ∃ (e : Env) (h : List Op), reload (run e initSt h).raw ≠ (run e initSt h).c :=
  ⟨exEnv, [.createGroup pa, .onMeta pa [.set "core" none true "m"], .onMeta pa [.del "core"]],
    fun h => absurd (congrArg Caches.used h) (by decide +kernel)⟩

example : Ins isReopen exH exHr := by
  unfold exH exHr
  repeat (first | exact Ins.nil | apply Ins.keep | apply Ins.skip _ rfl)

/-- on the example the conclusion holds (evaluation) -/
example : (outcomes isReopen exEnv initSt exHr).map (fun o => (o.status.toBool, o.sub)) =
    (outcomes isReopen exEnv initSt exH).map (fun o => (o.status.toBool, o.sub)) := by
  decide +kernel

/-- **C09 (b).** If the caches rebuilt on reopen are equivalent (`CachesEqv`: dictionaries
extensionally, sets by membership, `used` only for packages that currently provide a schema)
to the incrementally maintained ones in every reachable state, then reopen points inserted
anywhere into a history from a fresh container are unobservable: same observations, same raw
tree, same uuid counter, equivalent caches. The only hypothesis is `CacheCoherent e`; that
equivalent caches are indistinguishable (`obsEq_congruent`) is proved for all operations
without any invariant. -/
theorem reopen_unobservable_of_coherent {e : Env} (hco : CacheCoherent e) {h h' : List Op}
    (hi : Ins isReopen h h') :
    outcomes isReopen e initSt h' = outcomes isReopen e initSt h ∧
    (run e initSt h').raw = (run e initSt h).raw ∧
    (run e initSt h').next = (run e initSt h).next ∧
    CachesEqv (run e initSt h').c (run e initSt h).c := by
  let R : St → St → Prop := fun s s' => Reachable e s ∧ Reachable e s' ∧ ObsEq s s'
  have hc : CacheCoherentR e R := by
    intro s s' ⟨hr, hr', ho⟩
    exact ⟨hr, hr'.step .reopen, ho.1, ho.2.1, ho.2.2.trans (hco s' hr').symm⟩
  have hg : Congruent e R := by
    intro op s s' ⟨hr, hr', ho⟩
    obtain ⟨h1, h2⟩ := obsEq_congruent e op s s' ho
    exact ⟨h1, hr.step op, hr'.step op, h2⟩
  have h0 : R initSt initSt := ⟨⟨[], rfl⟩, ⟨[], rfl⟩, ObsEq.refl _⟩
  obtain ⟨h1, _, _, h2⟩ := reopen_unobservable_upto hc hg hi h0
  exact ⟨h1.symm, h2.1.symm, h2.2.1.symm, h2.2.2.symm⟩

theorem ReachableP.step {P : Op → Prop} {e : Env} {s : St} (hr : ReachableP P e s) (op : Op) (hp : P op) :
    ReachableP P e (step e op s).2 := by
  obtain ⟨h, hh, rfl⟩ := hr
  refine ⟨h ++ [op], ?_, ?_⟩
  · intro o ho
    rcases List.mem_append.mp ho with ho | ho
    · exact hh o ho
    · rw [List.mem_singleton.mp ho]; exact hp
  · rw [run_append]; rfl

/-- **C09 (b), restricted alphabet.** The same statement for histories over any set `P` of
operations that contains `.reopen`, with coherence demanded only in states reachable by such
histories (`CacheCoherentOn P e`). This is the form that is discharged from the C06 invariant
(`Props/C09Coherent.lean`: `P` = all operations except a move to an empty node name, which
HDF5 cannot express). -/
theorem reopen_unobservable_of_coherent_on {P : Op → Prop} {e : Env} (hPr : P .reopen)
    (hco : CacheCoherentOn P e) {h h' : List Op} (hi : Ins isReopen h h') (hP : ∀ op ∈ h, P op) :
    outcomes isReopen e initSt h' = outcomes isReopen e initSt h ∧
    (run e initSt h').raw = (run e initSt h).raw ∧
    (run e initSt h').next = (run e initSt h).next ∧
    CachesEqv (run e initSt h').c (run e initSt h).c := by
  have main : ∀ {h h' : List Op}, Ins isReopen h h' → (∀ op ∈ h, P op) → ∀ {s s' : St},
      ReachableP P e s → ReachableP P e s' → ObsEq s s' →
      outcomes isReopen e s h = outcomes isReopen e s' h' ∧ ObsEq (run e s h) (run e s' h') := by
    intro h h' hi
    induction hi with
    | nil => intro _ s s' _ _ ho; exact ⟨rfl, ho⟩
    | keep op _ ih =>
      intro hP s s' hr hr' ho
      have hp : P op := hP op (List.mem_cons_self ..)
      obtain ⟨h1, h2⟩ := obsEq_congruent e op s s' ho
      obtain ⟨i1, i2⟩ := ih (fun o ho => hP o (List.mem_cons_of_mem _ ho)) (ReachableP.step hr op hp) (ReachableP.step hr' op hp) h2
      simp only [outcomes, run]
      exact ⟨by rw [i1, h1], i2⟩
    | skip op hp _ ih =>
      intro hP s s' hr hr' ho
      have hop : op = .reopen := by
        cases op <;> first | rfl | exact absurd hp (by simp [isReopen])
      subst hop
      have ho' : ObsEq s (step e .reopen s').2 := ⟨ho.1, ho.2.1, ho.2.2.trans (hco s' hr').symm⟩
      obtain ⟨i1, i2⟩ := ih hP hr (ReachableP.step hr' .reopen hPr) ho'
      simp only [outcomes, run, isReopen, if_true]
      exact ⟨i1, i2⟩
  have h0 : ReachableP P e initSt := ⟨[], fun _ h => absurd h (List.not_mem_nil), rfl⟩
  obtain ⟨h1, h2⟩ := main hi hP h0 h0 (ObsEq.refl _)
  exact ⟨h1.symm, h2.1.symm, h2.2.1.symm, h2.2.2.symm⟩

/-- caches that agree literally except for `used` are equivalent when no package provides
anything (helper for the example below) -/
theorem cachesEqv_of_fields {c c' : Caches} (h1 : c.tocPath = c'.tocPath) (h2 : c.parents = c'.parents)
    (h3 : c.pkginfos = c'.pkginfos) (h4 : c.providers = c'.providers) (h5 : c.schemas = c'.schemas)
    (h6 : c.children = c'.children) (h7 : c.providers = []) : CachesEqv c c' :=
  ⟨fun _ => by rw [h1], fun _ => by rw [h2], fun _ => by rw [h3], fun _ => by rw [h4],
   fun _ => by rw [h5], fun _ => by rw [h6]; exact OptRel.of_eq MemEq.refl rfl,
   fun r pk hm => by rw [h7] at hm; exact absurd hm (by simp [alGet])⟩

/-- the hypothesis `CacheCoherent` is meaningful where literal coherence fails: in the witness
state of `literal_coherence_fails` the rebuilt caches ARE `CachesEqv` to the maintained ones -/
example :
    CachesEqv
      (reload (run exEnv initSt
        [.createGroup pa, .onMeta pa [.set "core" none true "m"], .onMeta pa [.del "core"]]).raw)
      (run exEnv initSt
        [.createGroup pa, .onMeta pa [.set "core" none true "m"], .onMeta pa [.del "core"]]).c :=
  cachesEqv_of_fields (by decide +kernel) (by decide +kernel) (by decide +kernel) (by decide +kernel)
    (by decide +kernel) (by decide +kernel) (by decide +kernel)

/-- instance of `reopen_unobservable_of_coherent` on the example histories -/
example (hco : CacheCoherent exEnv) :
    outcomes isReopen exEnv initSt exHr = outcomes isReopen exEnv initSt exH :=
  (reopen_unobservable_of_coherent hco
    (by unfold exH exHr; repeat (first | exact Ins.nil | apply Ins.keep | apply Ins.skip _ rfl))).1

/-! ## (c) refinement over an abstract raw driver -/

section
variable {D : Type} (drv : Driver D)

/-- **C09 (c), one operation.** Over any driver that satisfies the view laws of `Driver`
(errors compared through the enum `Err`), one container operation started in `sD` returns
what the model returns in the viewed state, the caller observes the same, and the state it
leaves is viewed as the model's next state. -/
theorem driver_refinement (e : Env) (op : Op) (sD : StD D) :
    (Drv.step drv e op sD).1 = (step e op (viewSt drv sD)).1 ∧
    Drv.obs drv e op sD = obs e op (viewSt drv sD) ∧
    viewSt drv (Drv.step drv e op sD).2 = (step e op (viewSt drv sD)).2 :=
  ⟨(step_sim e op sD).1, obs_sim e op sD, (step_sim e op sD).2⟩

/-- **C09 (c), all histories.** All observations (nothing hidden: `ins = fun _ => false`) and
the viewed final state agree with the model, for every history, by induction. -/
theorem container_refines (e : Env) (sD : StD D) (h : List Op) :
    Drv.outcomes drv (fun _ => false) e sD h = outcomes (fun _ => false) e (viewSt drv sD) h ∧
    viewSt drv (Drv.run drv e sD h) = run e (viewSt drv sD) h :=
  ⟨outcomes_sim _ e h sD, run_sim e h sD⟩

/-- user-visible queries after a history: `MetadorContainerTOC.query` and `node.meta.get` -/
theorem container_refines_queries (e : Env) (sD : StD D) (h : List Op) :
    (∀ start n v, tocQuery (viewSt drv (Drv.run drv e sD h)) start n v =
        tocQuery (run e (viewSt drv sD) h) start n v) ∧
    (∀ p k n v, Handle.get e (viewSt drv (Drv.run drv e sD h))
          (openHandle (viewSt drv (Drv.run drv e sD h)) p k) n v =
        Handle.get e (run e (viewSt drv sD) h) (openHandle (run e (viewSt drv sD) h) p k) n v) := by
  rw [run_sim]
  exact ⟨fun _ _ _ => rfl, fun _ _ _ _ => rfl⟩

/-- **C09 (c) + (a).** A history with patch boundaries inserted anywhere, run over ANY
law-abiding driver, gives the same observations (of the non-boundary operations) and the same
view as the history without boundaries run over the plain tree driver, provided both start
from the same viewed state. -/
theorem container_refines_any_boundaries (e : Env) (sD : StD D) (sT : StD Tree)
    (h0 : viewSt drv sD = viewSt treeDriver sT) {h h' : List Op} (hi : Ins isPatch h h') :
    Drv.outcomes drv isPatch e sD h' = Drv.outcomes treeDriver isPatch e sT h ∧
    viewSt drv (Drv.run drv e sD h') = viewSt treeDriver (Drv.run treeDriver e sT h) := by
  rw [outcomes_sim, outcomes_sim, run_sim, run_sim, h0]
  exact boundaries_unobservable hi _

end

/-! ### Non-vacuity: the IH5-like patch-log driver -/

/-- a freshly initialised container on the plain tree driver -/
def treeInit : StD Tree := ⟨initSt.raw, {}, 0⟩

/-- a freshly initialised container on the patch-log driver: one patch container holding the
three writes of `MetadorContainer.__init__` -/
def plInit : StD (List (List RawOp)) :=
  ⟨[[.create tocP .grp, .create versionP (.ds (.text "1.0")), .create uuidP (.ds (.text "uuid"))]], {}, 0⟩

example : viewSt treeDriver treeInit = initSt := rfl
example : viewSt patchLogDriver plInit = initSt := rfl

/-- the example history with its eight patch boundaries over the patch-log driver: nine patch
containers on disk (number of logged raw writes per container), … -/
example : ((Drv.run patchLogDriver exEnv plInit exH').raw.map List.length) =
    [4, 1, 5, 0, 4, 4, 3, 10, 0] := by decide +kernel

/-- … and the same view and the same observations as the history without boundaries over the
plain tree (instance of `container_refines_any_boundaries`) -/
example :
    Drv.outcomes patchLogDriver isPatch exEnv plInit exH' = Drv.outcomes treeDriver isPatch exEnv treeInit exH ∧
    viewSt patchLogDriver (Drv.run patchLogDriver exEnv plInit exH') =
      viewSt treeDriver (Drv.run treeDriver exEnv treeInit exH) :=
  container_refines_any_boundaries patchLogDriver exEnv plInit treeInit rfl
    (by unfold exH exH'; repeat (first | exact Ins.nil | apply Ins.keep | apply Ins.skip _ rfl))

end MetadorModel.C09
