import MetadorModel.Proofs.Bytes
/-!
# C17 — Embedded file bytes and their file metadata are exact

Theorems about `Model/Bytes.lean` (`_h5_wrap_bytes`, the read loop of `hashsum`,
`FileMetaHarvester.run`, `_is_del_mark` / `_guard_value`, the order of steps in `pack_file`).

`bytes_survive` (the wrapped value is what every later overlay history — patches, copy, move,
merge, reopen — shows at the node) is the instance `V := H5Val` of the C01/C05 refinement
theorems, which are parametric in the value type; it is proved there, not here. What is proved
here is everything that happens to the bytes before and after they are such a value.
-/
namespace MetadorModel.C17
open MetadorModel.Bytes

/-! ## Wrapping is lossless for every byte string -/

/-- reading back what `_h5_wrap_bytes` produced gives the bytes, for every byte string
(empty, NUL-rich, trailing NULs, high bytes, marker-like: no side condition). -/
theorem unwrap_wrap (bs : Bytes) : unwrap (wrapBytes bs) = bs := by
  unfold wrapBytes
  split_ifs with h
  · rfl
  · simp only [unwrap]
    have : bs.length = 0 := by omega
    exact (List.length_eq_zero_iff.mp this).symm

/-- `_h5_wrap_bytes` is injective. -/
theorem wrap_injective (a b : Bytes) (h : wrapBytes a = wrapBytes b) : a = b := by
  rw [← unwrap_wrap a, ← unwrap_wrap b, h]

/-- HDF5 stores and returns the wrapped value unchanged, for every byte string (this is why
the empty string is special-cased: `np.void(b"")` is refused by HDF5). -/
theorem store_wrap (bs : Bytes) : h5Store (wrapBytes bs) = .ok (wrapBytes bs) := by
  unfold wrapBytes
  split_ifs with h
  · simp [h5Store, h]
  · rfl

/-- the round trip through HDF5 as a whole -/
theorem store_roundtrip (bs : Bytes) : (h5Store (wrapBytes bs)).map unwrap = .ok bs := by
  rw [store_wrap]
  show Except.ok (unwrap (wrapBytes bs)) = _
  rw [unwrap_wrap]

example : unwrap (wrapBytes []) = [] ∧ unwrap (wrapBytes [0x61, 0, 0]) = [0x61, 0, 0] ∧
    wrapBytes [] = .empty ∧ wrapBytes [0, 0] = .void [0, 0] := by decide

/-- Why the wrapping is needed: stored as a numpy `S` string the trailing NULs are lost,
stored as plain `bytes` a NUL is refused (concrete witnesses). -/
theorem naive_wrapping_not_exact :
    (h5Store (.fixed [0x61, 0])).map unwrap ≠ .ok [0x61, 0] ∧
    h5Store (.str [0x61, 0]) = .error .valueError ∧
    h5Store (.void []) = .error .valueError := by decide

/-! ## Chunked reading loses nothing: digest and size are those of the whole content -/

/-- the chunks read by the `hashsum` loop concatenate to the content, for every positive chunk
size -/
theorem chunks_flatten (n : Nat) (hn : 0 < n) (bs : Bytes) : (chunks n bs).flatten = bs :=
  chunks_flatten' n hn bs

/-- every chunk handed to `update` is non-empty and at most `n` bytes long -/
theorem chunks_bounded (n : Nat) (bs c : Bytes) (h : c ∈ chunks n bs) : c ≠ [] ∧ c.length ≤ n :=
  chunksAux_mem n _ bs c h

/-- with chunk size 0 nothing would be read (the loop ends at the first empty `read`): the
hypothesis `0 < n` cannot be dropped -/
theorem chunks_zero (bs : Bytes) : chunks 0 bs = [] := by
  simp [chunks, chunksAux]

example : chunks 2 [1, 2, 3, 4, 5] = [[1, 2], [3, 4], [5]] := by decide

/-- chunked digest = digest of the whole content, for any state type and any update function
that streams -/
theorem chunked_digest {σ : Type} (upd : σ → Bytes → σ)
    (hs : ∀ s a b, upd (upd s a) b = upd s (a ++ b)) (h0 : ∀ s, upd s [] = s)
    (init : σ) (n : Nat) (hn : 0 < n) (bs : Bytes) :
    hashChunks upd init n bs = upd init bs :=
  hashChunks_eq upd hs h0 init n hn bs

/-- the harvested file metadata: `contentSize` is the length, `sha256` is the one-shot SHA-256
of the content -/
theorem file_meta_exact {σ : Type} (hl : HashLib σ) (h : Streaming hl) (bs : Bytes) :
    harvestFileMeta hl bs = .ok { contentSize := bs.length, sha256 := oneShot hl sha256 bs } := by
  unfold harvestFileMeta
  rw [hashsum_eq_oneShot hl h sha256 (by simp [hashAlgs])]

/-- a hash library that satisfies `Streaming` (states are the bytes seen so far) -/
def demoLib : HashLib Bytes where
  new _ := []
  blockSize _ := 64
  update s c := s ++ c
  hexdigest s := s.map (fun b => Char.ofNat b.toNat)

theorem demoLib_streaming : Streaming demoLib :=
  ⟨fun s a b => List.append_assoc s a b, fun s => List.append_nil s, fun _ => Nat.zero_lt_succ 63⟩

/-! ## The deletion marker -/

/-- exactly one byte string wraps to the IH5 deletion marker -/
theorem del_marker_iff (bs : Bytes) : wrapBytes bs = delMark ↔ bs = [0x7f] := by
  constructor
  · intro h
    have := congrArg unwrap h
    rw [unwrap_wrap] at this
    exact this
  · intro h; subst h; rfl

/-- … and `_is_del_mark` recognises exactly that one -/
theorem isDelMark_wrap_iff (bs : Bytes) : isDelMark (wrapBytes bs) = true ↔ bs = [0x7f] := by
  unfold wrapBytes
  split_ifs with h
  · simp [isDelMark]
  · have : bs = [] := List.length_eq_zero_iff.mp (by omega)
    subst this
    simp [isDelMark]

theorem isDelMark_iff (v : H5Val) : isDelMark v = true ↔ v = delMark := by
  cases v <;> simp [isDelMark, delMark]

/-- On IH5 the marker value is rejected loudly (`ValueError`) and nothing is stored (the
result is an error, there is no new store), whatever the store and the path. -/
theorem del_marker_rejected {σ : Type} (hl : HashLib σ) (st : Store) (p : Str) (bs : Bytes)
    (h : wrapBytes bs = delMark) :
    createDataset .ih5 st p (wrapBytes bs) = .error .valueError ∧
    packFile hl .ih5 st p bs = .error .valueError := by
  have hb := (del_marker_iff bs).mp h
  subst hb
  refine ⟨rfl, ?_⟩
  unfold packFile
  split_ifs
  · rfl
  · have hm : ∃ m, harvestFileMeta hl [0x7f] = .ok m := by
      unfold harvestFileMeta hashsum
      rw [if_pos (by simp [hashAlgs])]
      exact ⟨_, rfl⟩
    obtain ⟨m, hm⟩ := hm
    rw [hm]
    rfl

/-- every other wrapped value passes the guard -/
theorem guard_passes (bs : Bytes) (h : bs ≠ [0x7f]) : guardValue (wrapBytes bs) = .ok () := by
  unfold guardValue
  have : isDelMark (wrapBytes bs) = false := by
    cases hd : isDelMark (wrapBytes bs)
    · rfl
    · exact absurd ((isDelMark_wrap_iff bs).mp hd) h
  rw [this]; rfl

/-! ## `pack_file` then read -/

/-- Embedding a file at a fresh path succeeds (on plain HDF5 for every content, on IH5 for
every content but the marker) and a reader then sees exactly the bytes, their length and their
SHA-256; nothing else in the container changes. -/
theorem pack_read_exact {σ : Type} (hl : HashLib σ) (hs : Streaming hl) (drv : Driver)
    (st : Store) (p : Str) (bs : Bytes) (hfresh : st.get p = none)
    (hok : drv = .h5 ∨ bs ≠ [0x7f]) :
    ∃ st', packFile hl drv st p bs = .ok st' ∧
      readFile st' p = some (bs, some { contentSize := bs.length, sha256 := oneShot hl sha256 bs }) ∧
      ∀ q, q ≠ p → readFile st' q = readFile st q := by
  have hg : (if drv = .ih5 then guardValue (wrapBytes bs) else .ok ()) = .ok () := by
    split_ifs with hd
    · rcases hok with h | h
      · rw [hd] at h; cases h
      · exact guard_passes bs h
    · rfl
  refine ⟨{ data := (p, wrapBytes bs) :: st.data,
            fmeta := (p, { contentSize := bs.length, sha256 := oneShot hl sha256 bs }) :: st.fmeta }, ?_, ?_, ?_⟩
  · unfold packFile
    rw [hfresh, file_meta_exact hl hs]
    simp only [Option.isSome_none, Bool.false_eq_true, if_false]
    unfold createDataset
    rw [hg, store_wrap]
  · simp [readFile, Store.get, Store.getMeta, List.find?, unwrap_wrap]
  · intro q hq
    have hq' : (p == q) = false := by
      simp only [beq_eq_false_iff_ne, ne_eq]; exact fun h => hq h.symm
    simp [readFile, Store.get, Store.getMeta, List.find?, hq']

/-- both drivers show the same bytes and metadata for the same file -/
theorem drivers_agree {σ : Type} (hl : HashLib σ) (hs : Streaming hl) (st : Store) (p : Str)
    (bs : Bytes) (hfresh : st.get p = none) (hb : bs ≠ [0x7f]) :
    ∃ s1 s2, packFile hl .h5 st p bs = .ok s1 ∧ packFile hl .ih5 st p bs = .ok s2 ∧
      readFile s1 p = readFile s2 p ∧ (readFile s1 p).map (·.1) = some bs := by
  obtain ⟨s1, h1, r1, _⟩ := pack_read_exact hl hs .h5 st p bs hfresh (Or.inl rfl)
  obtain ⟨s2, h2, r2, _⟩ := pack_read_exact hl hs .ih5 st p bs hfresh (Or.inr hb)
  exact ⟨s1, s2, h1, h2, by rw [r1, r2], by rw [r1]; rfl⟩

/-- plain HDF5 has no reserved value: the marker-like content is stored and read back
unaltered -/
theorem plain_h5_keeps_marker {σ : Type} (hl : HashLib σ) (hs : Streaming hl) (st : Store)
    (p : Str) (hfresh : st.get p = none) :
    ∃ st', packFile hl .h5 st p [0x7f] = .ok st' ∧ (readFile st' p).map (·.1) = some [0x7f] := by
  obtain ⟨s1, h1, r1, _⟩ := pack_read_exact hl hs .h5 st p [0x7f] hfresh (Or.inl rfl)
  exact ⟨s1, h1, by rw [r1]; rfl⟩

/-! non-vacuity: concrete stores and contents meeting the hypotheses -/
example : (⟨[], []⟩ : Store).get ['x'] = none ∧ ([0x7f, 0] : Bytes) ≠ [0x7f] := by decide
example : packFile demoLib .ih5 ⟨[], []⟩ ['x'] [0x7f] = .error .valueError := by decide
example : (packFile demoLib .ih5 ⟨[], []⟩ ['x'] [0x7f, 0]).toOption.bind (readFile · ['x'])
    = some ([0x7f, 0], some ⟨2, ['\x7f', '\x00']⟩) := by decide
example : (packFile demoLib .h5 ⟨[], []⟩ ['x'] [0x7f]).toOption.bind (readFile · ['x'])
    = some ([0x7f], some ⟨1, ['\x7f']⟩) := by decide
example : (packFile demoLib .h5 ⟨[], []⟩ ['x'] []).toOption.bind (readFile · ['x'])
    = some ([], some ⟨0, []⟩) := by decide

end MetadorModel.C17
