import MetadorModel.Proofs.ContainerMove
import MetadorModel.Proofs.ContainerReload
/-!
# C06 — TOC and attached metadata stay in one-to-one sync

Property theorems about `MetadorModel.Container` (model of `container/interface.py` and
`container/wrappers.py`, tied to the real code by the correspondence run of `./check C06`).

`Inv e s` (`Proofs/ContainerInv.lean`) is the inductive invariant: well-formed raw tree, the
`/metador_container` subtree and the in-memory caches are *exactly* what the attached metadata
objects `ObjAt s.raw p r u` (object of schema `r` with uuid `u` stored at path `p` below a
`metador_meta_*` directory of a user node) demand. The clauses of the property text are the
corollaries `link_points_to_object` … `no_empty_bookkeeping_groups` below; `Sync` bundles them.
-/
namespace MetadorModel.C06
open MetadorModel.Container

variable {e : Env} {s : St}

/-! ## The clauses of the property as consequences of the invariant -/

/-- *"every TOC link points at an existing object with the same UUID and schema"*: whatever is
stored at `/metador_container/links/<schema>/<uuid>` is a link dataset whose target is the path
of an existing metadata object carrying that schema and that uuid in its name. -/
theorem link_points_to_object (hi : Inv e s) {r : SRef} {u : Nat} {n : Node}
    (h : get? s.raw (linkPath r u) = some n) :
    ∃ p, n = .ds (.target p) ∧ ObjAt s.raw p r u := by
  by_cases hL : ∃ p, ObjAt s.raw p r u
  · obtain ⟨p, hp⟩ := hL
    have := hi.toc.link_some p r u hp
    rw [h] at this; cases this
    exact ⟨p, rfl, hp⟩
  · rw [hi.toc.link_none r u hL] at h; cases h

/-- metadata objects are datasets attached to an existing user node: they live directly in the
metadata directory of a group or dataset that exists -/
theorem object_attached_to_node (hi : Inv e s) {p : Path} {r : SRef} {u : Nat} (h : ObjAt s.raw p r u) :
    ∃ node k, isInternal node = false ∧ nodeKind s node = some k ∧ p = metaBase node k ++ [.obj r u] ∧
      ∃ tok, get? s.raw p = some (.ds (.data tok)) := by
  obtain ⟨base, m, hb, rfl, hg⟩ := h
  have hdir : get? s.raw (base ++ [.metaDir m]) = some .grp :=
    hi.pclosed (base ++ [.metaDir m]) (.obj r u) (by simpa using hg)
  have hbase : get? s.raw base = some .grp := hi.pclosed base (.metaDir m) (by rw [hdir]; simp)
  have htok : ∃ tok, get? s.raw (base ++ [.metaDir m, .obj r u]) = some (.ds (.data tok)) := by
    cases hx : get? s.raw (base ++ [.metaDir m, .obj r u]) with
    | none => exact absurd hx hg
    | some n =>
      have := hi.mok.ushape _ n (by simp) (objPath_head hb) hx
      generalize hq : base ++ [Key.metaDir m, Key.obj r u] = q at this
      cases this with
      | user q n hi' _ =>
        rw [← hq, isInternal_append] at hi'
        simp [isInternal, Key.internal] at hi'
      | metaDir b' m' _ => have := congrArg List.getLast? hq; simp at this
      | obj b' m' r' u' tok _ => exact ⟨tok, rfl⟩
  rcases (hi.mok.host base m hb (by rw [hdir]; simp)).1 with rfl | ⟨v, hv⟩
  · exact ⟨base, false, hb, by simp [nodeKind, hbase], by simp [metaBase], htok⟩
  · refine ⟨base ++ [.user m], true, user_internal_false hi.mok hb hv, by simp [nodeKind, hv], ?_, htok⟩
    rw [metaBase_ds]; simp

/-- *"every attached object has exactly one link"*: the link named after its schema and uuid
points at it, and no other link does. -/
theorem object_has_exactly_one_link (hi : Inv e s) {p : Path} {r : SRef} {u : Nat} (h : ObjAt s.raw p r u) :
    get? s.raw (linkPath r u) = some (.ds (.target p)) ∧
    ∀ r' u', get? s.raw (linkPath r' u') = some (.ds (.target p)) → r' = r ∧ u' = u := by
  refine ⟨hi.toc.link_some p r u h, fun r' u' h' => ?_⟩
  obtain ⟨p', hn, ho⟩ := link_points_to_object hi h'
  cases hn
  obtain ⟨b, m, hb, hp, -⟩ := h
  obtain ⟨b', m', hb', hp', -⟩ := ho
  have := (snoc2_inj (hp.symm.trans hp')).2.2
  simp at this
  exact ⟨this.1.symm, this.2.symm⟩

/-- *"UUIDs are unique"*: two attached objects with the same uuid are the same object. -/
theorem uuids_unique (hi : Inv e s) {p p' : Path} {r r' : SRef} {u : Nat}
    (h : ObjAt s.raw p r u) (h' : ObjAt s.raw p' r' u) : p = p' ∧ r = r' :=
  hi.mok.uniq p p' r r' u h h'

/-- *"schema … records exist exactly for the schemas in use"*: `/metador_container/schemas/<r>`
with the embedded JSON Schema and the parent chain exists if and only if an object of schema `r`
is attached somewhere. -/
theorem schema_records_exact (hi : Inv e s) (r : SRef) :
    (UsedIn s.raw r → get? s.raw (schemaDir r) = some .grp ∧
      get? s.raw (schemaDir r ++ [.jsonschema]) = some (.ds (.jsonschema r)) ∧
      get? s.raw (schemaDir r ++ [.compat]) = some (.ds (.compat (ppath e r)))) ∧
    (¬ UsedIn s.raw r → get? s.raw (schemaDir r) = none ∧
      get? s.raw (schemaDir r ++ [.jsonschema]) = none ∧ get? s.raw (schemaDir r ++ [.compat]) = none) :=
  ⟨fun h => ⟨(hi.toc.sdir r).1 h, (hi.toc.json r).1 h, (hi.toc.compat r).1 h⟩,
   fun h => ⟨(hi.toc.sdir r).2 h, (hi.toc.json r).2 h, (hi.toc.compat r).2 h⟩⟩

/-- *"… and package records exist exactly for the schemas in use"*: the record of package `pk`
exists if and only if `pk` provides a schema in use; it lists the package's schema plugins. -/
theorem package_records_exact (hi : Inv e s) (pk : PkgId) :
    (RegP e (UsedIn s.raw) pk → get? s.raw (pkgPath pk) = some (.ds (.pkginfo pk (e.pkgPlugins pk)))) ∧
    (¬ RegP e (UsedIn s.raw) pk → get? s.raw (pkgPath pk) = none) :=
  hi.toc.pkg pk

/-- nothing else lives below `/metador_container` -/
theorem toc_shape (hi : Inv e s) (rest : Path) (h : get? s.raw (.toc :: rest) ≠ none) : TocShape rest :=
  hi.toc.shape rest h

/-- *"with no empty bookkeeping groups left behind"*: every group with a reserved name
(`metador_meta_*` directories, everything below `/metador_container`) other than
`/metador_container` itself has a child. -/
theorem no_empty_bookkeeping_groups (hi : Inv e s) {q : Path} (hint : isInternal q = true) (hq : q ≠ tocP)
    (hg : get? s.raw q = some .grp) : ∃ k, get? s.raw (q ++ [k]) ≠ none := by
  have hq0 : q ≠ [] := by rintro rfl; simp [isInternal] at hint
  by_cases hh : q.head? = some .toc
  · obtain ⟨rest, rfl⟩ : ∃ rest, q = .toc :: rest := by
      cases q with
      | nil => exact absurd rfl hq0
      | cons k rest => simp at hh; exact ⟨rest, by rw [hh]⟩
    have hsh := hi.toc.shape rest (by rw [hg]; simp)
    have dsne : ∀ {o : Option Node} {P : Prop} {v : Val}, Holds o P (.ds v) → o ≠ some .grp := by
      intro o P v h
      by_cases hp : P
      · rw [h.1 hp]; exact fun h => by cases h
      · rw [h.2 hp]; exact fun h => by cases h
    cases hsh with
    | root => exact absurd rfl hq
    | version => have := hi.toc.ver; simp only [versionP] at this; rw [this] at hg; cases hg
    | uuid => have := hi.toc.uid; simp only [uuidP] at this; rw [this] at hg; cases hg
    | links =>
      by_cases hp : ∃ p r u, ObjAt s.raw p r u
      · obtain ⟨p, r, u, ho⟩ := hp
        exact ⟨.ep r, by
          have := (hi.toc.ldir r).1 ⟨p, u, ho⟩
          simp only [linkDir] at this
          simp [this]⟩
      · have := hi.toc.links.2 hp
        simp only [linksP] at this; rw [this] at hg; cases hg
    | linkDir r =>
      by_cases hp : ∃ p u, ObjAt s.raw p r u
      · obtain ⟨p, u, ho⟩ := hp
        exact ⟨.link u, by
          have := hi.toc.link_some p r u ho
          simp only [linkPath] at this
          simp [this]⟩
      · have := (hi.toc.ldir r).2 hp
        simp only [linkDir] at this; rw [this] at hg; cases hg
    | link r u =>
      by_cases hp : ∃ p, ObjAt s.raw p r u
      · obtain ⟨p, ho⟩ := hp
        have := hi.toc.link_some p r u ho
        simp only [linkPath] at this; rw [this] at hg; cases hg
      · have := hi.toc.link_none r u hp
        simp only [linkPath] at this; rw [this] at hg; cases hg
    | schemas =>
      by_cases hp : ∃ r, UsedIn s.raw r
      · obtain ⟨r, hr⟩ := hp
        exact ⟨.ep r, by
          have := (hi.toc.sdir r).1 hr
          simp only [schemaDir] at this
          simp [this]⟩
      · have := hi.toc.schemas.2 hp
        simp only [schemasP] at this; rw [this] at hg; cases hg
    | schemaDir r =>
      by_cases hp : UsedIn s.raw r
      · exact ⟨.jsonschema, by
          have := (hi.toc.json r).1 hp
          simp only [schemaDir, List.cons_append, List.nil_append] at this
          simp [this]⟩
      · have := (hi.toc.sdir r).2 hp
        simp only [schemaDir] at this; rw [this] at hg; cases hg
    | json r => exact absurd hg (dsne (hi.toc.json r))
    | compat r => exact absurd hg (dsne (hi.toc.compat r))
    | packages =>
      by_cases hp : ∃ r, UsedIn s.raw r
      · obtain ⟨r, p, u, ho⟩ := hp
        obtain ⟨i, hinfo⟩ := hi.mok.objenv p r u ho
        exact ⟨.pkg i.pkg, by
          have := (hi.toc.pkg i.pkg).1 ⟨r, i, ⟨p, u, ho⟩, hinfo, rfl⟩
          simp only [pkgPath] at this
          simp [this]⟩
      · have := hi.toc.packages.2 hp
        simp only [packagesP] at this; rw [this] at hg; cases hg
    | pkg pk => exact absurd hg (dsne (hi.toc.pkg pk))
  · have := hi.mok.ushape q _ hq0 hh hg
    cases this with
    | user q n hi' _ => rw [hint] at hi'; cases hi'
    | metaDir base m hb =>
      obtain ⟨-, r, u, h⟩ := hi.mok.host base m hb (by rw [hg]; simp)
      exact ⟨.obj r u, by simpa using h⟩

/-- The statement of C06 about one state, in the words of the property. -/
structure Sync (e : Env) (s : St) : Prop where
  link_points_to_object : ∀ r u n, get? s.raw (linkPath r u) = some n →
    ∃ p, n = .ds (.target p) ∧ ObjAt s.raw p r u
  object_attached_to_node : ∀ p r u, ObjAt s.raw p r u →
    ∃ node k, isInternal node = false ∧ nodeKind s node = some k ∧ p = metaBase node k ++ [.obj r u] ∧
      ∃ tok, get? s.raw p = some (.ds (.data tok))
  object_has_exactly_one_link : ∀ p r u, ObjAt s.raw p r u →
    get? s.raw (linkPath r u) = some (.ds (.target p)) ∧
    ∀ r' u', get? s.raw (linkPath r' u') = some (.ds (.target p)) → r' = r ∧ u' = u
  uuids_unique : ∀ p p' r r' u, ObjAt s.raw p r u → ObjAt s.raw p' r' u → p = p' ∧ r = r'
  schema_records_exact : ∀ r, get? s.raw (schemaDir r) ≠ none ↔ UsedIn s.raw r
  package_records_exact : ∀ pk, get? s.raw (pkgPath pk) ≠ none ↔ RegP e (UsedIn s.raw) pk
  toc_shape : ∀ rest, get? s.raw (.toc :: rest) ≠ none → TocShape rest
  no_empty_bookkeeping_groups : ∀ q, isInternal q = true → q ≠ tocP → get? s.raw q = some .grp →
    ∃ k, get? s.raw (q ++ [k]) ≠ none

/-- the invariant implies the property statement -/
theorem sync_of_inv (hi : Inv e s) : Sync e s where
  link_points_to_object := fun _ _ _ h => link_points_to_object hi h
  object_attached_to_node := fun _ _ _ h => object_attached_to_node hi h
  object_has_exactly_one_link := fun _ _ _ h => object_has_exactly_one_link hi h
  uuids_unique := fun _ _ _ _ _ h h' => uuids_unique hi h h'
  schema_records_exact := fun r => by
    by_cases h : UsedIn s.raw r
    · simp [h, ((schema_records_exact hi r).1 h).1]
    · simp [h, ((schema_records_exact hi r).2 h).1]
  package_records_exact := fun pk => by
    by_cases h : RegP e (UsedIn s.raw) pk
    · simp [h, (package_records_exact hi pk).1 h]
    · simp [h, (package_records_exact hi pk).2 h]
  toc_shape := toc_shape hi
  no_empty_bookkeeping_groups := fun _ h1 h2 h3 => no_empty_bookkeeping_groups hi h1 h2 h3

/-! ## The invariant holds initially and is kept by every operation -/

/-- a freshly created container is in sync -/
theorem sync_init (e : Env) : Inv e initSt := init_inv e

/-- any sequence of `set` / `del` / `get` on one `node.meta` handle keeps the invariant; the
final state of `opMeta` is the state left behind whatever the individual outcomes were (refused
`set` of a second object, unknown or auxiliary schema, invalid value, missing key, …). -/
theorem sync_meta (he : WFEnv e) (hi : Inv e s) (p : Path) (ops : List MetaOp) :
    Inv e (opMeta e p ops s).2 := opMeta_inv he hi p ops

/-- `create_group`, success or failure -/
theorem sync_create_group (hi : Inv e s) (p : Path) : Inv e (opCreateGroup p s).2 := opCreateGroup_inv hi p

/-- `group[name] = data`, success or failure -/
theorem sync_create_dataset (hi : Inv e s) (p : Path) (tok : String) : Inv e (opCreateDataset p tok s).2 :=
  opCreateDataset_inv hi p tok

/-- `del group[name]` (with the `_destroy_meta` recursion over everything below), success or failure -/
theorem sync_delete (he : WFEnv e) (hi : Inv e s) (p : Path) : Inv e (opDelete p s).2 := opDelete_inv he hi p

/-- close and reopen: the caches rebuilt from disk satisfy the invariant again -/
theorem sync_reopen (he : WFEnv e) (hi : Inv e s) : Inv e (opReopen s).2 := opReopen_inv he hi

/-- *"The same holds after closing and reopening, where the in-memory index rebuilt from disk equals
the one maintained incrementally"*: `reload s.raw` and `s.c` agree on everything the public TOC API
reads (`CachesEq`: link table by uuid, set of embedded schemas, `parent_path`, domain and members of
`children`, `packages`, `provider`). Literal equality of the Python containers is not claimed (and
is false: dict orders differ, `_used` keeps empty entries of packages that are no longer needed). -/
theorem cache_coherent (he : WFEnv e) (hi : Inv e s) : CachesEq (reload s.raw) s.c := reload_cachesEq he hi

/-- `group.copy(source, dest, without_meta=…)`, success or failure: dataset and group branch, the
metadata-free dataset that raises after copying, `find_missing` / `repair_missing` with fresh uuids,
and `_destroy_meta(_unlink=False)` of the copied metadata -/
theorem sync_copy (he : WFEnv e) (hi : Inv e s) (src dst : Path) (withoutMeta : Bool) :
    Inv e (opCopy e src dst withoutMeta s).2 := opCopy_inv he hi src dst withoutMeta

/-- `group.move(source, dest)`, success or failure (metadata directory of a dataset moves along,
links are re-targeted with `update=True`). `dest` must not end in an empty name: HDF5 names are never
empty and the driver's path parser refuses empty segments, but the structured names of the model
contain `Key.user ""`, for which the statement is false (`sync_step_needs_names`). -/
theorem sync_move (hi : Inv e s) (src dst : Path) (hname : dst.getLast? ≠ some (.user "")) :
    Inv e (opMove e src dst s).2 := opMove_inv hi src dst hname

/-- **`sync_step`**: every container operation — create group/dataset, any sequence of metadata
operations on a node, delete, copy (with and without metadata), move, reopen, patch boundary —
keeps the invariant, whether it succeeds or fails (the state `(step e op s).2` is what the operation
leaves behind in either case). -/
theorem sync_step (he : WFEnv e) (hi : Inv e s) (op : Op) (hop : OpOK op) : Inv e (step e op s).2 :=
  step_inv he hi op hop

/-- **`sync_run`**: all histories (of operations satisfying the side condition `OpOK`) -/
theorem sync_run (he : WFEnv e) (ops : List Op) (s : St) (hi : Inv e s) (h : ∀ op ∈ ops, OpOK op) :
    Inv e (run e s ops) := run_inv he ops s hi h

/-- every state reachable from a fresh container satisfies the property statement -/
theorem sync_reachable (he : WFEnv e) (ops : List Op) (h : ∀ op ∈ ops, OpOK op) :
    Sync e (run e initSt ops) :=
  sync_of_inv (sync_run he ops initSt (sync_init e) h)

/-- the statement without the side condition on names -/
def sync_step_statement : Prop :=
  ∀ (e : Env) (s : St) (op : Op), WFEnv e → Inv e s → Inv e (step e op s).2

/-! ## Non-vacuity: a three-level schema family -/

def aa : SRef := ⟨"vt.aa", (1, 0, 0)⟩
def bb : SRef := ⟨"vt.bb", (1, 0, 0)⟩
def cc : SRef := ⟨"vt.cc", (1, 2, 0)⟩
def pk1 : PkgId := ⟨"vtpkg", (0, 1, 0)⟩
def pk2 : PkgId := ⟨"other", (2, 0, 0)⟩
def dd : SRef := ⟨"ot.dd", (0, 1, 0)⟩

/-- `aa ← bb ← cc` provided by one package, `dd` (child of `aa`) by another one -/
def env3 : Env :=
  ⟨[⟨aa, [aa], pk1, false⟩, ⟨bb, [aa, bb], pk1, false⟩, ⟨cc, [aa, bb, cc], pk1, false⟩,
    ⟨dd, [aa, dd], pk2, false⟩],
   [(pk1, [aa, bb, cc]), (pk2, [dd])]⟩

theorem env3_wf : WFEnv env3 := WFEnv.of_check (by decide)

example : Inv env3 initSt := sync_init env3

/-- a history that attaches an object of the grandchild schema to a dataset in a group -/
def hist1 : List Op :=
  [.createDataset [.user "g", .user "d"] "x",
   .onMeta [.user "g", .user "d"] [.set "vt.cc" none true "t1"]]

/-- the state after `hist1` holds an object (so the clauses above are not vacuous there) -/
theorem hist1_obj : ObjAt (run env3 initSt hist1).raw [.user "g", .metaDir "d", .obj cc 0] cc 0 :=
  ⟨[.user "g"], "d", by decide, rfl, by decide⟩

/-- … and it satisfies the invariant, hence every clause of the property -/
example : Sync env3 (run env3 initSt hist1) := sync_reachable env3_wf hist1 (by decide)

example : CachesEq (reload (run env3 initSt hist1).raw) (run env3 initSt hist1).c :=
  cache_coherent env3_wf (sync_run env3_wf hist1 initSt (sync_init env3) (by decide))

/-- a longer history through every kind of operation (group and dataset metadata, refused second
object, copy with and without metadata, move, delete, reopen) -/
def hist2 : List Op :=
  [.createDataset [.user "g", .user "d"] "x",
   .onMeta [.user "g", .user "d"] [.set "vt.cc" none true "t1", .set "vt.cc" none true "t2", .set "ot.dd" none true "t3"],
   .onMeta [.user "g"] [.set "vt.bb" none true "t4"],
   .copy [.user "g"] [.user "h"] false,
   .copy [.user "g", .user "d"] [.user "e"] true,
   .move [.user "h"] [.user "k", .user "h"],
   .delete [.user "g"],
   .reopen]

example : Sync env3 (run env3 initSt hist2) := sync_reachable env3_wf hist2 (by decide)

/-- after `hist2` the copies carry fresh uuids at their new place (`/k/h/d` holds the copy of the
`vt.cc` object with uuid 5), the originals are gone -/
example : ObjAt (run env3 initSt hist2).raw [.user "k", .user "h", .metaDir "d", .obj cc 5] cc 5 ∧
    ¬ UsedIn (run env3 initSt hist2).raw aa ∧ get? (run env3 initSt hist2).raw [.user "g"] = none :=
  ⟨⟨[.user "k", .user "h"], "d", by decide, rfl, by decide +kernel⟩,
   fun h => by
     have := ((schema_records_exact (sync_run env3_wf hist2 initSt (sync_init env3) (by decide)) aa).1 h).1
     revert this; decide +kernel,
   by decide +kernel⟩

/-- The side condition of `sync_move` is needed *in the model*: with the (impossible) empty node
name as destination the metadata directory of the moved dataset stays behind. -/
def histBad : List Op :=
  [.createGroup [.user "g"], .onMeta [.user "g"] [.set "vt.aa" none true "a"],
   .createDataset [.user "d"] "x", .onMeta [.user "d"] [.set "vt.aa" none true "b"],
   .move [.user "d"] [.user "g", .user ""]]

theorem sync_step_needs_names : ¬ sync_step_statement := by
  intro h
  have hrun : ∀ (ops : List Op) (s : St), Inv env3 s → Inv env3 (run env3 s ops) := by
    intro ops
    induction ops with
    | nil => intro s hi; exact hi
    | cons op ops ih => intro s hi; exact ih _ (h env3 s op env3_wf hi)
  have hi := hrun histBad initSt (sync_init env3)
  have hdir : get? (run env3 initSt histBad).raw ([] ++ [.metaDir "d"]) ≠ none := by decide +kernel
  rcases (hi.mok.host [] "d" rfl hdir).1 with h | ⟨v, hv⟩
  · exact absurd h (by decide)
  · have : get? (run env3 initSt histBad).raw ([] ++ [Key.user "d"]) = none := by decide +kernel
    rw [this] at hv; cases hv

end MetadorModel.C06
