import MetadorModel.Proofs.Acl
/-!
# C15 — Node restrictions cannot be escaped by navigating the container

Property theorems about `MetadorModel.Acl`. All of them are stated for an arbitrary guard
table `t` with `TableOk t` and an arbitrary fixed tree `T`, for navigation chains of any
length. `Bridge/AclTable.lean` shows on every run that the table extracted from the current
source is such a table. Helper lemmas live in `Proofs/Acl.lean`.
-/
namespace MetadorModel.C15
open MetadorModel MetadorModel.Acl

/-! ## Flags only grow along a chain -/

/-- one navigation step (child lookup, listing + lookup, visit, query result, `require_*`,
absolute lookup, `parent`, `restrict`) never loses a flag -/
theorem step_monotone (t : AclTable) (ht : TableOk t = true) (T : Tree) (w w' : Wrapper) (s : Step)
    (h : step t T w s = .ok w') : w.flags.le w'.flags = true := by
  have F := facts_of_tableOk t ht
  rcases step_cases t F T w w' s h with h | ⟨p, h, _⟩ | ⟨_, p, f, rest, _, h⟩ | ⟨f, h⟩
  · rw [h]; exact Flags.le_refl _
  · rw [h]; exact Flags.le_refl _
  · rw [h]; exact Flags.le_union_right _ _
  · rw [h]; exact Flags.le_union_left _ _

/-- `flags start ⊆ flags (nav chain start)` for every chain -/
theorem flags_monotone (t : AclTable) (ht : TableOk t = true) (T : Tree) (chain : List Step)
    (start w : Wrapper) (h : nav t T chain start = .ok w) : start.flags.le w.flags = true := by
  induction chain generalizing start with
  | nil => simp only [nav] at h; cases h; exact Flags.le_refl _
  | cons s ss ih =>
    simp only [nav] at h
    cases hs : step t T start s with
    | error e => simp [hs] at h
    | ok w1 =>
      simp only [hs] at h
      exact Flags.le_trans (step_monotone t ht T start w1 s hs) (ih w1 h)

example : (nav currentTable [(["g"], true), (["g", "d"], false)]
    [.child .getitem ["g"], .restrict ⟨true, false, false⟩, .parent, .child .visititems ["g", "d"]]
    ⟨[], ⟨false, true, false⟩, []⟩).toOption =
    some ⟨["g", "d"], ⟨true, true, false⟩, [([], ⟨true, true, false⟩)]⟩ := by decide

/-! ## read_only: every mutating operation is refused without effect -/

private theorem not_prop_op (ops : List String) (h : ∀ op ∈ ops, (op == "parent" || op == "file") = false)
    (t : AclTable) (g : Bool) (op : String) (hop : op ∈ ops) (f : Flags) :
    t.refusesOn g op f = t.refuses op f := by
  simp [AclTable.refusesOn, h op hop]

/-- on a read-only wrapper every mutating operation on data, attributes or metadata raises
`UnsupportedOperationError` and the raw state is what it was -/
theorem ro_refuses {σ α : Type} (t : AclTable) (ht : TableOk t = true) (w : Wrapper) (isGroup : Bool)
    (hro : w.flags.ro = true) (op : String) (hop : op ∈ mutatingOps)
    (raw : σ → Except NavErr (σ × α)) (s : σ) :
    runOp t isGroup w op raw s = .error .unsupported ∧
    stateAfter s (runOp t isGroup w op raw s) = s := by
  have F := facts_of_tableOk t ht
  have hr : t.refuses op w.flags = true := refuses_of_guard t op w.flags .ro (F.mutG op hop) hro
  have : runOp t isGroup w op raw s = .error .unsupported := by
    simp [runOp, not_prop_op mutatingOps (by decide) t isGroup op hop, hr]
  exact ⟨this, by rw [this]; rfl⟩

/-- … and this holds for every node reachable from a read-only start by any chain -/
theorem ro_refuses_after_nav {σ α : Type} (t : AclTable) (ht : TableOk t = true) (T : Tree)
    (chain : List Step) (start w : Wrapper) (hro : start.flags.ro = true)
    (h : nav t T chain start = .ok w) (isGroup : Bool) (op : String) (hop : op ∈ mutatingOps)
    (raw : σ → Except NavErr (σ × α)) (s : σ) :
    w.flags.ro = true ∧ runOp t isGroup w op raw s = .error .unsupported ∧
    stateAfter s (runOp t isGroup w op raw s) = s := by
  have hw : w.flags.ro = true :=
    Flags.le_has (flags_monotone t ht T chain start w h) .ro hro
  exact ⟨hw, ro_refuses t ht w isGroup hw op hop raw s⟩

example : "move" ∈ mutatingOps ∧ "meta.__delitem__" ∈ mutatingOps ∧ "attrs.__setitem__" ∈ mutatingOps ∧
    (runOp currentTable true ⟨["g"], ⟨true, false, false⟩, []⟩ "move"
      (fun (s : Nat) => .ok (s + 1, ())) 7).toOption = none ∧
    (runOp currentTable true ⟨["g"], ⟨false, false, true⟩, []⟩ "move"
      (fun (s : Nat) => .ok (s + 1, ())) 7).toOption = some (8, ()) := by decide

/-! ## skel_only: no contents, attribute values or metadata objects -/

theorem skel_hides {σ α : Type} (t : AclTable) (ht : TableOk t = true) (w : Wrapper) (isGroup : Bool)
    (hsk : w.flags.skel = true) (op : String) (hop : op ∈ readingOps)
    (raw : σ → Except NavErr (σ × α)) (s : σ) :
    runOp t isGroup w op raw s = .error .unsupported := by
  have F := facts_of_tableOk t ht
  have hr : t.refuses op w.flags = true := refuses_of_guard t op w.flags .skel (F.readG op hop) hsk
  simp [runOp, not_prop_op readingOps (by decide) t isGroup op hop, hr]

theorem skel_hides_after_nav {σ α : Type} (t : AclTable) (ht : TableOk t = true) (T : Tree)
    (chain : List Step) (start w : Wrapper) (hsk : start.flags.skel = true)
    (h : nav t T chain start = .ok w) (isGroup : Bool) (op : String) (hop : op ∈ readingOps)
    (raw : σ → Except NavErr (σ × α)) (s : σ) :
    w.flags.skel = true ∧ runOp t isGroup w op raw s = .error .unsupported := by
  have hw : w.flags.skel = true :=
    Flags.le_has (flags_monotone t ht T chain start w h) .skel hsk
  exact ⟨hw, skel_hides t ht w isGroup hw op hop raw s⟩

/-- the attribute manager of a restricted node: under `skel_only` no value-yielding method,
under `read_only` no mutating method gets through `WrappedAttributeManager.__getattr__`
(whatever other flags are set) -/
theorem attr_manager_restricted (t : AclTable) (ht : TableOk t = true) (f : Flags) :
    (f.skel = true → ∀ m ∈ attrValueMethods, t.attrMethodRefused f m = true) ∧
    (f.ro = true → ∀ m ∈ attrMutMethods, t.attrMethodRefused f m = true) := by
  have c := cond_of_tableOk t ht
  have hwro := c (t.attrsWrappedFor.contains .ro) (by simp [tableConds])
  have hwsk := c (t.attrsWrappedFor.contains .skel) (by simp [tableConds])
  have hkeys := c (t.attrWhitelist.all fun e => e.1 == .ro || e.1 == .skel) (by simp [tableConds])
  -- the allowed set only depends on the ro and skel flags
  have hdep : t.attrAllowed f = t.attrAllowed ⟨f.ro, false, f.skel⟩ := by
    unfold AclTable.attrAllowed
    have : (t.attrWhitelist.filter fun e => f.has e.1) =
        (t.attrWhitelist.filter fun e => (⟨f.ro, false, f.skel⟩ : Flags).has e.1) := by
      apply List.filter_congr
      intro e he
      have := List.all_eq_true.mp hkeys e he
      cases hk : e.1 <;> simp [hk, Flags.has] at this ⊢
    simp only [this]
  have hwrapped : (f.ro = true ∨ f.skel = true) → t.attrsWrapped f = true := by
    intro h
    simp only [AclTable.attrsWrapped, List.any_eq_true]
    rcases h with h | h
    · exact ⟨.ro, by simpa using hwro, h⟩
    · exact ⟨.skel, by simpa using hwsk, h⟩
  have n1 := c (!(t.attrAllowed ⟨true, false, false⟩).isEmpty) (by simp [tableConds])
  have n2 := c (!(t.attrAllowed ⟨false, false, true⟩).isEmpty) (by simp [tableConds])
  have n3 := c (!(t.attrAllowed ⟨true, false, true⟩).isEmpty) (by simp [tableConds])
  have m1 := c (attrMutMethods.all fun m => !(t.attrAllowed ⟨true, false, false⟩).contains m) (by simp [tableConds])
  have m3 := c (attrMutMethods.all fun m => !(t.attrAllowed ⟨true, false, true⟩).contains m) (by simp [tableConds])
  have v2 := c (attrValueMethods.all fun m => !(t.attrAllowed ⟨false, false, true⟩).contains m) (by simp [tableConds])
  have v3 := c (attrValueMethods.all fun m => !(t.attrAllowed ⟨true, false, true⟩).contains m) (by simp [tableConds])
  constructor
  · intro hsk m hm
    simp only [AclTable.attrMethodRefused, hwrapped (Or.inr hsk), Bool.true_and, Bool.and_eq_true]
    rw [hdep, hsk]
    cases hr : f.ro
    · exact ⟨n2, List.all_eq_true.mp v2 m hm⟩
    · exact ⟨n3, List.all_eq_true.mp v3 m hm⟩
  · intro hro m hm
    simp only [AclTable.attrMethodRefused, hwrapped (Or.inl hro), Bool.true_and, Bool.and_eq_true]
    rw [hdep, hro]
    cases hs : f.skel
    · exact ⟨n1, List.all_eq_true.mp m1 m hm⟩
    · exact ⟨n3, List.all_eq_true.mp m3 m hm⟩

example : currentTable.attrMethodRefused ⟨false, false, true⟩ "get" = true ∧
    currentTable.attrMethodRefused ⟨true, false, false⟩ "get" = false ∧
    currentTable.attrMethodRefused ⟨true, true, false⟩ "update" = true ∧
    currentTable.attrMethodRefused ⟨false, true, false⟩ "update" = false := by decide

/-! ## local_only: nothing above the node it was declared on -/

/-- prefix order on paths: `a` is `b` or an ancestor of `b` -/
def atOrBelow (root p : Path) : Prop := ∃ rel, p = root ++ rel

/-- From a node declared `local_only` (no remembered parent: `restrict(local_only=True)` clears
it), every node reachable by any chain lies at or below it, still is `local_only`, and only
remembers parents at or below it. -/
theorem local_confined (t : AclTable) (ht : TableOk t = true) (T : Tree) (chain : List Step)
    (start w : Wrapper) (hloc : start.flags.loc = true) (hroot : start.lps = [])
    (h : nav t T chain start = .ok w) :
    atOrBelow start.path w.path ∧ w.flags.loc = true := by
  have F := facts_of_tableOk t ht
  -- invariant
  let Inv : Wrapper → Prop := fun x =>
    x.flags.loc = true ∧ atOrBelow start.path x.path ∧ ∀ e ∈ x.lps, atOrBelow start.path e.1
  have hstep : ∀ x y s, Inv x → step t T x s = .ok y → Inv y := by
    intro x y s ⟨hl, hp, hlp⟩ hs
    rcases step_cases t F T x y s hs with h | ⟨p, h, hor⟩ | ⟨_, p, f, rest, hlps, h⟩ | ⟨f, h⟩
    · rw [h]; exact ⟨hl, hp, hlp⟩
    · rcases hor with ⟨rel, hrel⟩ | hnl
      · rw [h]
        refine ⟨hl, ?_, ?_⟩
        · obtain ⟨r0, hr0⟩ := hp
          exact ⟨r0 ++ rel, by simp [hrel, hr0]⟩
        · intro e he
          simp only [hl, ↓reduceIte, List.mem_cons] at he
          rcases he with he | he
          · rw [he]; exact hp
          · exact hlp e he
      · rw [hl] at hnl; cases hnl
    · rw [h]
      have hmem : (p, f) ∈ x.lps := by rw [hlps]; simp
      refine ⟨?_, hlp (p, f) hmem, ?_⟩
      · simp [Flags.union, hl]
      · intro e he
        exact hlp e (by rw [hlps]; exact List.mem_cons_of_mem _ he)
    · rw [h]
      refine ⟨by simp [Flags.union, hl], hp, ?_⟩
      intro e he
      split_ifs at he
      · cases he
      · exact hlp e he
  have hInv : ∀ (chain : List Step) (x w : Wrapper), Inv x → nav t T chain x = .ok w → Inv w := by
    intro chain
    induction chain with
    | nil => intro x w hx hn; simp only [nav] at hn; cases hn; exact hx
    | cons s ss ih =>
      intro x w hx hn
      simp only [nav] at hn
      cases hs : step t T x s with
      | error e => simp [hs] at hn
      | ok y =>
        simp only [hs] at hn
        exact ih y w (hstep x y s hx hs) hn
  have h0 : Inv start := ⟨hloc, ⟨[], by simp⟩, by rw [hroot]; intro e he; cases he⟩
  obtain ⟨h1, h2, _⟩ := hInv chain start w h0 h
  exact ⟨h2, h1⟩

/-- a `local_only` wrapper refuses `file`, refuses `parent` when it is the declared node, and
refuses absolute paths -/
theorem local_upward_refused {σ α : Type} (t : AclTable) (ht : TableOk t = true) (T : Tree)
    (w : Wrapper) (isGroup : Bool) (hloc : w.flags.loc = true)
    (raw : σ → Except NavErr (σ × α)) (s : σ) :
    runOp t isGroup w "file" raw s = .error .unsupported ∧
    (w.lps = [] → step t T w .parent = .error .unsupported) ∧
    (∀ p path, T.kind w.path = some true → (p = .getitem ∨ p = .get) →
      step t T w (.abs p path) = .error .value) := by
  have F := facts_of_tableOk t ht
  have hf : t.refuses "file" w.flags = true :=
    refuses_of_guard t "file" w.flags .loc (F.upG "file" (by simp [upwardOps])) hloc
  have hp : t.refuses "parent" w.flags = true :=
    refuses_of_guard t "parent" w.flags .loc (F.upG "parent" (by simp [upwardOps])) hloc
  refine ⟨by simp [runOp, refusesOn_eq t F.fallback, hf], ?_, ?_⟩
  · intro hl
    simp [step, hloc, hl, refusesOn_eq t F.fallback, hp]
  · intro p path hk hp2
    rcases hp2 with hp2 | hp2 <;> simp [step, hk, hp2, F.absGuard, hloc]

example : errOf (nav currentTable [(["g"], true), (["g", "h"], true)]
    [.child .get ["h"], .parent, .parent] ⟨["g"], ⟨false, true, false⟩, []⟩) = some .unsupported ∧
    (nav currentTable [(["g"], true), (["g", "h"], true)]
    [.child .get ["h"], .parent] ⟨["g"], ⟨false, true, false⟩, []⟩).toOption =
      some ⟨["g"], ⟨false, true, false⟩, []⟩ := by decide

/-! ## restrict only adds -/

theorem restrict_only_adds (t : AclTable) (ht : TableOk t = true) (T : Tree) (w : Wrapper) (f : Flags) :
    ∃ w', step t T w (.restrict f) = .ok w' ∧ w'.path = w.path ∧
      w.flags.le w'.flags = true ∧ f.le w'.flags = true ∧
      (f = ⟨false, false, false⟩ → w'.flags = w.flags) := by
  have F := facts_of_tableOk t ht
  refine ⟨⟨w.path, w.flags.union f, if f.loc then [] else w.lps⟩,
    by simp only [step, F.restrictOrs, ↓reduceIte], rfl, Flags.le_union_left _ _,
    Flags.le_union_right _ _, ?_⟩
  intro hf
  subst hf
  exact Flags.union_empty _

/-! ## The tables -/

/-- the hand-written table of the current source (used by the driver) is well-formed -/
theorem current_table_ok : TableOk currentTable = true := by decide

/-- Pinned behaviour (before F22): under `local_only` the remembered parent object was handed
out with its own flags — a node restricted as read-only reached a writable wrapper through
`parent`. The chain is the replay used against the implementation (corpus/C15). -/
theorem legacy_parent_drops_flags :
    (nav Legacy.table [(["g"], true)]
      [.child .getitem ["g"], .restrict ⟨true, false, false⟩, .parent]
      ⟨[], ⟨false, true, false⟩, []⟩).toOption.map (·.flags.ro) = some false ∧
    (nav currentTable [(["g"], true)]
      [.child .getitem ["g"], .restrict ⟨true, false, false⟩, .parent]
      ⟨[], ⟨false, true, false⟩, []⟩).toOption.map (·.flags.ro) = some true ∧
    TableOk Legacy.table = false := by decide

/-- Pinned behaviour (before the dataset `__getattr__` repair): `parent` of a `local_only`
dataset wrapper fell through to the raw dataset and yielded the unrestricted raw parent. -/
theorem legacy_dataset_parent_escapes :
    (step Legacy.tableFallback [(["g"], true), (["g", "d"], false)]
      ⟨["g", "d"], ⟨true, true, false⟩, []⟩ .parent).toOption =
      some ⟨["g"], ⟨false, false, false⟩, []⟩ ∧
    (step currentTable [(["g"], true), (["g", "d"], false)]
      ⟨["g", "d"], ⟨true, true, false⟩, []⟩ .parent).toOption = none ∧
    TableOk Legacy.tableFallback = false := by decide

end MetadorModel.C15
