import MetadorModel.Proofs.PartialKeep
/-!
# C14 — Merging partial metadata is a lossless, associative, non-mutating monoid

Property theorems about `MetadorModel.Partial` (model of `PartialModel._update_field`,
`merge_with`, `to_partial`, `from_partial`). Helper lemmas live in `Proofs/Partial*.lean`.

A partial instance is `PVal.obj cls fields` with key-sorted fields at every level (`wf`: the
canonical form of `__dict__`); an absent field is a missing key. `mergeWith ow x y` is
`x.merge_with(y, allow_overwrite=ow)`; it returns a new value and its operands are values of a
pure function, so "never mutates its operands" holds in the model by construction (on the
implementation it is checked by snapshots). `sameOutcome r s` reads "both results are the same
value, or both raise".
-/
namespace MetadorModel.C14
open MetadorModel MetadorModel.Partial

/-! ## the empty partial is a left and right identity -/

theorem merge_empty_left (ow : Bool) (c c' : Cls) (fs : Fields) (h : AL.sorted fs = true) :
    mergeWith ow (empty c) (.obj c' fs) = .ok (.obj c fs) := by
  simp only [empty, mergeWith]
  obtain ⟨r, hr⟩ := mergeFields_total (ow := ow) (acc := []) h (fun k => ⟨AL.get fs k, by simp⟩)
  obtain ⟨hs, hp⟩ := mergeFields_ok h (by rfl) hr
  have : r = fs := AL.ext hs h (fun k => by have := hp k; simp at this; exact this.symm)
  rw [hr, this]

/-- in particular `empty ⊕ x = x` for `x` of the same class -/
theorem merge_empty_left' (ow : Bool) (c : Cls) (fs : Fields) (h : (PVal.obj c fs).wf = true) :
    mergeWith ow (empty c) (.obj c fs) = .ok (.obj c fs) :=
  merge_empty_left ow c c fs ((wf_obj c fs).mp h).1

theorem merge_empty_right (ow : Bool) (c c' : Cls) (fs : Fields) :
    mergeWith ow (.obj c fs) (empty c') = .ok (.obj c fs) := by
  simp [empty, mergeWith, mergeFields_nil]

/-! ## associativity where the classes at one nested position form an inheritance chain -/

/-- at every nested position the three values have one shape and, for model values, pairwise
related classes -/
def ChainAt (a b c : PVal) : Prop := Sim a b ∧ Sim b c ∧ Sim a c

theorem merge_assoc (ow : Bool) (a b c : PVal) (wa : a.wf = true) (wb : b.wf = true) (wc : c.wf = true)
    (h : ChainAt a b c) :
    sameOutcome (bindE (mergeWith ow a b) (fun m => mergeWith ow m c))
      (bindE (mergeWith ow b c) (fun m => mergeWith ow a m)) := by
  obtain ⟨sab, sbc, sac⟩ := h
  cases a with
  | obj c1 f1 =>
    cases b with
    | obj c2 f2 =>
      cases c with
      | obj c3 f3 =>
        simp only [Sim] at sab sbc sac
        exact mergeWith_assoc ow c1 c2 c3 f1 f2 f3 wa wb wc sab.2 sbc.2 sac.2
      | atom _ => simp [Sim] at sbc
      | list _ => simp [Sim] at sbc
      | set _ => simp [Sim] at sbc
    | atom _ => simp [Sim] at sab
    | list _ => simp [Sim] at sab
    | set _ => simp [Sim] at sab
  | atom _ => cases b <;> cases c <;> simp_all [mergeWith, bindE, sameOutcome, Sim]
  | list _ => cases b <;> cases c <;> simp_all [mergeWith, bindE, sameOutcome, Sim]
  | set _ => cases b <;> cases c <;> simp_all [mergeWith, bindE, sameOutcome, Sim]

/-- the nested merge (`_update_field` on two model values, with the class test) is associative too -/
theorem merge_assoc_nested (ow : Bool) (a b c : PVal) (wa : a.wf = true) (wb : b.wf = true) (wc : c.wf = true)
    (h : ChainAt a b c) :
    sameOutcome (bindE (merge ow a b) (fun m => merge ow m c)) (bindE (merge ow b c) (fun m => merge ow a m)) :=
  assocV c ow a b wa wb wc h.1 h.2.1 h.2.2

/-! ## what a successful merge holds, field by field -/

theorem mergeWith_ok {ow : Bool} {c1 c2 : Cls} {f1 f2 : Fields} {z : PVal}
    (w1 : (PVal.obj c1 f1).wf = true) (w2 : (PVal.obj c2 f2).wf = true)
    (h : mergeWith ow (.obj c1 f1) (.obj c2 f2) = .ok z) :
    ∃ r, z = .obj c1 r ∧ AL.sorted r = true ∧ ∀ k, updO ow (AL.get f1 k) (AL.get f2 k) = .ok (AL.get r k) := by
  simp only [mergeWith] at h
  cases hm : mergeFields ow f1 f2 with
  | error e => rw [hm] at h; cases h
  | ok r =>
    rw [hm] at h; cases h
    obtain ⟨hs, hp⟩ := mergeFields_ok ((wf_obj c2 f2).mp w2).1 ((wf_obj c1 f1).mp w1).1 hm
    exact ⟨r, rfl, hs, hp⟩

/-- lists are concatenated in order -/
theorem merge_list_concat {ow : Bool} {c1 c2 : Cls} {f1 f2 r : Fields}
    (w1 : (PVal.obj c1 f1).wf = true) (w2 : (PVal.obj c2 f2).wf = true)
    (h : mergeWith ow (.obj c1 f1) (.obj c2 f2) = .ok (.obj c1 r)) {k : String} {xs ys : List PVal}
    (h1 : AL.get f1 k = some (.list xs)) (h2 : AL.get f2 k = some (.list ys)) :
    AL.get r k = some (.list (xs ++ ys)) := by
  obtain ⟨r', e, _, hp⟩ := mergeWith_ok w1 w2 h
  cases e
  have := hp k
  rw [h1, h2, updO_some, merge_list_list] at this
  simpa using this.symm

/-- sets are united -/
theorem merge_set_union {ow : Bool} {c1 c2 : Cls} {f1 f2 r : Fields}
    (w1 : (PVal.obj c1 f1).wf = true) (w2 : (PVal.obj c2 f2).wf = true)
    (h : mergeWith ow (.obj c1 f1) (.obj c2 f2) = .ok (.obj c1 r)) {k : String} {xs ys : List Atom}
    (h1 : AL.get f1 k = some (.set xs)) (h2 : AL.get f2 k = some (.set ys)) :
    ∃ ws, AL.get r k = some (.set ws) ∧ ∀ a, a ∈ ws ↔ a ∈ xs ∨ a ∈ ys := by
  obtain ⟨r', e, _, hp⟩ := mergeWith_ok w1 w2 h
  cases e
  have := hp k
  rw [h1, h2, updO_some, merge_set_set] at this
  exact ⟨unionA xs ys, by simpa using this.symm, mem_unionA xs ys⟩

/-- nested model values of related classes are merged recursively; the result keeps the class of
the left value -/
theorem merge_nested {ow : Bool} {c1 c2 : Cls} {f1 f2 r : Fields}
    (w1 : (PVal.obj c1 f1).wf = true) (w2 : (PVal.obj c2 f2).wf = true)
    (h : mergeWith ow (.obj c1 f1) (.obj c2 f2) = .ok (.obj c1 r)) {k : String} {d1 d2 : Cls} {g1 g2 : Fields}
    (h1 : AL.get f1 k = some (.obj d1 g1)) (h2 : AL.get f2 k = some (.obj d2 g2))
    (hr : related d2 d1 = true) :
    ∃ g, AL.get r k = some (.obj d1 g) ∧ mergeFields ow g1 g2 = .ok g := by
  obtain ⟨r', e, _, hp⟩ := mergeWith_ok w1 w2 h
  cases e
  have := hp k
  rw [h1, h2, updO_some, merge_obj_obj, if_pos hr] at this
  cases hm : mergeFields ow g1 g2 with
  | error e => rw [hm] at this; simp [mapObj] at this
  | ok g =>
    rw [hm] at this
    exact ⟨g, by simpa [mapObj] using this.symm, rfl⟩

/-! ## no provided value is dropped -/

/-- two provided values that are not merged but treated as opaque: an atom met by anything, a
model value met by a non-model value or by a model value of an unrelated class -/
def Clash : PVal → PVal → Prop
  | .atom _, _ => True
  | .obj c1 _, .obj c2 _ => related c2 c1 = false
  | .obj _ _, _ => True
  | .list _, _ => False
  | .set _, _ => False

theorem merge_clash {ow : Bool} {o n : PVal} (h : Clash o n) : merge ow o n = asOpaque ow n := by
  cases o with
  | atom a => cases n <;> simp [merge]
  | obj c1 f1 =>
    cases n with
    | obj c2 f2 =>
      simp only [Clash] at h
      rw [merge_obj_obj, if_neg (by simp [h])]
    | atom _ => simp [merge]
    | list _ => simp [merge]
    | set _ => simp [merge]
  | list _ => simp [Clash] at h
  | set _ => simp [Clash] at h

/-- without overwrite permission a conflicting merge raises -/
theorem conflict_raises {c1 c2 : Cls} {f1 f2 : Fields} (w2 : (PVal.obj c2 f2).wf = true)
    {k : String} {o n : PVal} (h1 : AL.get f1 k = some o) (h2 : AL.get f2 k = some n) (hc : Clash o n) :
    ∃ e, mergeWith false (.obj c1 f1) (.obj c2 f2) = .error e := by
  have : ∃ e, mergeFields false f1 f2 = .error e := by
    rw [mergeFields_isErr_iff ((wf_obj c2 f2).mp w2).1]
    exact ⟨k, .conflict, by rw [h1, h2, updO_some, merge_clash hc]; rfl⟩
  obtain ⟨e, he⟩ := this
  exact ⟨e, by simp [mergeWith, he]⟩

/-- the conflict itself is the `ValueError` of `_update_field` -/
theorem conflict_is_value_error {o n : PVal} (hc : Clash o n) : merge false o n = .error .conflict := by
  rw [merge_clash hc]; rfl

/-- with overwrite permission the later value wins -/
theorem later_wins {c1 c2 : Cls} {f1 f2 r : Fields}
    (w1 : (PVal.obj c1 f1).wf = true) (w2 : (PVal.obj c2 f2).wf = true)
    (h : mergeWith true (.obj c1 f1) (.obj c2 f2) = .ok (.obj c1 r))
    {k : String} {o n : PVal} (h1 : AL.get f1 k = some o) (h2 : AL.get f2 k = some n) (hc : Clash o n) :
    AL.get r k = some n := by
  obtain ⟨r', e, _, hp⟩ := mergeWith_ok w1 w2 h
  cases e
  have := hp k
  rw [h1, h2, updO_some, merge_clash hc] at this
  simpa [asOpaque] using this.symm

/-- every provided leaf (atom — including `0`, `False`, `""` —, list or set — including empty
ones) of both operands is present in the result, or, only with overwrite permission and only for
the earlier operand, the later operand's value sits in the result at that path or above it -/
theorem no_value_dropped (ow : Bool) (x y z : PVal) (wx : x.wf = true) (wy : y.wf = true)
    (h : mergeWith ow x y = .ok z) (p : List String) (v : PVal) (hv : v.isObj = false) :
    (valAt y p = some v → ∃ w, valAt z p = some w ∧ Keeps v w) ∧
    (valAt x p = some v → (∃ w, valAt z p = some w ∧ Keeps v w) ∨
      (ow = true ∧ ∃ q n, q <+: p ∧ q ≠ [] ∧ valAt y q = some n ∧ valAt z q = some n)) := by
  cases x with
  | obj c1 f1 =>
    cases y with
    | obj c2 f2 =>
      obtain ⟨r, rfl, _, hp⟩ := mergeWith_ok wx wy h
      cases p with
      | nil =>
        constructor
        · intro hy; simp [valAt] at hy; subst hy; simp [PVal.isObj] at hv
        · intro hx; simp [valAt] at hx; subst hx; simp [PVal.isObj] at hv
      | cons k rest =>
        have := keep rest ow (AL.get f1 k) (AL.get f2 k) (AL.get r k)
          (wfOpt_child (x := some (.obj c1 f1)) wx k) (wfOpt_child (x := some (.obj c2 f2)) wy k) (hp k) v hv
        have e1 : ∀ (c : Cls) (fs : Fields) (rest : List String),
            valAt (.obj c fs) (k :: rest) = valAtO (AL.get fs k) rest := by
          intro c fs rest
          have := valAtO_cons (some (.obj c fs)) k rest
          simpa [valAtO, childO] using this
        rw [e1, e1, e1]
        refine ⟨this.1, fun hx => ?_⟩
        rcases this.2 hx with h1 | ⟨how, q, n, hq, h2, h3⟩
        · exact Or.inl h1
        · refine Or.inr ⟨how, k :: q, n, List.cons_prefix_cons.mpr ⟨rfl, hq⟩, by simp, ?_, ?_⟩
          · rw [e1]; exact h2
          · rw [e1]; exact h3
    | atom _ => simp [mergeWith] at h
    | list _ => simp [mergeWith] at h
    | set _ => simp [mergeWith] at h
  | atom _ => simp [mergeWith] at h
  | list _ => simp [mergeWith] at h
  | set _ => simp [mergeWith] at h

/-- without overwrite permission nothing is replaced at all -/
theorem no_value_dropped_strict (x y z : PVal) (wx : x.wf = true) (wy : y.wf = true)
    (h : mergeWith false x y = .ok z) (p : List String) (v : PVal) (hv : v.isObj = false)
    (hx : valAt x p = some v ∨ valAt y p = some v) : ∃ w, valAt z p = some w ∧ Keeps v w := by
  have := no_value_dropped false x y z wx wy h p v hv
  rcases hx with hx | hy
  · rcases this.2 hx with h1 | ⟨h2, _⟩
    · exact h1
    · cases h2
  · exact this.1 hy

/-! ## complete object → partial → complete object -/

mutual
theorem from_to_partial_val (req : Cls → List String) : (o : PVal) → complete req o = true →
    fromPartial req (toPartial o) = .ok o
  | .atom a, _ => by simp [toPartial, fromPartial]
  | .set xs, _ => by simp [toPartial, fromPartial]
  | .list xs, h => by
    simp only [complete] at h
    simp only [toPartial, fromPartial]
    rw [from_to_partial_list req xs h]
  | .obj c fs, h => by
    simp only [complete, Bool.and_eq_true] at h
    simp only [toPartial, fromPartial]
    rw [from_to_partial_fields req fs h.2]
    simp [h.1]
theorem from_to_partial_list (req : Cls → List String) : (xs : List PVal) → completeL req xs = true →
    fromL req xs = .ok xs
  | [], _ => by simp [fromL]
  | x :: r, h => by
    simp only [completeL, Bool.and_eq_true] at h
    have h1 := from_to_partial_val req x h.1
    simp only [toPartial] at h1
    simp only [fromL]
    rw [h1, from_to_partial_list req r h.2]
theorem from_to_partial_fields (req : Cls → List String) : (fs : Fields) → completeF req fs = true →
    fromF req fs = .ok fs
  | [], _ => by simp [fromF]
  | (k, v) :: r, h => by
    simp only [completeF, Bool.and_eq_true] at h
    have h1 := from_to_partial_val req v h.1
    simp only [toPartial] at h1
    simp only [fromF]
    rw [h1, from_to_partial_fields req r h.2]
end

/-- converting a complete object to its partial and back gives the same object -/
theorem from_to_partial (req : Cls → List String) (o : PVal) (h : complete req o = true) :
    fromPartial req (toPartial o) = .ok o :=
  from_to_partial_val req o h

/-! ## the pinned `v_new or v_old` dropped falsy values -/

/-- with the pinned shortcut the empty partial is *not* a left identity: a provided `0` is lost -/
theorem legacy_or_drops_falsy :
    ∃ x : PVal, x.wf = true ∧ Legacy.mergeWith false (empty ["T"]) x ≠ .ok x ∧
      mergeWith false (empty ["T"]) x = .ok x := by
  refine ⟨.obj ["T"] [("i", .atom (.int 0))], by decide, ?_, by rfl⟩
  have : Legacy.mergeWith false (empty ["T"]) (.obj ["T"] [("i", .atom (.int 0))]) = .ok (.obj ["T"] []) := by
    rfl
  rw [this]
  intro h
  cases h

/-! ## the partial class of a model class is made from that very class -/
/-- every stored partial was made from the class object it is stored under, and from a class of the
program (`S`) -/
def TabInv (t : Factory.Tab) (S : List Factory.ClsObj) : Prop :=
  ∀ u p, Factory.lookup t.partials u = some p → p.src.uid = u ∧ p.src ∈ S

theorem tabInv_empty (S : List Factory.ClsObj) : TabInv {} S := by
  intro u p h
  simp [Factory.lookup] at h

theorem getPartial_inv {t : Factory.Tab} {S : List Factory.ClsObj} (h : TabInv t S)
    {c : Factory.ClsObj} (hc : c ∈ S) : TabInv (Factory.getPartial t c).1 S := by
  unfold Factory.getPartial
  cases hl : Factory.lookup t.partials c.uid with
  | some p => simpa using h
  | none =>
    intro u p hp
    simp only [Factory.lookup] at hp
    split_ifs at hp with hu
    · cases hp
      exact ⟨hu, hc⟩
    · exact h u p hp

theorem run_inv {S : List Factory.ClsObj} : (l : List Factory.ClsObj) → (t : Factory.Tab) → TabInv t S →
    (∀ c ∈ l, c ∈ S) → TabInv (Factory.run t l) S
  | [], t, h, _ => by simpa [Factory.run] using h
  | c :: r, t, h, hs => by
    simp only [Factory.run]
    exact run_inv r _ (getPartial_inv h (hs c (by simp))) (fun d hd => hs d (by simp [hd]))

/-- `get_partial(c).__partial_src__ is c` in every reachable state of the factory: whatever
`get_partial` calls happened before (`TabInv`), for every class object `c` of a program whose class
objects are told apart by their identity — in particular when several of them carry the same name. -/
theorem get_partial_src {t : Factory.Tab} {S : List Factory.ClsObj} (h : TabInv t S)
    (hid : ∀ a ∈ S, ∀ b ∈ S, a.uid = b.uid → a = b) {c : Factory.ClsObj} (hc : c ∈ S) :
    (Factory.getPartial t c).2.src = c := by
  unfold Factory.getPartial
  cases hl : Factory.lookup t.partials c.uid with
  | some p =>
    obtain ⟨h1, h2⟩ := h _ _ hl
    exact hid _ h2 _ hc h1
  | none => rfl

/-- … after any history of `get_partial` calls from the initial (empty) tables -/
theorem get_partial_src_run (hist : List Factory.ClsObj) (c : Factory.ClsObj)
    (hid : ∀ a ∈ c :: hist, ∀ b ∈ c :: hist, a.uid = b.uid → a = b) :
    (Factory.getPartial (Factory.run {} hist) c).2.src = c :=
  get_partial_src (run_inv hist {} (tabInv_empty _) (fun d hd => by simp [hd])) hid (by simp)

/-- a second `get_partial` of the same class object returns the same partial class -/
theorem get_partial_cached (t : Factory.Tab) (c : Factory.ClsObj) :
    (Factory.getPartial (Factory.getPartial t c).1 c).2 = (Factory.getPartial t c).2 := by
  unfold Factory.getPartial
  cases hl : Factory.lookup t.partials c.uid with
  | some p => simp [hl]
  | none => simp [Factory.lookup]

/-- two class objects with one name, the partial of the first created before the second exists:
each gets its own partial -/
example : let a : Factory.ClsObj := ⟨1, "m.Sample"⟩
          let b : Factory.ClsObj := ⟨2, "m.Sample"⟩
          (Factory.getPartial (Factory.run {} [a, b, a]) b).2.src = b ∧
          (Factory.getPartial (Factory.run {} [a, b, a]) a).2.src = a := by decide

/-- The table of forward references, in contrast, is keyed by the *name*: after the partial of a
second class of the same name was created, a nested reference to the first class resolves to the
partial of the second (a container class whose partial is created then gets the wrong field type).
The harness keeps nested references away from names that are defined twice. -/
theorem forwardref_by_name_is_ambiguous :
    ∃ (a b : Factory.ClsObj), a ≠ b ∧
      Factory.resolve (Factory.run {} [a, b]) a.name = some ⟨b⟩ := by
  refine ⟨⟨1, "m.Sample"⟩, ⟨2, "m.Sample"⟩, by decide, by decide⟩

/-! ## non-vacuity -/

def isOk {α : Type} : Except Err α → Bool
  | .ok _ => true
  | .error _ => false

def exA : PVal := .obj ["Top"] [("i", .atom (.int 0)), ("k", .obj ["Par"] [("x", .atom (.int 1))]),
  ("l", .list [.atom (.int 1)])]
def exB : PVal := .obj ["Top"] [("b", .atom (.bool false)), ("k", .obj ["Par", "Chi"] [("y", .atom (.int 2))]),
  ("l", .list [])]
def exC : PVal := .obj ["Top"] [("k", .obj ["Par"] [("x", .atom (.int 5))]), ("s", .atom (.str "")),
  ("st", .set [])]

example : exA.wf = true ∧ exB.wf = true ∧ exC.wf = true := by decide
/-- the hypotheses of `merge_assoc` are satisfiable by a triple with a parent/child class pair
at one nested position and falsy leaves -/
example : ChainAt exA exB exC := by
  simp [ChainAt, Sim, SimF, exA, exB, exC, AL.get, related, sub]
/-- … and on it both sides raise without overwrite (the field `k.x` conflicts) and succeed with it -/
example : isOk (bindE (mergeWith false exA exB) (fun m => mergeWith false m exC)) = false := by decide
example : isOk (bindE (mergeWith true exA exB) (fun m => mergeWith true m exC)) = true := by decide
example : isOk (mergeWith false exA exB) = true := by decide
example : Clash (.atom (.int 1)) (.atom (.int 5)) := trivial
example : complete (fun c => if c = ["Top"] then ["i"] else []) exA = true := by decide

end MetadorModel.C14
