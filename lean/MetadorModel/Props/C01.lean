import MetadorModel.Proofs.OverlayWriteAll
/-!
# C01 — IH5 overlay is transparent

Property theorems about `MetadorModel.Overlay` (model of `ih5/overlay.py`: child scan, path
resolution, write paths) against `MetadorModel.Tree.Spec` (a single plain HDF5-like tree):

* (a) `view_newPatch` — a patch boundary is unobservable;
* (b) `view_snoc`, `view_fold` — reading = applying the patch containers in order;
* (c) `step_refines` — every write (`set / grp / del / sattr / dattr / copy / move`, boundary)
  succeeds or fails exactly as on the single tree and leaves a record that shows the resulting
  tree; `inv_preserved`, `rep_exists`, `init_inv_rep`;
* (d) `run_refines` — all finite histories, boundaries anywhere; corollaries
  `deleted_never_reappears`, `replaced_never_reappears`, `created_never_hidden`;
* (e) `legacy_scan_not_transparent` — the pinned child scan violated (b)/(d).

Helper lemmas live in `Proofs/Overlay*.lean` (read side) and `Proofs/OverlayWrite*.lean`
(write side).

Records are lists of containers **newest first**: `p :: r` is the record `r` with the patch
container `p` added (`r ++ [p]` in file order), `self._files[-1]` is the head.

`viewKind r q` / `viewAttr r q k` are what a user reads at path `q` (group / dataset value,
attribute `k`); all statements are point-wise in `q` and `k`, for every value type `V`.
-/
namespace MetadorModel.C01
open MetadorModel.Tree MetadorModel.Overlay

variable {V : Type}

/-! ## (a) a patch boundary is unobservable -/

/-- `commit_patch(); create_patch()` changes nothing a user can read — for every record,
without any invariant. -/
theorem view_newPatch (r : Rec V) (q : Path) :
    viewKind (newPatch r) q = viewKind r q ∧ ∀ k, viewAttr (newPatch r) q k = viewAttr r q k :=
  view_newPatch' r q

example : viewKind (newPatch (newPatch [[([], vnode), (["a"], ⟨.data 5, [("k", some 1)]⟩)]])) ["a"]
    = some (.data 5) := by decide

/-! ## (b) the overlay is the monoid action of PATCH_THEORY.md -/

/-- **Key lemma.** Reading the record `r` extended by the container `p` is applying the patch
`p` (closed form `applyKind/applyAttr`: below the shallowest non-virtual entry only `p` counts,
pass-through groups keep the older node and overlay attributes) to what `r` shows. -/
theorem view_snoc (p : Cont V) (r : Rec V) (h : Inv (p :: r)) (q : Path) :
    viewKind (p :: r) q = applyKind p (viewKind r) q ∧
    ∀ k, viewAttr (p :: r) q k = applyAttr p (viewAttr r) q k :=
  view_cons p r h.1 h.2.1 q

/-- the tree without containers: just the root group -/
def emptyK : Path → Option (NKind V) := fun q => if q = [] then some .group else none
def emptyA : Path → Key → Option V := fun _ _ => none

/-- hence the view of a record is the fold of its containers over the empty tree, oldest first -/
theorem view_fold (r : Rec V) (h : Inv r) :
    viewKind r = r.foldr applyKind emptyK ∧ viewAttr r = r.foldr applyAttr emptyA := by
  induction r with
  | nil =>
    refine ⟨funext fun q => ?_, funext fun q => funext fun k => ?_⟩
    · cases q with
      | nil => rfl
      | cons a q => simp [viewKind, look, lookFrom, child, scan, emptyK, vnode, RKind.isGroup]
    · cases q with
      | nil => rfl
      | cons a q => simp [viewAttr, look, lookFrom, child, scan, emptyA, vnode, RKind.isGroup]
  | cons p r ih =>
    obtain ⟨ih1, ih2⟩ := ih h.2.2
    refine ⟨funext fun q => ?_, funext fun q => funext fun k => ?_⟩
    · rw [(view_snoc p r h q).1, List.foldr_cons, ih1]
    · rw [(view_snoc p r h q).2 k, List.foldr_cons, ih2]

/-! ## (c) one write on the overlay is the same write on the plain tree

`Rep r t` : the record `r` shows exactly the plain tree `t` — `∀ q, viewKind r q = kindAt t q ∧
∀ k, viewAttr r q k = attrAt t q k`. `Inv r` is the record invariant (every container is a
well-formed HDF5 file; pass-through groups of a patch sit on groups of the older view, or on a
dataset without children, or inside a freshly written subtree). -/

/-- **Refinement step**, for every operation of the alphabet (`set`, `grp`, `del`, `sattr`,
`dattr`, `copy`, `move`, patch boundary) and every path: on a record with the invariant that
shows the tree `t`, the overlay write path succeeds exactly when h5py would accept the call on
the single tree `t`, the resulting record shows the resulting tree, and the invariant holds
again. (`move` into the source's own subtree is refused by both sides.) -/
theorem step_refines (r : Rec V) (t : Tree V) (op : Op V) (hne : r ≠ []) (hinv : Inv r) (hrep : Rep r t) :
    (∀ r', W.step r op = .ok r' → ∃ t', Spec.step t op = .ok t' ∧ Rep r' t' ∧ Inv r' ∧ r' ≠ []) ∧
    (∀ e, W.step r op = .error e → ∃ e', Spec.step t op = .error e') := by
  rcases (step_sim r t op hne hinv hrep).cases with ⟨r1, t1, h1, h2, h3, h4, h5⟩ | ⟨e1, e2, h1, h2⟩
  · refine ⟨fun r' h => ?_, fun e h => ?_⟩
    · rw [h1] at h; cases h; exact ⟨t1, h2, h3, h4, h5⟩
    · rw [h1] at h; cases h
  · refine ⟨fun r' h => ?_, fun e h => ?_⟩
    · rw [h1] at h; cases h
    · exact ⟨e2, h2⟩

/-- the refinement step as a closed statement -/
def step_refines_statement : Prop :=
  ∀ (V : Type) (r : Rec V) (t : Tree V) (op : Op V), r ≠ [] → Inv r → Rep r t →
    (∀ r', W.step r op = .ok r' → ∃ t', Spec.step t op = .ok t' ∧ Rep r' t' ∧ Inv r' ∧ r' ≠ []) ∧
    (∀ e, W.step r op = .error e → ∃ e', Spec.step t op = .error e')

theorem step_refines_statement_holds : step_refines_statement :=
  fun _ r t op hne hinv hrep => step_refines r t op hne hinv hrep

/-- in particular the two sides agree on success -/
theorem step_outcome_agrees (r : Rec V) (t : Tree V) (op : Op V) (hne : r ≠ []) (hinv : Inv r) (hrep : Rep r t) :
    (W.step r op).toBool = (Spec.step t op).toBool := by
  rcases (step_sim r t op hne hinv hrep).cases with ⟨r1, t1, h1, h2, _⟩ | ⟨e1, e2, h1, h2⟩ <;> rw [h1, h2] <;> rfl

/-- the invariant is kept by every successful operation — no plain tree needed -/
theorem inv_preserved (r r' : Rec V) (op : Op V) (hinv : Inv r)
    (h : W.step r op = .ok r') : Inv r' ∧ r' ≠ [] :=
  step_inv r r' op hinv h

/-- every record shows some plain tree (its canonical listing), so `Rep r t` is never an empty
hypothesis -/
theorem rep_exists (r : Rec V) : Rep r (treeOf r) := rep_treeOf r

/-- a fresh record satisfies the invariant and shows the fresh tree -/
theorem init_inv_rep : Inv (Rec.init : Rec V) ∧ Rep (Rec.init : Rec V) (Tree.init : Tree V) :=
  ⟨inv_init, rep_init⟩

/-! ## (d) histories -/

/-- **Refinement of histories.** Running any finite history of `set / grp / del / sattr / dattr /
copy / move` operations with patch boundaries at arbitrary positions on a fresh IH5 record, and
the same history on a fresh plain tree (`Spec.run` skips the boundaries, see
`spec_run_ignores_boundaries`), gives the same list of outcomes (which calls succeeded) and a
final record that shows exactly the final tree. -/
theorem run_refines (h : List (Op V)) :
    (W.run (Rec.init : Rec V) h).2 = (Spec.run (Tree.init : Tree V) h).2 ∧
    Rep (W.run (Rec.init : Rec V) h).1 (Spec.run (Tree.init : Tree V) h).1 ∧
    Inv (W.run (Rec.init : Rec V) h).1 :=
  let ⟨a, b, c, _⟩ := run_sim_all h Rec.init Tree.init (by simp [Rec.init]) inv_init rep_init
  ⟨a, b, c⟩

/-- the same from any record with the invariant -/
theorem run_refines_from (r : Rec V) (t : Tree V) (h : List (Op V))
    (hne : r ≠ []) (hinv : Inv r) (hrep : Rep r t) :
    (W.run r h).2 = (Spec.run t h).2 ∧ Rep (W.run r h).1 (Spec.run t h).1 ∧
    Inv (W.run r h).1 ∧ (W.run r h).1 ≠ [] :=
  run_sim_all h r t hne hinv hrep

/-- everything but a patch boundary -/
def notBoundary : Op V → Bool
  | .patch => false
  | _ => true

/-- patch boundaries are invisible to the plain tree -/
theorem spec_run_ignores_boundaries (t : Tree V) (h : List (Op V)) :
    Spec.run t h = Spec.run t (h.filter notBoundary) := by
  induction h generalizing t with
  | nil => rfl
  | cons op ops ih =>
    by_cases hp : op = .patch
    · subst hp
      rw [srun_patch, ih]
      simp [notBoundary]
    · have hf : (op :: ops).filter notBoundary = op :: ops.filter notBoundary := by
        cases op <;> first | exact absurd rfl hp | rfl
      rw [hf]
      cases hs : Spec.step t op with
      | ok t' => rw [srun_ok t t' op _ hp hs, srun_ok t t' op _ hp hs, ih]
      | error e => rw [srun_err t e op _ hp hs, srun_err t e op _ hp hs, ih]

/-! ### corollaries named in the property

`createsAt p op`: `op` is a `set`/`grp` at or below `p`, or a `copy`/`move` whose destination
lies on the branch of `p`. `removesAbove p op`: `op` deletes or moves away `p` or an ancestor. -/

theorem ne_nil_of_step_ok (r r1 : Rec V) (op : Op V) (h : W.step r op = .ok r1) : r ≠ [] := by
  rintro rfl
  exact ok_ne_err h (step_nil op)

/-- **Deleted data never reappears.** After a successful `del p`, whatever operations (including
`copy`/`move`) and patch boundaries follow — as long as nothing is created, copied or moved to
`p`'s branch again — nothing is visible at or below `p`. -/
theorem deleted_never_reappears (r r1 : Rec V) (p : Path) (h2 : List (Op V)) (hinv : Inv r)
    (hdel : W.step r (.del p) = .ok r1) (hb : ∀ op ∈ h2, createsAt p op = false) :
    ∀ s, viewKind (W.run r1 h2).1 (p ++ s) = none ∧ ∀ k, viewAttr (W.run r1 h2).1 (p ++ s) k = none := by
  have hne := ne_nil_of_step_ok r r1 _ hdel
  obtain ⟨t1, hs, hrep1, hinv1, hne1⟩ := (step_refines r (treeOf r) (.del p) hne hinv (rep_treeOf r)).1 r1 hdel
  have habs : ∀ s, kindAt t1 (p ++ s) = none := by
    intro s
    simp only [Spec.step, Spec.delete] at hs
    split at hs
    · cases hs
    · split at hs
      · cases hs
      · cases hs
        rw [kindAt_removeSub, isPre_append]; rfl
  obtain ⟨_, hrepf, _, _⟩ := run_sim_all h2 r1 t1 hne1 hinv1 hrep1
  have hfin := run_stable (fun t => ∀ s, kindAt t (p ++ s) = none) (fun op => createsAt p op = false)
    (fun r t t' op _ _ hrep hop hst hp => absent_stable_all r t t' op p hrep hop hst hp) h2 r1 t1 hne1 hinv1 hrep1 hb habs
  intro s
  have hk : viewKind (W.run r1 h2).1 (p ++ s) = none := by rw [(hrepf _).1]; exact hfin s
  exact ⟨hk, fun k => viewAttr_none_of_viewKind_none _ _ hk k⟩

/-- what is visible at `p` stays visible with the same kind and value, whatever operations and
patch boundaries follow, as long as neither `p` nor an ancestor is deleted or moved away -/
theorem visible_stays (r : Rec V) (p : Path) (kd : NKind V) (h2 : List (Op V)) (hne : r ≠ []) (hinv : Inv r)
    (hk : viewKind r p = some kd) (hb : ∀ op ∈ h2, removesAbove p op = false) :
    viewKind (W.run r h2).1 p = some kd := by
  obtain ⟨_, hrepf, _, _⟩ := run_sim_all h2 r (treeOf r) hne hinv (rep_treeOf r)
  have hfin := run_stable (fun t => kindAt t p = some kd) (fun op => removesAbove p op = false)
    (fun r t t' op _ _ hrep hop hst hp => kind_stable_all r t t' op p kd hrep hop hst hp) h2 r (treeOf r)
    hne hinv (rep_treeOf r) hb (by rw [← (rep_treeOf r p).1]; exact hk)
  rw [(hrepf _).1]; exact hfin

/-- **Newly created data is never hidden.** After a successful `set p v`, whatever operations and
patch boundaries follow — as long as neither `p` nor an ancestor is deleted or moved away —
`p` shows the dataset `v`. -/
theorem created_never_hidden (r r1 : Rec V) (p : Path) (v : V) (h2 : List (Op V)) (hinv : Inv r)
    (hset : W.step r (.set p v) = .ok r1) (hb : ∀ op ∈ h2, removesAbove p op = false) :
    viewKind (W.run r1 h2).1 p = some (.data v) := by
  have hne := ne_nil_of_step_ok r r1 _ hset
  obtain ⟨t1, hs, hrep1, hinv1, hne1⟩ := (step_refines r (treeOf r) (.set p v) hne hinv (rep_treeOf r)).1 r1 hset
  have hk1 : kindAt t1 p = some (.data v) := by
    obtain ⟨_, rfl⟩ := spec_create_inv _ t1 p _ hs
    rw [kindAt_aput]; simp
  exact visible_stays r1 p _ h2 hne1 hinv1 (by rw [(hrep1 p).1]; exact hk1) hb

/-- the same for a group created with `create_group` -/
theorem created_group_never_hidden (r r1 : Rec V) (p : Path) (h2 : List (Op V)) (hinv : Inv r)
    (hgrp : W.step r (.grp p) = .ok r1) (hb : ∀ op ∈ h2, removesAbove p op = false) :
    viewKind (W.run r1 h2).1 p = some .group := by
  have hne := ne_nil_of_step_ok r r1 _ hgrp
  obtain ⟨t1, hs, hrep1, hinv1, hne1⟩ := (step_refines r (treeOf r) (.grp p) hne hinv (rep_treeOf r)).1 r1 hgrp
  have hk1 : kindAt t1 p = some .group := by
    obtain ⟨_, rfl⟩ := spec_create_inv _ t1 p _ hs
    rw [kindAt_aput]; simp [emptyGroup]
  exact visible_stays r1 p _ h2 hne1 hinv1 (by rw [(hrep1 p).1]; exact hk1) hb

/-- **Replaced data never reappears.** A node at `p` (say a dataset) is deleted and a group is
created in its place; whatever operations and patch boundaries follow (attribute writes on `p`,
new children, copies, …) — as long as neither `p` nor an ancestor is deleted or moved away —
`p` shows the new group, never the replaced node. (This is the situation of defect F1.) -/
theorem replaced_never_reappears (r r1 r2 : Rec V) (p : Path) (h2 : List (Op V)) (hinv : Inv r)
    (hdel : W.step r (.del p) = .ok r1) (hgrp : W.step r1 (.grp p) = .ok r2)
    (hb : ∀ op ∈ h2, removesAbove p op = false) :
    viewKind (W.run r2 h2).1 p = some .group :=
  created_group_never_hidden r1 r2 p h2 (step_inv r r1 _ hinv hdel).1 hgrp hb

/-- … and the same with a dataset written in place of the deleted node -/
theorem replaced_by_dataset_never_reappears (r r1 r2 : Rec V) (p : Path) (v : V) (h2 : List (Op V)) (hinv : Inv r)
    (hdel : W.step r (.del p) = .ok r1) (hset : W.step r1 (.set p v) = .ok r2)
    (hb : ∀ op ∈ h2, removesAbove p op = false) :
    viewKind (W.run r2 h2).1 p = some (.data v) :=
  created_never_hidden r1 r2 p v h2 (step_inv r r1 _ hinv hdel).1 hset hb

/-! ### non-vacuity -/

/-- a history with two patch boundaries that produces every raw kind: datasets, a group with the
SUBST marker, pass-through groups carrying attributes, a deletion marker, an attribute deletion
marker; the last patch "touches" the group that replaced the dataset `/c` of the base container -/
def exHist : List (Op Nat) :=
  [.set ["c"] 5, .grp ["a"], .set ["a", "b"] 1, .sattr ["a"] "k" 7, .patch,
   .del ["c"], .grp ["c"], .sattr ["a"] "j" 8, .dattr ["a"] "k", .del ["a", "b"], .patch,
   .sattr ["c"] "k" 1, .set ["c", "d", "e"] 2]

/-- the three containers it produces (newest first) -/
def ex3 : Rec Nat :=
  [[([], ⟨.vgroup, []⟩), (["c"], ⟨.vgroup, [("k", some 1)]⟩), (["c", "d"], ⟨.sgroup, []⟩),
    (["c", "d", "e"], ⟨.data 2, []⟩)],
   [([], ⟨.vgroup, []⟩), (["c"], ⟨.sgroup, []⟩), (["a"], ⟨.vgroup, [("j", some 8), ("k", none)]⟩),
    (["a", "b"], ⟨.del, []⟩)],
   [([], ⟨.vgroup, []⟩), (["c"], ⟨.data 5, []⟩), (["a"], ⟨.vgroup, [("k", some 7)]⟩),
    (["a", "b"], ⟨.data 1, []⟩)]]

theorem ex3_eq : (W.run Rec.init exHist).1 = ex3 := by decide

/-- a concrete 3-container record containing every raw kind satisfies the invariant … -/
example : Inv ex3 := ex3_eq ▸ (run_refines exHist).2.2

/-- … and shows the tree that the same history builds in a single file -/
example : Rep ex3 (Spec.run Tree.init exHist).1 := ex3_eq ▸ (run_refines exHist).2.1

/-- the hypotheses of `step_refines` are met by `ex3`; e.g. creating `/a/b/x` works on
both sides although `/a/b` was deleted in an older patch -/
example : (W.step ex3 (.grp ["a", "b", "x"])).toBool = true ∧
    (Spec.step (Spec.run Tree.init exHist).1 (.grp ["a", "b", "x"] : Op Nat)).toBool = true := by decide

/-- a 5-operation history with two boundaries evaluates as `run_refines` states -/
example :
    let h : List (Op Nat) := [.set ["c"] 5, .patch, .del ["c"], .grp ["c"], .patch, .sattr ["c"] "k" 1, .set ["c"] 9]
    (W.run Rec.init h).2 = [true, true, true, true, false] ∧
    (Spec.run Tree.init h).2 = [true, true, true, true, false] ∧
    viewKind (W.run Rec.init h).1 ["c"] = some .group ∧
    kindAt (Spec.run Tree.init h).1 ["c"] = some .group ∧
    viewAttr (W.run Rec.init h).1 ["c"] "k" = some 1 := by decide

/-- copy into the source's own subtree and move with a missing destination parent, across patches -/
example :
    let h : List (Op Nat) := [.grp ["a"], .set ["a", "x"] 1, .sattr ["a"] "k" 2, .patch,
      .copy ["a"] ["a", "b", "c"], .patch, .move ["a", "x"] ["n", "y"], .copy ["a"] ["a"]]
    (W.run Rec.init h).2 = [true, true, true, true, true, false] ∧
    (Spec.run Tree.init h).2 = [true, true, true, true, true, false] ∧
    viewKind (W.run Rec.init h).1 ["a", "b", "c", "x"] = some (.data 1) ∧
    viewAttr (W.run Rec.init h).1 ["a", "b", "c"] "k" = some 2 ∧
    viewKind (W.run Rec.init h).1 ["a", "x"] = none ∧
    viewKind (W.run Rec.init h).1 ["n", "y"] = some (.data 1) := by decide

/-- the corollaries apply: after the base dataset `/c` was replaced by a group, touching it in a
later patch does not bring the dataset back -/
example : viewKind (W.run Rec.init exHist).1 ["c"] = some .group := by decide

/-- the hypotheses of the corollaries are satisfiable: base dataset `/c`, a patch boundary, then
`del /c` (and `grp /c`), then a history with another boundary, attribute writes and a copy -/
def exBase : Rec Nat := [[([], ⟨.vgroup, []⟩)], [([], ⟨.vgroup, []⟩), (["c"], ⟨.data 5, []⟩)]]

theorem exBase_inv : Inv exBase :=
  (by decide : (W.run Rec.init [.set ["c"] 5, .patch]).1 = exBase) ▸ (run_refines [.set ["c"] 5, .patch]).2.2

example : ∀ s, viewKind (W.run [[([], ⟨.vgroup, []⟩), (["c"], ⟨.del, []⟩)], [([], ⟨.vgroup, []⟩), (["c"], ⟨.data 5, []⟩)]]
    [.patch, .sattr [] "k" 1, .grp ["a"], .copy ["a"] ["b"]]).1 (["c"] ++ s) = none :=
  fun s => (deleted_never_reappears exBase _ ["c"] _ exBase_inv (by decide) (by decide) s).1

example : viewKind (W.run [[([], ⟨.vgroup, []⟩), (["c"], ⟨.sgroup, []⟩)], [([], ⟨.vgroup, []⟩), (["c"], ⟨.data 5, []⟩)]]
    [.patch, .sattr ["c"] "k" 1, .set ["c", "x"] 2, .copy ["c"] ["b"]]).1 ["c"] = some .group :=
  replaced_never_reappears exBase
    [[([], ⟨.vgroup, []⟩), (["c"], ⟨.del, []⟩)], [([], ⟨.vgroup, []⟩), (["c"], ⟨.data 5, []⟩)]] _ ["c"] _
    exBase_inv (by decide) (by decide) (by decide)

/-! ## (e) the pinned child scan was not transparent (defect F1) -/

/-- With the pinned `_children` (the `is_virtual` flag is never updated) the dataset `/c` of the
base container, replaced by a group in patch 1 and touched by a pass-through group in patch 2,
is visible again — on the very record `ex3` that the fixed scan reads correctly. -/
theorem legacy_scan_not_transparent :
    ∃ (r : Rec Nat) (q : Path), Inv r ∧ Legacy.viewKind r q ≠ viewKind r q :=
  ⟨ex3, ["c"], ex3_eq ▸ (run_refines exHist).2.2, by decide⟩

example : Legacy.viewKind ex3 ["c"] = some (.data 5) ∧ viewKind ex3 ["c"] = some .group := by decide

end MetadorModel.C01
