import MetadorModel.Proofs.OverlayView
/-!
# C01 — IH5 overlay is transparent: patch boundaries are unobservable

Property theorems about `MetadorModel.Overlay` (model of `ih5/overlay.py`: child scan, path
resolution, write paths) against `MetadorModel.Tree.Spec` (a single plain HDF5-like tree).
Helper lemmas live in `Proofs/Overlay*.lean`.

Records are lists of containers **newest first**: `p :: r` is the record `r` with the patch
container `p` added (`r ++ [p]` in file order), `self._files[-1]` is the head.

`viewKind r q` / `viewAttr r q k` are what a user reads at path `q` (group / dataset value,
attribute `k`); all statements are point-wise in `q` and `k`, for every value type `V`.
-/
namespace MetadorModel.C01
open MetadorModel.Tree MetadorModel.Overlay

variable {V : Type}

/-! ## (a) a patch boundary is unobservable -/

/-- `commit_patch(); create_patch()` changes nothing a user can read — for every record,
without any invariant. -/
theorem view_newPatch (r : Rec V) (q : Path) :
    viewKind (newPatch r) q = viewKind r q ∧ ∀ k, viewAttr (newPatch r) q k = viewAttr r q k :=
  view_newPatch' r q

example : viewKind (newPatch (newPatch [[([], vnode), (["a"], ⟨.data 5, [("k", some 1)]⟩)]])) ["a"]
    = some (.data 5) := by decide

/-! ## (b) the overlay is the monoid action of PATCH_THEORY.md -/

/-- **Key lemma.** Reading the record `r` extended by the container `p` is applying the patch
`p` (closed form `applyKind/applyAttr`: below the shallowest non-virtual entry only `p` counts,
pass-through groups keep the older node and overlay attributes) to what `r` shows. -/
theorem view_snoc (p : Cont V) (r : Rec V) (h : Inv (p :: r)) (q : Path) :
    viewKind (p :: r) q = applyKind p (viewKind r) q ∧
    ∀ k, viewAttr (p :: r) q k = applyAttr p (viewAttr r) q k :=
  view_cons p r h.1 h.2.1 q

/-- the tree without containers: just the root group -/
def emptyK : Path → Option (NKind V) := fun q => if q = [] then some .group else none
def emptyA : Path → Key → Option V := fun _ _ => none

/-- hence the view of a record is the fold of its containers over the empty tree, oldest first -/
theorem view_fold (r : Rec V) (h : Inv r) :
    viewKind r = r.foldr applyKind emptyK ∧ viewAttr r = r.foldr applyAttr emptyA := by
  induction r with
  | nil =>
    refine ⟨funext fun q => ?_, funext fun q => funext fun k => ?_⟩
    · cases q with
      | nil => rfl
      | cons a q => simp [viewKind, look, lookFrom, child, scan, emptyK, vnode, RKind.isGroup]
    · cases q with
      | nil => rfl
      | cons a q => simp [viewAttr, look, lookFrom, child, scan, emptyA, vnode, RKind.isGroup]
  | cons p r ih =>
    obtain ⟨ih1, ih2⟩ := ih h.2.2
    refine ⟨funext fun q => ?_, funext fun q => funext fun k => ?_⟩
    · rw [(view_snoc p r h q).1, List.foldr_cons, ih1]
    · rw [(view_snoc p r h q).2 k, List.foldr_cons, ih2]

end MetadorModel.C01
