import MetadorModel.Model.Overlay
/-! # C01 — IH5 overlay is transparent (theorems follow) -/
namespace MetadorModel.C01
end MetadorModel.C01
