import MetadorModel.Proofs.RecordOpen
import MetadorModel.Proofs.RecordKw
import MetadorModel.Proofs.RecordStub
/-!
# C02 — Committed IH5 containers are never modified again

Theorems about `MetadorModel.Record` (file-level model of `IH5Record` / `IH5MFRecord`).
A *history* is any list of API calls (`Op`); `Op.safe` excludes exactly the two calls the
property excludes: opening with the truncating mode `w` and `delete_files`.

* `frame` — a call changes no file outside the write set it reports;
* `writes_only_uncommitted_or_fresh` — under the handle invariant `Inv`, every file a safe
  call creates / removes / rewrites is a fresh container name, an uncommitted container, or
  the manifest sidecar of one of these;
* `committed_step`, `committed_frozen`, `sidecar_frozen` — hence a committed container and
  its sidecar keep their content (user block and payload, i.e. every byte) for ever, by
  induction over arbitrary histories;
* `snapshot_still_valid` — the file set committed at some point still opens (`_open`
  succeeds with the same sorted files, same manifest) and shows the same view later;
* `…_kw` — the same theorems for histories whose calls carry the optional keyword arguments
  (`OpK`: `manifest_file=`, `allow_baseless=` of the constructors, `manifest_exts=` of
  `commit_patch`; `Model/RecordKw.lean`), for every value of the keywords; `kw_default`: with
  the default values a keyworded call is the plain call;
* `…_stub` — the same theorems for histories that also leave `with` blocks (`__exit__`, with or
  without an exception: `exit_is_close`), create stubs from manifests
  (`IH5MFRecord.create_stub`, any target name, any manifest file) and call `merge_files` on
  handles that hold a stub (`OpS`, `Model/RecordStub.lean`); `stub_default`: a history without
  these is a keyworded history.
-/
namespace MetadorModel.C02
open MetadorModel.Record MetadorModel.FindFiles

/-- a committed container, or the manifest sidecar of a committed container -/
def Protected (d : Disk) (f : Name) : Prop :=
  isCommitted d f = true ∨ ∃ g, f = manifestFile g ∧ isCommitted d g = true

/-- **frame**: whatever a call does not list in its write set is untouched (any call, any state). -/
theorem frame (s : State) (op : Op) (g : Name) (hg : g ∉ (step s op).W) :
    getF (step s op).st.disk g = getF s.disk g := step_frame s op g hg

/-- **one step**: every file a safe call touches is fresh, uncommitted, or the sidecar of such. -/
theorem writes_only_uncommitted_or_fresh (s : State) (op : Op) (hi : Inv s) (hsafe : op.safe = true)
    (f : Name) (hf : f ∈ (step s op).W) :
    (getF s.disk f = none ∧ f.getLast? = some '5') ∨
    (∃ ub p, getF s.disk f = some (.cont ub p) ∧ ub.hash = none) ∨
    (∃ g, f = manifestFile g ∧
      ((getF s.disk g = none ∧ g.getLast? = some '5') ∨
       (∃ ub p, getF s.disk g = some (.cont ub p) ∧ ub.hash = none))) :=
  step_touch s op hsafe hi f hf

theorem isCommitted_iff (d : Disk) (f : Name) :
    isCommitted d f = true ↔ ∃ ub p, getF d f = some (.cont ub p) ∧ ub.hash.isSome = true := by
  unfold isCommitted
  cases h : getF d f with
  | none => simp
  | some v => cases v <;> simp

theorem touchable_not_protected {s : State} (hi : Inv s) {f : Name} (ht : Touchable s.disk f) :
    ¬ Protected s.disk f := by
  have hcontLast : ∀ g, isCommitted s.disk g = true → g.getLast? = some '5' := by
    intro g hg
    obtain ⟨ub, p, h, _⟩ := (isCommitted_iff _ _).mp hg
    exact hi.diskOk g ub p h
  have hfresh : ∀ g, FreshCont s.disk g → isCommitted s.disk g = false := by
    intro g hg; simp [isCommitted, hg.1]
  have hunc : ∀ g, UncommittedCont s.disk g → isCommitted s.disk g = false := by
    rintro g ⟨ub, p, h, hn⟩; simp [isCommitted, h, hn]
  rintro (hp | ⟨g, rfl, hp⟩)
  · rcases ht with h | h | ⟨g, rfl, _⟩
    · rw [hfresh f h] at hp; cases hp
    · rw [hunc f h] at hp; cases hp
    · have := hcontLast _ hp
      rw [manifestFile_last] at this; cases this
  · rcases ht with h | ⟨ub, p, h, _⟩ | ⟨g', hg', h⟩
    · have := h.2; rw [manifestFile_last] at this; cases this
    · have := hi.diskOk _ ub p h
      rw [manifestFile_last] at this; cases this
    · have := manifestFile_inj hg'
      subst this
      rcases h with h | h
      · rw [hfresh g h] at hp; cases hp
      · rw [hunc g h] at hp; cases hp

/-- a safe call leaves every committed container and every sidecar of one untouched -/
theorem committed_step (s : State) (op : Op) (hi : Inv s) (hsafe : op.safe = true) (f : Name)
    (hp : Protected s.disk f) : getF (step s op).st.disk f = getF s.disk f := by
  apply step_frame
  intro hf
  exact touchable_not_protected hi (step_touch s op hsafe hi f hf) hp

theorem protected_step (s : State) (op : Op) (hi : Inv s) (hsafe : op.safe = true) (f : Name)
    (hp : Protected s.disk f) : Protected (step s op).st.disk f := by
  rcases hp with hp | ⟨g, rfl, hp⟩
  · left
    unfold isCommitted
    rw [committed_step s op hi hsafe f (Or.inl hp)]
    exact hp
  · right
    refine ⟨g, rfl, ?_⟩
    unfold isCommitted
    rw [committed_step s op hi hsafe g (Or.inl hp)]
    exact hp

/-- the invariant holds along every history of safe calls -/
theorem inv_run (ops : List Op) (s : State) (hi : Inv s) (hsafe : ∀ o ∈ ops, o.safe = true) :
    Inv (run s ops) := by
  induction ops generalizing s with
  | nil => exact hi
  | cons o r ih =>
    simp only [run]
    exact ih _ (step_inv s o (hsafe o (by simp)) hi) (fun o' ho' => hsafe o' (by simp [ho']))

/-- **committed_frozen**: in every history that never uses mode `w` / `delete_files`, a file
that is committed (or is the sidecar of a committed container) at some step has the same
content at every later step. `s` is the state at step `i`, `ops` the calls `i+1 … j`. -/
theorem committed_frozen (ops : List Op) (s : State) (hi : Inv s) (hsafe : ∀ o ∈ ops, o.safe = true)
    (f : Name) (hp : Protected s.disk f) : getF (run s ops).disk f = getF s.disk f := by
  induction ops generalizing s with
  | nil => rfl
  | cons o r ih =>
    simp only [run]
    have ho := hsafe o (by simp)
    rw [ih _ (step_inv s o ho hi) (fun o' ho' => hsafe o' (by simp [ho'])) (protected_step s o hi ho f hp)]
    exact committed_step s o hi ho f hp

/-- the same, spelled with explicit steps `i ≤ j` of one history starting anywhere -/
theorem committed_frozen_between (pre post : List Op) (s0 : State) (hi : Inv s0)
    (hsafe : ∀ o ∈ pre ++ post, o.safe = true) (f : Name) (hp : Protected (run s0 pre).disk f) :
    getF (run s0 (pre ++ post)).disk f = getF (run s0 pre).disk f := by
  have hrun : ∀ (a b : List Op) (s : State), run s (a ++ b) = run (run s a) b := by
    intro a; induction a with
    | nil => intro b s; rfl
    | cons x r ih => intro b s; simp only [List.cons_append, run]; exact ih b _
  rw [hrun]
  exact committed_frozen post _ (inv_run pre s0 hi (fun o ho => hsafe o (by simp [ho])))
    (fun o ho => hsafe o (by simp [ho])) f hp

/-- the manifest sidecar of a committed container is frozen as well -/
theorem sidecar_frozen (ops : List Op) (s : State) (hi : Inv s) (hsafe : ∀ o ∈ ops, o.safe = true)
    (g : Name) (hg : isCommitted s.disk g = true) :
    getF (run s ops).disk (manifestFile g) = getF s.disk (manifestFile g) :=
  committed_frozen ops s hi hsafe _ (Or.inr ⟨g, rfl, hg⟩)

/-- **snapshot_still_valid**: if all files of a list are committed at some step, then at
every later step of a history without `w` / `delete_files`, `_open` on that list gives the
very same result (same sorted containers and user blocks — in particular it succeeds if it
succeeded then), `IH5MFRecord._open` finds the same manifest, and the view is the same. -/
theorem snapshot_still_valid (ops : List Op) (s : State) (hi : Inv s) (hsafe : ∀ o ∈ ops, o.safe = true)
    (fs : List Name) (hc : ∀ f ∈ fs, isCommitted s.disk f = true) (rw : Bool) :
    openFiles (run s ops).disk fs rw = openFiles s.disk fs rw ∧
    ∀ files b, openFiles s.disk fs rw = .ok (files, b) →
      loadManifest (run s ops).disk files = loadManifest s.disk files ∧
      viewFiles (run s ops).disk files = viewFiles s.disk files := by
  have hsame : ∀ f ∈ fs, getF (run s ops).disk f = getF s.disk f :=
    fun f hf => committed_frozen ops s hi hsafe f (Or.inl (hc f hf))
  refine ⟨openFiles_congr _ _ _ _ hsame, ?_⟩
  intro files b hopen
  obtain ⟨_, ⟨ubs, hl, rfl⟩, _⟩ := openFiles_ok hopen
  have hnames : ∀ x ∈ sortByIdx ubs, x.1 ∈ fs := by
    intro x hx
    have hx' : x ∈ ubs := (sortByIdx_perm ubs).mem_iff.mp hx
    rw [← (loadAll_ok s.disk fs ubs hl).1]
    exact List.mem_map_of_mem hx'
  constructor
  · apply loadManifest_congr
    intro x hx
    exact sidecar_frozen ops s hi hsafe x.1 (hc _ (hnames x hx))
  · apply viewFiles_congr
    intro x hx
    exact hsame _ (hnames x hx)


/-! ## Calls with optional keyword arguments (`manifest_file=`, `allow_baseless=`, `manifest_exts=`) -/

/-- with the default values of the keywords the constructor is the plain constructor, and a
history without keywords is a history of the base model -/
theorem kw_default (s : State) (c : Bool) (t : Target) (m : Mode) (ops : List Op) :
    stepK s (.openKw c t m {}) = step s (.openRec c t m) ∧ runK s (ops.map OpK.base) = run s ops :=
  ⟨openRecK_default s c t m, runK_base ops s⟩

/-- **frame** with keywords -/
theorem frame_kw (s : State) (op : OpK) (g : Name) (hg : g ∉ (stepK s op).W) :
    getF (stepK s op).st.disk g = getF s.disk g := stepK_frame s op g hg

/-- **one step** with keywords: whatever values the keywords have (in particular whatever file
`manifest_file=` names), a safe call touches only fresh names, uncommitted containers and their sidecars -/
theorem writes_only_uncommitted_or_fresh_kw (s : State) (op : OpK) (hi : Inv s) (hsafe : op.safe = true)
    (f : Name) (hf : f ∈ (stepK s op).W) :
    (getF s.disk f = none ∧ f.getLast? = some '5') ∨
    (∃ ub p, getF s.disk f = some (.cont ub p) ∧ ub.hash = none) ∨
    (∃ g, f = manifestFile g ∧
      ((getF s.disk g = none ∧ g.getLast? = some '5') ∨
       (∃ ub p, getF s.disk g = some (.cont ub p) ∧ ub.hash = none))) :=
  stepK_touch s op hsafe hi f hf

theorem committed_step_kw (s : State) (op : OpK) (hi : Inv s) (hsafe : op.safe = true) (f : Name)
    (hp : Protected s.disk f) : getF (stepK s op).st.disk f = getF s.disk f := by
  apply stepK_frame
  intro hf
  exact touchable_not_protected hi (stepK_touch s op hsafe hi f hf) hp

theorem protected_step_kw (s : State) (op : OpK) (hi : Inv s) (hsafe : op.safe = true) (f : Name)
    (hp : Protected s.disk f) : Protected (stepK s op).st.disk f := by
  rcases hp with hp | ⟨g, rfl, hp⟩
  · left
    unfold isCommitted
    rw [committed_step_kw s op hi hsafe f (Or.inl hp)]
    exact hp
  · right
    refine ⟨g, rfl, ?_⟩
    unfold isCommitted
    rw [committed_step_kw s op hi hsafe g (Or.inl hp)]
    exact hp

theorem inv_run_kw (ops : List OpK) (s : State) (hi : Inv s) (hsafe : ∀ o ∈ ops, o.safe = true) :
    Inv (runK s ops) := by
  induction ops generalizing s with
  | nil => exact hi
  | cons o r ih =>
    simp only [runK]
    exact ih _ (stepK_inv s o (hsafe o (by simp)) hi) (fun o' ho' => hsafe o' (by simp [ho']))

/-- **committed_frozen** for histories with keyword arguments -/
theorem committed_frozen_kw (ops : List OpK) (s : State) (hi : Inv s) (hsafe : ∀ o ∈ ops, o.safe = true)
    (f : Name) (hp : Protected s.disk f) : getF (runK s ops).disk f = getF s.disk f := by
  induction ops generalizing s with
  | nil => rfl
  | cons o r ih =>
    simp only [runK]
    have ho := hsafe o (by simp)
    rw [ih _ (stepK_inv s o ho hi) (fun o' ho' => hsafe o' (by simp [ho'])) (protected_step_kw s o hi ho f hp)]
    exact committed_step_kw s o hi ho f hp

theorem sidecar_frozen_kw (ops : List OpK) (s : State) (hi : Inv s) (hsafe : ∀ o ∈ ops, o.safe = true)
    (g : Name) (hg : isCommitted s.disk g = true) :
    getF (runK s ops).disk (manifestFile g) = getF s.disk (manifestFile g) :=
  committed_frozen_kw ops s hi hsafe _ (Or.inr ⟨g, rfl, hg⟩)

/-- **snapshot_still_valid** with keywords: a committed file list opens later exactly as it did
(with or without `allow_baseless`), and `IH5MFRecord._open` finds the same manifest — also when it
is told by `manifest_file=` to look at the sidecar of one of the committed containers. -/
theorem snapshot_still_valid_kw (ops : List OpK) (s : State) (hi : Inv s) (hsafe : ∀ o ∈ ops, o.safe = true)
    (fs : List Name) (hc : ∀ f ∈ fs, isCommitted s.disk f = true) (rw bl : Bool)
    (mf : Option Name) (hmf : ∀ g, mf = some g → Protected s.disk g) :
    openFilesK (runK s ops).disk fs rw bl = openFilesK s.disk fs rw bl ∧
    ∀ files b, openFilesK s.disk fs rw bl = .ok (files, b) →
      loadManifestK (runK s ops).disk files mf = loadManifestK s.disk files mf ∧
      viewFiles (runK s ops).disk files = viewFiles s.disk files := by
  have hsame : ∀ f ∈ fs, getF (runK s ops).disk f = getF s.disk f :=
    fun f hf => committed_frozen_kw ops s hi hsafe f (Or.inl (hc f hf))
  refine ⟨openFilesK_congr _ _ _ _ _ hsame, ?_⟩
  intro files b hopen
  obtain ⟨_, ⟨ubs, hl, rfl⟩, _⟩ := openFilesK_ok hopen
  have hnames : ∀ x ∈ sortByIdx ubs, x.1 ∈ fs := by
    intro x hx
    have hx' : x ∈ ubs := (sortByIdx_perm ubs).mem_iff.mp hx
    rw [← (loadAll_ok s.disk fs ubs hl).1]
    exact List.mem_map_of_mem hx'
  constructor
  · apply loadManifestK_congr
    · intro x hx
      exact sidecar_frozen_kw ops s hi hsafe x.1 (hc _ (hnames x hx))
    · intro g hg
      exact committed_frozen_kw ops s hi hsafe g (hmf g hg)
  · apply viewFiles_congr
    intro x hx
    exact hsame _ (hnames x hx)

/-! ## `with` blocks and the stub life cycle (`__exit__`, `create_stub`, merge refused on stubs) -/

/-- leaving a `with` block, normally or by an exception, is `close(commit=True)`; a history
without exits and stubs is a keyworded history -/
theorem exit_is_close (t : StS) (e : Bool) : stepS t (.exit e) = step t.s (.close true) :=
  stepS_exit t e

theorem stub_default (ops : List OpK) (s : State) :
    (runS { s := s } (ops.map OpS.kw)).s = runK s ops := (runS_kw ops s).1

/-- **frame** with exits and stubs -/
theorem frame_stub (t : StS) (op : OpS) (g : Name) (hg : g ∉ (stepS t op).W) :
    getF (stepS t op).st.disk g = getF t.s.disk g := stepS_frame t op g hg

/-- **one step**: `create_stub` (whatever name and manifest file it is given) and `__exit__`
(whatever left the block) touch only fresh names, uncommitted containers and their sidecars -/
theorem writes_only_uncommitted_or_fresh_stub (t : StS) (op : OpS) (hi : Inv t.s) (hsafe : op.safe = true)
    (f : Name) (hf : f ∈ (stepS t op).W) :
    (getF t.s.disk f = none ∧ f.getLast? = some '5') ∨
    (∃ ub p, getF t.s.disk f = some (.cont ub p) ∧ ub.hash = none) ∨
    (∃ g, f = manifestFile g ∧
      ((getF t.s.disk g = none ∧ g.getLast? = some '5') ∨
       (∃ ub p, getF t.s.disk g = some (.cont ub p) ∧ ub.hash = none))) :=
  stepS_touch t op hsafe hi f hf

theorem committed_step_stub (t : StS) (op : OpS) (hi : Inv t.s) (hsafe : op.safe = true) (f : Name)
    (hp : Protected t.s.disk f) : getF (afterS t op).s.disk f = getF t.s.disk f := by
  rw [afterS_s]
  apply stepS_frame
  intro hf
  exact touchable_not_protected hi (stepS_touch t op hsafe hi f hf) hp

theorem protected_step_stub (t : StS) (op : OpS) (hi : Inv t.s) (hsafe : op.safe = true) (f : Name)
    (hp : Protected t.s.disk f) : Protected (afterS t op).s.disk f := by
  rcases hp with hp | ⟨g, rfl, hp⟩
  · left
    unfold isCommitted
    rw [committed_step_stub t op hi hsafe f (Or.inl hp)]
    exact hp
  · right
    refine ⟨g, rfl, ?_⟩
    unfold isCommitted
    rw [committed_step_stub t op hi hsafe g (Or.inl hp)]
    exact hp

theorem inv_run_stub (ops : List OpS) (t : StS) (hi : Inv t.s) (hsafe : ∀ o ∈ ops, o.safe = true) :
    Inv (runS t ops).s := by
  induction ops generalizing t with
  | nil => exact hi
  | cons o r ih =>
    simp only [runS]
    exact ih _ (by rw [afterS_s]; exact stepS_inv t o (hsafe o (by simp)) hi) (fun o' ho' => hsafe o' (by simp [ho']))

/-- **committed_frozen** for histories with `with` blocks left by exceptions and stub life cycles -/
theorem committed_frozen_stub (ops : List OpS) (t : StS) (hi : Inv t.s) (hsafe : ∀ o ∈ ops, o.safe = true)
    (f : Name) (hp : Protected t.s.disk f) : getF (runS t ops).s.disk f = getF t.s.disk f := by
  induction ops generalizing t with
  | nil => rfl
  | cons o r ih =>
    simp only [runS]
    have ho := hsafe o (by simp)
    rw [ih _ (by rw [afterS_s]; exact stepS_inv t o ho hi) (fun o' ho' => hsafe o' (by simp [ho']))
      (protected_step_stub t o hi ho f hp)]
    exact committed_step_stub t o hi ho f hp

theorem sidecar_frozen_stub (ops : List OpS) (t : StS) (hi : Inv t.s) (hsafe : ∀ o ∈ ops, o.safe = true)
    (g : Name) (hg : isCommitted t.s.disk g = true) :
    getF (runS t ops).s.disk (manifestFile g) = getF t.s.disk (manifestFile g) :=
  committed_frozen_stub ops t hi hsafe _ (Or.inr ⟨g, rfl, hg⟩)

/-- **snapshot_still_valid**: a committed file list (a stub and the patches on it included) opens
later exactly as it did -/
theorem snapshot_still_valid_stub (ops : List OpS) (t : StS) (hi : Inv t.s) (hsafe : ∀ o ∈ ops, o.safe = true)
    (fs : List Name) (hc : ∀ f ∈ fs, isCommitted t.s.disk f = true) (rw bl : Bool) :
    openFilesK (runS t ops).s.disk fs rw bl = openFilesK t.s.disk fs rw bl ∧
    ∀ files b, openFilesK t.s.disk fs rw bl = .ok (files, b) →
      loadManifestK (runS t ops).s.disk files none = loadManifestK t.s.disk files none ∧
      viewFiles (runS t ops).s.disk files = viewFiles t.s.disk files := by
  have hsame : ∀ f ∈ fs, getF (runS t ops).s.disk f = getF t.s.disk f :=
    fun f hf => committed_frozen_stub ops t hi hsafe f (Or.inl (hc f hf))
  refine ⟨openFilesK_congr _ _ _ _ _ hsame, ?_⟩
  intro files b hopen
  obtain ⟨_, ⟨ubs, hl, rfl⟩, _⟩ := openFilesK_ok hopen
  have hnames : ∀ x ∈ sortByIdx ubs, x.1 ∈ fs := by
    intro x hx
    have hx' : x ∈ ubs := (sortByIdx_perm ubs).mem_iff.mp hx
    rw [← (loadAll_ok t.s.disk fs ubs hl).1]
    exact List.mem_map_of_mem hx'
  constructor
  · apply loadManifestK_congr
    · intro x hx
      exact sidecar_frozen_stub ops t hi hsafe x.1 (hc _ (hnames x hx))
    · intro g hg
      cases hg
  · apply viewFiles_congr
    intro x hx
    exact hsame _ (hnames x hx)

/-! ## Non-vacuity: concrete histories meet the hypotheses -/

/-- `foo` -/
def foo : Name := ['f', 'o', 'o']
/-- `bar` -/
def bar : Name := ['b', 'a', 'r']

/-- create `foo` (manifest class), write, commit, new patch, write, commit -/
def hist1 : List Op :=
  [.openRec true (.name foo) .x, .write 1, .commitPatch, .createPatch, .write 2, .commitPatch]

/-- later calls: write refused, new patch, write, discard, merge, close, reopen `r+`, write, close -/
def hist2 : List Op :=
  [.write 3, .createPatch, .write 4, .discardPatch, .merge bar, .close true,
   .openRec false (.name foo) .rp, .write 5, .close true]

theorem inv_init : Inv {} :=
  ⟨by intro f ub p h; simp [getF] at h, by intro h; simp [hasWritable] at h⟩

example : ∀ o ∈ hist1 ++ hist2, o.safe = true := by decide

/-- after `hist1` both containers and both sidecars exist and are committed … -/
example : isCommitted (run {} hist1).disk (baseFile foo) = true ∧
    isCommitted (run {} hist1).disk (patchFile foo 1) = true ∧
    (getF (run {} hist1).disk (manifestFile (patchFile foo 1))).isSome = true := by decide

/-- … the later history does create, rewrite and remove files (it is not a no-op) … -/
example : names (run {} (hist1 ++ hist2)).disk ≠ names (run {} hist1).disk := by decide

/-- … and the committed base is bit-identical afterwards (instance of `committed_frozen_between`). -/
example : getF (run {} (hist1 ++ hist2)).disk (baseFile foo) = getF (run {} hist1).disk (baseFile foo) :=
  committed_frozen_between hist1 hist2 {} inv_init (by decide) _ (Or.inl (by decide))

/-- the snapshot `[foo.p1.ih5, foo.ih5]` (any order) opens after `hist1` … -/
example : (match openFiles (run {} hist1).disk [patchFile foo 1, baseFile foo] false with
    | .ok (files, _) => viewFiles (run {} hist1).disk files == [1, 2]
    | .error _ => false) = true := by decide

/-! ### keyword arguments -/

/-- after `hist1`: close, reopen for patching while naming the sidecar of the newest committed
container explicitly, write, commit, close; then open the patches without the base
(`allow_baseless`), read only -/
def hist3 : List OpK :=
  [.base (.close true),
   .openKw true (.name foo) .rp { mfile := some (manifestFile (patchFile foo 1)) },
   .base (.write 3), .commitExts, .base (.close true),
   .openKw true (.list [patchFile foo 2, patchFile foo 1]) .r { baseless := true }]

example : ∀ o ∈ hist1.map OpK.base ++ hist3, o.safe = true := by decide

/-- the keyworded history commits a third container with its own new sidecar … -/
example : isCommitted (runK {} (hist1.map OpK.base ++ hist3)).disk (patchFile foo 2) = true ∧
    (getF (runK {} (hist1.map OpK.base ++ hist3)).disk (manifestFile (patchFile foo 2))).isSome = true ∧
    (getF (runK {} (hist1.map OpK.base)).disk (manifestFile (patchFile foo 2))).isSome = false := by decide

/-- … the sidecar that was named by `manifest_file=` is bit-identical afterwards … -/
example : getF (runK (runK {} (hist1.map OpK.base)) hist3).disk (manifestFile (patchFile foo 1)) =
    getF (runK {} (hist1.map OpK.base)).disk (manifestFile (patchFile foo 1)) :=
  sidecar_frozen_kw hist3 _ (inv_run_kw _ _ inv_init (by decide)) (by decide) _ (by decide)

/-- … the baseless open at the end succeeded and shows the two patches only; without the
keyword the same list is refused; a `manifest_file=` naming an older sidecar is refused. -/
example : view (runK {} (hist1.map OpK.base ++ hist3)) = [2, 3] ∧
    (stepK (runK {} (hist1.map OpK.base ++ [.base (.close true)]))
      (.openKw true (.list [patchFile foo 1]) .r {})).out = .valueError ∧
    (stepK (runK {} (hist1.map OpK.base ++ [.base (.close true)]))
      (.openKw true (.name foo) .rp { mfile := some (manifestFile (baseFile foo)) })).out = .valueError := by decide

/-! ### `with` blocks left by exceptions, stubs -/

/-- `st` -/
def st : Name := ['s', 't']

/-- after `hist1`: leave the block by an exception; a stub `st` from the newest manifest of `foo`;
a patch with data committed on it inside a block that is then left by an exception; the source
gets a new patch; `create_stub` again at `st` (from the newer manifest) and at `foo` -/
def hist4 : List OpS :=
  [.exit true, .createStub st (manifestFile (patchFile foo 1)),
   .kw (.base .createPatch), .kw (.base (.write 7)), .kw (.base .commitPatch), .exit true,
   .kw (.base (.openRec true (.name foo) .rp)), .kw (.base (.write 8)), .exit false,
   .createStub st (manifestFile (patchFile foo 2)), .createStub foo (manifestFile (patchFile foo 2))]

def afterHist1 : StS := { s := run {} hist1 }

example : ∀ o ∈ hist4, o.safe = true := by decide

/-- the stub stands for `foo.p1` (patch index 1, all ids visible), the patch on it is committed
(`st.p2.ih5` with its sidecar), both later `create_stub` calls are refused … -/
example : isCommitted (runS afterHist1 hist4).s.disk (baseFile st) = true ∧
    isCommitted (runS afterHist1 hist4).s.disk (patchFile st 2) = true ∧
    (getF (runS afterHist1 hist4).s.disk (manifestFile (patchFile st 2))).isSome = true ∧
    payloadOf (runS afterHist1 hist4).s.disk (baseFile st) = some [1, 2] ∧
    (stepS (runS afterHist1 (hist4.take 9)) (.createStub st (manifestFile (patchFile foo 2)))).out = .fileExists ∧
    (stepS (runS afterHist1 (hist4.take 10)) (.createStub foo (manifestFile (patchFile foo 2)))).out = .fileExists ∧
    (stepS (runS afterHist1 (hist4.take 5)) (.kw (.base (.merge bar)))).out = .valueError := by decide

/-- … and the stub base, committed after four calls of `hist4`, is bit-identical at the end
(instance of `committed_frozen_stub`), as is the sidecar of the patch committed on it -/
example : getF (runS (runS afterHist1 (hist4.take 2)) (hist4.drop 2)).s.disk (baseFile st) =
    getF (runS afterHist1 (hist4.take 2)).s.disk (baseFile st) :=
  committed_frozen_stub _ _ (inv_run_stub _ _ (inv_run _ _ inv_init (by decide)) (by decide)) (by decide) _
    (Or.inl (by decide))

example : getF (runS (runS afterHist1 (hist4.take 5)) (hist4.drop 5)).s.disk (manifestFile (patchFile st 2)) =
    getF (runS afterHist1 (hist4.take 5)).s.disk (manifestFile (patchFile st 2)) :=
  sidecar_frozen_stub _ _ (inv_run_stub _ _ (inv_run _ _ inv_init (by decide)) (by decide)) (by decide) _ (by decide)

/-- the hypothesis `safe` is needed: mode `w` does rewrite a committed base (allowed by the
property; shows that the frozen-ness theorems do not hold vacuously for all calls). -/
theorem unsafe_w_can_modify :
    ∃ s : State, Inv s ∧ isCommitted s.disk (baseFile foo) = true ∧
      getF (step s (.openRec false (.name foo) .w)).st.disk (baseFile foo) ≠ getF s.disk (baseFile foo) :=
  ⟨run {} (hist1 ++ [.close true]), inv_run _ _ inv_init (by decide), by decide, by decide⟩

end MetadorModel.C02
