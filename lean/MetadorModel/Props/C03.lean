import MetadorModel.Proofs.RecordGood
import MetadorModel.Proofs.CrashTornBase
/-!
# C03 — Closing and reopening a record reproduces exactly the same view; open-mode contract

Theorems about `MetadorModel.Record` (`IH5Record.__init__` mode dispatch, `_open`, `_create`,
`create_patch`, `discard_patch`, `close`) and `MetadorModel.FindFiles` (`find_files`).
Helper lemmas: `Proofs/RecordSpec`, `RecordModes`, `RecordChain`, `RecordReopen`, `FindFiles`.
The user-block codec (`IH5UserBlock._read_head_raw`, `load`, `save`; model `Model/UBlock`, framing
lemmas `Proofs/CrashTornBase`) is covered at the level of the embedded text: `ub_text_roundtrip`.

Vocabulary
* `Resolves d t paths` — the first constructor argument `t` (a record name resolved by
  `find_files`, or an explicit list) yields the non-empty file list `paths`;
* `Coherent d files` — `files` (names with the user blocks found on disk, in patch order)
  passes every check of `_open`; `openFiles_sound` / `openFiles_of_coherent` show that this is
  exactly what `_open` accepts, for *any permutation* of the names;
* `Good s` — the handle of `s` is open on a coherent chain (established by every successful
  open, see `good_of_open`), `Inv` of C02 holds, the newest manifest link is intact;
* the five on-disk situations of the property are instances: *absent* `findFiles … = some []`;
  *uncommitted base / uncommitted patch* `openFiles … = ok (files, true)` (newest container
  without checksum); *committed base / patched* `openFiles … = ok (files, false)`.
-/
namespace MetadorModel.C03
open MetadorModel.Record MetadorModel.FindFiles

/-! ## open modes -/

/-- **'r' is strictly read-only**, for every disk, target and class: no file changes, the
write set is empty; on success the handle has no writable container and patching is off. -/
theorem open_r_pure (s : State) (c : Bool) (t : Target) :
    (openRec s c t .r).st.disk = s.disk ∧ (openRec s c t .r).W = [] ∧
    ((openRec s c t .r).out = .ok →
      hasWritable (openRec s c t .r).st.h = false ∧ (openRec s c t .r).st.h.allow = false ∧
      (openRec s c t .r).st.h.closed = false) := Record.open_r_pure s c t

/-- … and on such a handle `create_patch`, `commit_patch` (both classes), `discard_patch` and
every write are refused with `ValueError` and change nothing. -/
theorem open_r_refuses_patching (s : State) (hcl : s.h.closed = false) (ha : s.h.allow = false)
    (hw : hasWritable s.h = false) (hne : s.h.files ≠ []) (k : Nat) :
    createPatch s = fail s .valueError ∧ commitPlain s = fail s .valueError ∧
    discardPatch s = fail s .valueError ∧ write s k = fail s .valueError ∧
    (s.h.mfcls = true → (commitMF s).out = .valueError ∧ (commitMF s).st.disk = s.disk ∧ (commitMF s).W = []) :=
  Record.open_r_refuses_patching s hcl ha hw hne k

/-- **`r+` / `a` continue an uncommitted container** (situations *uncommitted base*,
*uncommitted patch*): reopened writable, no file created or removed. -/
theorem open_rplus_continues (s : State) (c : Bool) (t : Target) (m : Mode) (paths : List Name)
    (files : List (Name × UB)) (man : Option (Nat × Nat))
    (hcl : s.h.closed = true) (hres : Resolves s.disk t paths) (hm : m = .rp ∨ m = .a)
    (hopen : openFiles s.disk paths true = .ok (files, true))
    (hman : (if c then loadManifest s.disk files else .ok none) = .ok man) :
    ∃ f ul, lastFile files = some (f, ul) ∧ ul.hash = none ∧
      openRec s c t m =
        { st := { s with h := openedHandle files true c m man }, out := .ok, written := [f] } ∧
      hasWritable (openedHandle files true c m man) = true :=
  Record.open_rplus_continues s c t m paths files man hcl hres hm hopen hman

/-- **`r+` / `a` otherwise start exactly one new patch** (situations *committed base*,
*patched*): the container `<name>.p<idx+1>.ih5` is created with mode `x`; if that name is
taken the call is refused and nothing changes. -/
theorem open_rplus_new_patch (s : State) (c : Bool) (t : Target) (m : Mode) (paths : List Name)
    (files : List (Name × UB)) (man : Option (Nat × Nat))
    (hcl : s.h.closed = true) (hres : Resolves s.disk t paths) (hm : m = .rp ∨ m = .a)
    (hopen : openFiles s.disk paths true = .ok (files, false))
    (hman : (if c then loadManifest s.disk files else .ok none) = .ok man) :
    ∃ f0 u0 rest fl ul, files = (f0, u0) :: rest ∧ lastFile files = some (fl, ul) ∧ ul.hash.isSome = true ∧
      ((getF s.disk (patchFile (inferName f0) (ul.idx + 1)) = none ∧
        (files.map Prod.fst).contains (patchFile (inferName f0) (ul.idx + 1)) = false ∧
        openRec s c t m =
          { st := { disk := setF s.disk (patchFile (inferName f0) (ul.idx + 1)) (.cont (newPatchUB ul s.next) []),
                    next := s.next + 1,
                    h := { openedHandle files false c m man with
                           files := files ++ [(patchFile (inferName f0) (ul.idx + 1), newPatchUB ul s.next)],
                           lastRW := true } },
            out := .ok, created := [patchFile (inferName f0) (ul.idx + 1)] }) ∨
       (Failed s (openRec s c t m) ∧
         ((getF s.disk (patchFile (inferName f0) (ul.idx + 1))).isSome = true ∨
          (files.map Prod.fst).contains (patchFile (inferName f0) (ul.idx + 1)) = true))) :=
  Record.open_rplus_new_patch s c t m paths files man hcl hres hm hopen hman

/-- **`a` creates when absent** (so do `w`, `w-`, `x`): exactly `<n>.ih5` appears — empty,
uncommitted, writable —, every other file is untouched. -/
theorem open_a_creates_when_absent (s : State) (c : Bool) (n : Name) (m : Mode)
    (hm : m = .a ∨ m = .w ∨ m = .wm ∨ m = .x)
    (hcl : s.h.closed = true) (habs : findFiles (names s.disk) n = some []) :
    openRec s c (.name n) m = created s c n ∧
    hasWritable (created s c n).st.h = true ∧ view (created s c n).st = [] ∧
    (∀ g, g ≠ baseFile n → getF (created s c n).st.disk g = getF s.disk g) :=
  Record.open_a_creates_when_absent s c n m hm hcl habs

/-- **`w` replaces the whole record — and only that record** (every situation): the base
container is fresh and empty, every other file belonging to the name is gone, every file
that does not belong to the name is untouched. -/
theorem open_w_replaces (s : State) (c : Bool) (n : Name) (hcl : s.h.closed = true)
    (hv : isValidName n = true) :
    (openRec s c (.name n) .w).out = .ok ∧
    (openRec s c (.name n) .w).st.h = freshHandle c n s.next ∧
    getF (openRec s c (.name n) .w).st.disk (baseFile n) = some (.cont (newBaseUB s.next) []) ∧
    view (openRec s c (.name n) .w).st = [] ∧
    (∀ g, belongs n g = false → getF (openRec s c (.name n) .w).st.disk g = getF s.disk g) ∧
    ((getF s.disk (baseFile n)).isSome = true →
      ∀ g, belongs n g = true → g ≠ baseFile n → getF (openRec s c (.name n) .w).st.disk g = none) ∧
    (∀ g ∈ (openRec s c (.name n) .w).removed, belongs n g = true) :=
  Record.open_w_replaces s c n hcl hv

/-- **`x` / `w-` refuse to touch an existing record**: `FileExistsError`, state unchanged. -/
theorem open_x_refuses_existing (s : State) (c : Bool) (n : Name) (m : Mode) (hm : m = .x ∨ m = .wm)
    (hcl : s.h.closed = true) (hv : isValidName n = true) (hex : (getF s.disk (baseFile n)).isSome = true) :
    openRec s c (.name n) m = fail s .fileExists :=
  Record.open_x_refuses_existing s c n m hm hcl hv hex

theorem open_x_creates_when_absent (s : State) (c : Bool) (n : Name) (m : Mode) (hm : m = .x ∨ m = .wm)
    (hcl : s.h.closed = true) (habs : findFiles (names s.disk) n = some []) :
    openRec s c (.name n) m = created s c n :=
  Record.open_x_creates_when_absent s c n m hm hcl habs

/-- **`r` / `r+` on a missing record**: `FileNotFoundError`, state unchanged. -/
theorem open_missing_r_fails (s : State) (c : Bool) (n : Name) (m : Mode) (hm : m = .r ∨ m = .rp)
    (hcl : s.h.closed = true) (habs : findFiles (names s.disk) n = some []) :
    openRec s c (.name n) m = fail s .fileNotFound :=
  Record.open_missing_r_fails s c n m hm hcl habs

/-! ## close and reopen -/

/-- files are sorted by patch index irrespective of the argument order -/
theorem sortByIdx_perm_invariant (l l' : List (Name × UB)) (hp : l.Perm l')
    (hs : (sortByIdx l').Pairwise IdxLt) : sortByIdx l = sortByIdx l' :=
  Record.sortByIdx_perm_invariant l l' hp hs

/-- `_open` accepts exactly the coherent chains, given in any order -/
theorem open_accepts_any_order {d : Disk} {files : List (Name × UB)} (hc : Coherent d files)
    (paths : List Name) (hp : paths.Perm (files.map Prod.fst)) (rw : Bool) :
    ∃ fl ul, lastFile files = some (fl, ul) ∧ openFiles d paths rw = .ok (files, rw && ul.hash.isNone) :=
  openFiles_of_coherent hc paths hp rw

/-- every successful `_open` puts the handle on a coherent chain -/
theorem open_yields_coherent {d : Disk} {paths : List Name} {rw : Bool} {files : List (Name × UB)} {b : Bool}
    (h : openFiles d paths rw = .ok (files, b)) : Coherent d files := openFiles_sound h

/-- **reopen_same_view**: from any state whose handle is open on a coherent chain, after
`close()` (committing or not), reopening — by any class — in mode `r`, `r+` or `a`, either by
an explicit file list in *any permutation* or by the record name (when `find_files` returns
the record's files), succeeds and shows exactly the same view. For `r+`/`a` the name of the
next patch container must be free (mode `x`; `NextPatchFree`). -/
theorem reopen_same_view (s : State) (hg : Good s) (c cls : Bool) (t : Target) (m : Mode)
    (hm : m = .r ∨ m = .rp ∨ m = .a)
    (ht : (∃ paths, t = .list paths ∧ paths.Perm (fileNames s.h)) ∨
          (∃ n paths, t = .name n ∧ findFiles (names s.disk) n = some paths ∧ paths.Perm (fileNames s.h)))
    (hmf : cls = true → ManifestOk s.disk s.h.files)
    (hfresh : m ≠ .r → NextPatchFree s) :
    (close s c).out = .ok ∧ (openRec (close s c).st cls t m).out = .ok ∧
    view (openRec (close s c).st cls t m).st = view s := by
  obtain ⟨hok, files', hcl⟩ := close_good s hg c
  have hne : fileNames s.h ≠ [] := by
    obtain ⟨f0, u0, rest, hf, _⟩ := hg.coh.checks
    simp [fileNames, hf]
  have key : ∀ paths, paths.Perm (fileNames s.h) → Resolves (close s c).st.disk t paths →
      (openRec (close s c).st cls t m).out = .ok ∧ view (openRec (close s c).st cls t m).st = view s := by
    intro paths hperm hres
    have := reopen_closed s _ files' hcl cls t m paths hres (by rw [hcl.sameNames]; exact hperm) hm hmf hfresh
    exact ⟨this.1, by rw [this.2, hcl.sameView]⟩
  have hnonempty : ∀ paths : List Name, paths.Perm (fileNames s.h) → paths ≠ [] := by
    intro paths hp h
    rw [h] at hp
    exact hne (List.Perm.nil_eq hp).symm
  rcases ht with ⟨paths, rfl, hperm⟩ | ⟨n, paths, rfl, hfind, hperm⟩
  · exact ⟨hok, key paths hperm ⟨rfl, hnonempty paths hperm⟩⟩
  · refine ⟨hok, key paths hperm ⟨?_, hnonempty paths hperm⟩⟩
    unfold findFiles at hfind ⊢
    split at hfind
    · rename_i hv
      simp only [hv, if_true]
      rw [hcl.found n]
      exact hfind
    · cases hfind

/-- **the handle is on a coherent chain along every history** of calls without `w` /
`delete_files` (invariant `Good0`: C02's `Inv`, uuids drawn from the counter, coherent chain
under an open handle, writable ⇒ patching allowed, patching allowed and nothing writable ⇒
newest container committed). -/
theorem coherent_along_histories (ops : List Op) (s : State) (hg : Good0 s)
    (hsafe : ∀ o ∈ ops, o.safe = true) : Good0 (run s ops) := good0_run ops s hg hsafe

theorem good_of_good0 {s : State} (hg : Good0 s) (hopen : s.h.closed = false) : Good s :=
  ⟨hopen, hg.coh hopen, hg.inv, hg.rwAllow⟩

/-- the manifest link of the newest container is trivially intact when it has no manifest
extension (records written by the plain class; any uncommitted container) -/
theorem manifestOk_of_no_ext {d : Disk} {files : List (Name × UB)}
    (h : ∀ f ub, lastFile files = some (f, ub) → ub.ext = none) : ManifestOk d files := by
  intro f ub u b hl he
  rw [h f ub hl] at he; cases he

/-- **reopen_same_view along histories**: start from the empty directory (or any state
satisfying `Good0`), run *any* history of calls without `w` / `delete_files`; if the handle
is open at the end, then `close()` followed by reopening in `r`, `r+` or `a`, by any
permutation of the file list or by name, succeeds and shows the same view — for the plain
class unconditionally; for `IH5MFRecord` provided the newest manifest link is intact
(`ManifestOk`); for `r+`/`a` provided the next patch name is free; by name provided
`find_files` returns the record's files. -/
theorem reopen_same_view_history (ops : List Op) (s0 : State) (hg0 : Good0 s0)
    (hsafe : ∀ o ∈ ops, o.safe = true) (hopen : (run s0 ops).h.closed = false)
    (c cls : Bool) (t : Target) (m : Mode) (hm : m = .r ∨ m = .rp ∨ m = .a)
    (ht : (∃ paths, t = .list paths ∧ paths.Perm (fileNames (run s0 ops).h)) ∨
          (∃ n paths, t = .name n ∧ findFiles (names (run s0 ops).disk) n = some paths ∧
            paths.Perm (fileNames (run s0 ops).h)))
    (hmf : cls = true → ManifestOk (run s0 ops).disk (run s0 ops).h.files)
    (hfresh : m ≠ .r → NextPatchFree (run s0 ops)) :
    (close (run s0 ops) c).out = .ok ∧ (openRec (close (run s0 ops) c).st cls t m).out = .ok ∧
    view (openRec (close (run s0 ops) c).st cls t m).st = view (run s0 ops) :=
  reopen_same_view _ (good_of_good0 (good0_run ops s0 hg0 hsafe) hopen) c cls t m hm ht hmf hfresh

/-- The statement without side conditions: along every history from the empty directory in
which the record was created by name, reopening by name or by any permutation of the list,
in `r`/`r+`/`a`, by either class, shows the same view. `reopen_same_view_history` proves it
relative to three facts that are checked on every run by the correspondence harness but are
not proved for all histories here: (1) `find_files` returns exactly the handle's files
(needs the canonical-naming invariant and injectivity of the decimal rendering of patch
indices), (2) the next patch name is free (same), (3) for `IH5MFRecord` the manifest link of
the newest container is intact after `discard_patch` / class mixing (needs a global
uuid-uniqueness invariant for manifests). -/
def reopen_same_view_statement : Prop :=
  ∀ (ops : List Op) (n : Name) (cls0 : Bool) (m0 : Mode), (∀ o ∈ ops, o.safe = true) →
    (∀ o ∈ ops, ∀ c t m, o = Op.openRec c t m → c = cls0 ∧ t = .name n) →
    let s := run {} (Op.openRec cls0 (.name n) m0 :: ops)
    s.h.closed = false →
    ∀ (c : Bool) (m : Mode), (m = .r ∨ m = .rp ∨ m = .a) →
      ∀ t, (t = .name n ∨ ∃ paths, t = .list paths ∧ paths.Perm (fileNames s.h)) →
        (close s c).out = .ok ∧ (openRec (close s c).st cls0 t m).out = .ok ∧
        view (openRec (close s c).st cls0 t m).st = view s

/-- **discard_returns_to_commit**: a patch that is created on a handle without writable
container (i.e. right after a commit, or after opening a committed record), filled with any
writes and then discarded leaves every directory entry and the handle's file list as they
were — the view is the one of the last commit. -/
theorem discard_returns_to_commit (s : State) (ks : List Nat) (hok : (createPatch s).out = .ok) :
    (discardPatch (run (createPatch s).st (ks.map Op.write))).out = .ok ∧
    (discardPatch (run (createPatch s).st (ks.map Op.write))).st.h.files = s.h.files ∧
    (∀ g, getF (discardPatch (run (createPatch s).st (ks.map Op.write))).st.disk g = getF s.disk g) ∧
    view (discardPatch (run (createPatch s).st (ks.map Op.write))).st = view s :=
  discard_undoes_patch s ks hok

/-! ## file discovery -/

/-- **findFiles_exact**: for a valid record name, `find_files` returns exactly the directory
entries `<name><c>…` with `c` outside `[A-Za-z0-9-]` whose part after the name ends with `.ih5`. -/
theorem findFiles_exact (dir : List Name) (n : Name) (hn : ValidName n) :
    ∃ l, findFiles dir n = some l ∧
      ∀ f, f ∈ l ↔ (f ∈ dir ∧ ∃ c rest, f = n ++ c :: rest ∧ isNameChar c = false ∧
                      endsWith (c :: rest) ext = true) := findFiles_exact' dir n hn

/-- **findFiles_disjoint**: for valid names `n ≠ m`, no file that belongs to `m` — `m`
followed by a non-name character, in particular the canonical `m.ih5` and `m.p<k>.ih5` — is
ever found for `n` (foo / foo2 / foo-bar / fo). -/
theorem findFiles_disjoint (dir : List Name) (n m : Name) (hn : ValidName n) (hm : ValidName m)
    (hne : n ≠ m) (l : List Name) (hl : findFiles dir n = some l) :
    (∀ c rest, isNameChar c = false → m ++ c :: rest ∉ l) ∧ baseFile m ∉ l ∧ ∀ k, patchFile m k ∉ l := by
  have hl' : l = dir.filter (belongs n) := by
    simp only [findFiles, isValidName_of_valid hn, if_true, Option.some.injEq] at hl
    exact hl.symm
  have h1 : ∀ c rest, isNameChar c = false → m ++ c :: rest ∉ l := by
    intro c rest hc hmem
    rw [hl', List.mem_filter, belongs_other_false n m hn hm hne c rest hc] at hmem
    cases hmem.2
  refine ⟨h1, ?_, ?_⟩
  · exact h1 '.' ['i', 'h', '5'] (by decide)
  · intro k
    have := h1 '.' ('p' :: (decimal k ++ ext)) (by decide)
    simpa [patchFile, infix_] using this

/-! ## user-block codec: whatever `save` accepted loads again

`IH5UserBlock.save` writes `magic \n 1024 \n <json> NUL` in place at offset 0 and asserts that
this is shorter than 1024 bytes, i.e. the JSON text has at most 1010 characters. `load` probes
the first 512 bytes and re-reads with the stated size (1024 > 512). The statements are about
the *text* between the second newline and the first NUL (any ASCII text without newline / NUL:
the canonical blocks of `IH5Record` ≈ 300 characters, of `IH5MFRecord` ≈ 500, and blocks of
subclasses that put more into the documented `ub_exts` section); `json.loads` + pydantic on
that text are the concern of `UBlock.parseUBT` (C04/C11). -/

theorem clean_nul_cons {z : List Char} (hz : UBlock.Clean z) : UBlock.Clean ('\x00' :: z) := by
  intro c hc
  rcases List.mem_cons.mp hc with h | h
  · subst h; exact ⟨by decide, by decide⟩
  · exact hz c h

/-- **ub_text_roundtrip**: a block `magic \n 1024 \n t NUL z` loads the stated size and exactly
the text `t`, for every text of up to 1010 characters — in particular for those longer than the
499 characters the first probe sees. `z` is whatever follows the NUL; only the part inside the
reserved 1024 bytes matters and must be ASCII without newline (zeros, or the tail of an older,
longer text and its NUL). -/
theorem ub_text_roundtrip (t z : List Char) (ht : UBlock.Clean t) (hnul : '\x00' ∉ t)
    (hlen : t.length ≤ 1010) (hz : UBlock.Clean (z.take (1010 - t.length))) :
    UBlock.loadText (UBlock.HDR ++ (t ++ '\x00' :: z)) = .ok (1024, t) := by
  have htake : (t ++ '\x00' :: z).take 1011 = t ++ '\x00' :: z.take (1010 - t.length) := by
    rw [List.take_append, List.take_of_length_le (by omega)]
    obtain ⟨m, hm⟩ : ∃ m, 1011 - t.length = m + 1 := ⟨1010 - t.length, by omega⟩
    rw [hm, List.take_succ_cons]
    congr 3; omega
  rw [UBlock.loadText_hdr _ (by rw [htake]; exact ht.append (clean_nul_cons hz)),
    UBlock.cutNul_take hnul z (by omega)]

/-- the same for the in-place write of `save` over the old first bytes of the file
(`UBlock.torn` with the complete length = `f.seek(0); f.write(data); f.write(NUL)`) -/
theorem ub_text_roundtrip_inplace (old t : List Char) (ht : UBlock.Clean t) (hnul : '\x00' ∉ t)
    (hlen : t.length ≤ 1010)
    (hold : UBlock.Clean ((old.drop (t.length + 14)).take (1010 - t.length))) :
    UBlock.loadText (UBlock.torn (UBlock.HDR ++ (t ++ ['\x00'])).length old (UBlock.HDR ++ (t ++ ['\x00'])))
      = .ok (1024, t) := by
  have hl : (UBlock.HDR ++ (t ++ ['\x00'])).length = t.length + 14 := by
    simp [UBlock.HDR_length]; omega
  unfold UBlock.torn
  rw [List.take_of_length_le (le_refl _), hl, List.append_assoc, List.append_assoc]
  exact ub_text_roundtrip t _ ht hnul hlen hold

theorem untilNul_none {a : List Char} (ha : '\x00' ∉ a) : UBlock.untilNul a = none := by
  induction a with
  | nil => rfl
  | cons c a ih =>
    have hc : c ≠ '\x00' := fun h => ha (h ▸ List.mem_cons_self)
    simp [UBlock.untilNul, hc, ih (fun h => ha (List.mem_cons_of_mem _ h))]

/-- why the re-read is needed: the 512-byte probe alone yields a truncated text for every
text of 499 characters or more (no NUL in sight, and `find` = -1 drops one more character) -/
theorem probe_alone_truncates (t z : List Char) (ht : UBlock.Clean t) (hnul : '\x00' ∉ t)
    (hlen : 499 ≤ t.length) :
    UBlock.readHeadRaw (UBlock.HDR ++ (t ++ '\x00' :: z)) 512 = .ok (some (1024, (t.take 499).dropLast)) := by
  have htake : (t ++ '\x00' :: z).take (512 - 13) = t.take 499 := by
    rw [List.take_append_of_le_length (by omega)]
  rw [UBlock.readHeadRaw_hdr _ 512 (by omega) (by rw [htake]; exact ht.take _), htake]
  have : UBlock.untilNul (t.take 499) = none := untilNul_none (fun h => hnul (List.mem_of_mem_take h))
  simp [UBlock.cutNul, this]

/-! ## Non-vacuity: concrete states meet the hypotheses -/

/-- `foo`, `foo2` -/
def foo : Name := ['f', 'o', 'o']
def foo2 : Name := ['f', 'o', 'o', '2']

/-- create foo2 and foo (manifest class), two commits and an uncommitted third container -/
def hist : List Op :=
  [.openRec false (.name foo2) .x, .write 9, .close true,
   .openRec true (.name foo) .x, .write 1, .commitPatch, .createPatch, .write 2, .commitPatch,
   .createPatch, .write 3]

example : ∀ o ∈ hist, o.safe = true := by decide
example : (run {} hist).h.closed = false ∧ (fileNames (run {} hist).h).length = 3 ∧ view (run {} hist) = [1, 2, 3] := by
  decide
/-- `find_files foo` returns the three containers of foo and not `foo2.ih5` -/
example : findFiles (names (run {} hist).disk) foo = some (fileNames (run {} hist).h) := by decide
example : ValidName foo ∧ ValidName foo2 ∧ foo ≠ foo2 := by
  refine ⟨⟨by decide, by decide⟩, ⟨by decide, by decide⟩, by decide⟩

/-- instance of `reopen_same_view_history`: close with commit, reopen read-only with the plain
class from the *reversed* file list -/
example : view (openRec (close (run {} hist) true).st false (.list (fileNames (run {} hist).h).reverse) .r).st
    = [1, 2, 3] := by
  have h := reopen_same_view_history hist {} good0_init (by decide) (by decide) true false
    (.list (fileNames (run {} hist).h).reverse) .r (Or.inl rfl)
    (Or.inl ⟨_, rfl, List.reverse_perm _⟩) (by intro h; cases h) (by intro h; exact absurd rfl h)
  rw [h.2.2]; decide

/-- the mode laws have satisfiable premises: foo is *patched + uncommitted patch* after
`hist` + close without commit, *absent* in the empty directory -/
example : findFiles (names ({} : State).disk) foo = some [] := by decide
example : (match openFiles (close (run {} hist) false).st.disk
    [patchFile foo 2, baseFile foo, patchFile foo 1] true with
    | .ok (files, b) => b && files.length == 3
    | .error _ => false) = true := by decide
example : (match openFiles (close (run {} hist) true).st.disk
    [patchFile foo 2, baseFile foo, patchFile foo 1] true with
    | .ok (files, b) => !b && files.length == 3
    | .error _ => false) = true := by decide
example : (createPatch (run {} (hist ++ [.commitPatch]))).out = .ok := by decide

/-- a text of 600 characters (longer than the first probe) in a zero-filled block -/
example : UBlock.loadText (UBlock.HDR ++ (List.replicate 600 'a' ++ '\x00' :: List.replicate 410 '\x00'))
    = .ok (1024, List.replicate 600 'a') := by
  apply ub_text_roundtrip
  · intro c hc; rw [List.eq_of_mem_replicate hc]; exact ⟨by decide, by decide⟩
  · intro h; exact absurd (List.eq_of_mem_replicate h) (by decide)
  · rw [List.length_replicate]; omega
  · intro c hc; rw [List.eq_of_mem_replicate (List.mem_of_mem_take hc)]; exact ⟨by decide, by decide⟩

end MetadorModel.C03
