import MetadorModel.Props.C09
import MetadorModel.Proofs.ContainerCoherent
/-!
# C09 (b) without the coherence hypothesis

`Props/C09.lean` proves reopen-unobservability from the explicit hypothesis `CacheCoherentOn P e`
and depends on the container model only. This file discharges that hypothesis with the
container invariant of C06 (`Proofs/ContainerCoherent.lean`: `cacheCoherent_ok`), for every
well-formed schema environment and every history whose operations satisfy `OpOK` (all
operations; only a `move` whose destination ends in the EMPTY node name is excluded — HDF5 has
no such names and the line driver rejects them; in the model it would leave a metadata
directory behind, `MetadorModel.C06.sync_step_needs_names`).
-/
namespace MetadorModel.C09
open MetadorModel.Container

/-- `cacheCoherent_ok` is exactly `CacheCoherentOn OpOK` -/
theorem cacheCoherentOn_opOK {e : Env} (he : WFEnv e) : CacheCoherentOn OpOK e :=
  fun s hr => cacheCoherent_ok he s hr

/-- **C09 (b), closed form.** For a well-formed schema environment, reopen points inserted
anywhere into a history from a fresh container are unobservable: the caller sees the same
outcome of every operation and of every metadata sub-operation, the raw tree and the uuid
counter are equal, the caches are `CachesEqv` (so every later operation, `get` and query
behaves identically: `obsEq_congruent`). No hypothesis about the caches is left. -/
theorem reopen_unobservable {e : Env} (he : WFEnv e) {h h' : List Op} (hi : Ins isReopen h h')
    (hok : ∀ op ∈ h, OpOK op) :
    outcomes isReopen e initSt h' = outcomes isReopen e initSt h ∧
    (run e initSt h').raw = (run e initSt h).raw ∧
    (run e initSt h').next = (run e initSt h).next ∧
    CachesEqv (run e initSt h').c (run e initSt h).c :=
  reopen_unobservable_of_coherent_on (P := OpOK) trivial (cacheCoherentOn_opOK he) hi hok

/-- non-vacuity: the example environment of `Props/C09.lean` is well-formed, every operation of
the example history is admissible, and `exHr` is `exH` with reopen points inserted — so the
theorem applies and gives, without any remaining hypothesis, … -/
theorem exEnv_wf : WFEnv exEnv := WFEnv.of_check (by decide +kernel)

example : ∀ op ∈ exH, OpOK op := by decide

example :
    outcomes isReopen exEnv initSt exHr = outcomes isReopen exEnv initSt exH ∧
    (run exEnv initSt exHr).raw = (run exEnv initSt exH).raw :=
  have h := reopen_unobservable exEnv_wf (h := exH) (h' := exHr)
    (by unfold exH exHr; repeat (first | exact Ins.nil | apply Ins.keep | apply Ins.skip _ rfl))
    (by decide)
  ⟨h.1, h.2.1⟩

/-- patch boundaries and reopen points together: first drop the boundaries
(`boundaries_unobservable`, exact), then the reopen points -/
theorem boundaries_and_reopens_unobservable {e : Env} (he : WFEnv e) {h h₁ h₂ : List Op}
    (hr : Ins isReopen h h₁) (hp : Ins isPatch h₁ h₂) (hok : ∀ op ∈ h, OpOK op) :
    (run e initSt h₂).raw = (run e initSt h).raw ∧
    CachesEqv (run e initSt h₂).c (run e initSt h).c := by
  obtain ⟨_, h2⟩ := boundaries_unobservable (e := e) hp initSt
  obtain ⟨_, r1, _, r3⟩ := reopen_unobservable he hr hok
  rw [h2]
  exact ⟨r1, r3⟩

end MetadorModel.C09
